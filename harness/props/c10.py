"""
C10 — Population bookkeeping stays consistent under births and deaths.

correspond(): (1) random operation sequences on a REAL ss.People attached to a minimal sim (grow with sizes around the
                  reallocation rule, with/without explicit slots; request_death incl. repeats and already-dead agents;
                  step_die; update_results; remove_dead; finish_step; late registration of a state) compared after every
                  operation with Model/People.lean: uid space, auids, (len_used, len_tot) of every registered state, the
                  storage of uid/slot/parent/alive/ti_dead, recorded n_alive/new_deaths.
              (2) generated demographic sims (Deaths, Pregnancy with maternal/neonatal death, SIR with deaths): every call
                  of People.grow/request_death/step_die/update_results/finish_step is recorded with its arguments and the
                  population after it, and the recorded history is replayed through the model.
search():     the invariants of the property evaluated directly on the real objects at every recorded call of generated
              demographic sims and of random operation sequences (no model).
"""
import sys, pickle
import numpy as np
from harness import impl
from harness.props.c11 import cv, nats, toks, TYPES, make_arr, err_kind

PROP = 'C10'
GENERATED = ['ArrConsts', 'PeoplePlan']
DRIVER = 'Drivers/C10.lean'
DRIVER_MODULES = ['StarsimModel.Model.People', 'StarsimModel.Model.Arr', 'StarsimModel.Model.Proto']
RULE = ('(1) operation sequences (30-45 ops) on a real ss.People: grow sizes around the 50% reallocation rule, death requests '
        '(active, repeated, already dead), death resolution, removal, results, clock ticks, late state registration; '
        '(2) recorded People call histories of generated sims with Deaths / Pregnancy (maternal + neonatal death) / SIR with deaths; '
        '(3) module-set sims: any subset of {Births, Deaths, SIR, SIS, network} (also the empty one) with deaths requested by interventions, '
        'plain-function interventions and connectors, and Deaths / Births / requesters on their own timeline (finer / coarser dt, later start, earlier stop); '
        'for every sim the real loop plan is compared with the regenerated plan table instantiated by the model; '
        '(4) array-holding modules of every kind (demographics, disease subclass, intervention, connector, analyzer, network) with several arrays whose state names collide '
        'within the module, across modules and with built-in states; every array found on the module objects must be linked, registered and aligned, and keep the identifier-keyed values its module wrote; '
        '(5) death requests in every key form (identifier array, python int, numpy integer, Boolean state) after agents with smaller identifiers were removed: exactly the named identifiers die; '
        'distinct = distinct canonical op sequence; non-trivial = at least one reallocation-free grow, one reallocating grow and one removal')
TRUSTED = ['np.isin / np.unique as used by remove_dead; the monkey-patched recorders only observe (they call the original method first)',
           'harness/extractors/c10_plan.py: AST scan for writes to people.ti_dead / people.alive (setattr / helper-mediated writes are not seen); guards of the loop plan are evaluated with eval() on the real sim']
ASSUMPTIONS = ['user-defined modules change life status only through People.request_death / step_die (for the built-in modules this is the regenerated fact C10_life_status_single_writer; direct writes to alive/ti_dead by a module are outside the model; the sim replay compares alive/ti_dead after every call and the stamp oracles read the real arrays)']


class HarnessError(Exception):
    pass


# ---------------------------------------------------------------------------
# observation of a real People

def lens(a):
    return f'{int(a.len_used)}:{int(a.len_tot)}'


def owner_kind(m):
    import starsim as ss
    for k, c in (('people', ss.People), ('demographics', ss.Demographics), ('disease', ss.Disease), ('network', ss.Network), ('connector', ss.Connector),
                 ('intervention', ss.Intervention), ('analyzer', ss.Analyzer)):
        if isinstance(m, c): return k
    return 'module'


HOLDER_DEFAULT = dict(float='nan', bool='F', state='F', int='-9')


def holder_tag(t, j, u):
    """ what an array-holding probe module writes for agent `u` into its j-th array: a function of the IDENTIFIER """
    if t == 'float': return cv(np.float64(u + 0.25 * (j + 1)))
    if t == 'int': return str(int(u) * 3 + j)
    return 'T' if (u + j) % 2 == 0 else 'F'


def held_arrays(sim):
    """ every per-agent array that People or a module of the sim holds as an attribute. Found by walking the objects themselves
        (NOT through Module.states / People._states, which are the machinery under test): owner, attribute, state name, whether
        it is linked to this sim's People and in its growth registry, (len_used:len_tot), len(raw); the stored values too for
        the harness's own array-holding probe modules """
    import starsim as ss
    p = sim.people; out = []
    owners = [p] + [m for m in sim.modules if isinstance(m, ss.Module)]
    for obj in owners:
        kind = owner_kind(obj); probe = getattr(obj, '_verif_holder', None)
        for attr, a in list(vars(obj).items()):
            if not isinstance(a, ss.Arr): continue
            index_core = obj is p and attr in ('uid', 'slot', 'parent')       # grown explicitly by People.grow, not through the registry
            d = dict(owner=kind, who=f"{kind} {getattr(obj, 'name', 'people')}.{attr}", name=str(a.name), linked=(a.people is p) or index_core,
                     registered=(id(a) in p._states) or index_core,
                     twin=sum(1 for b in vars(obj).values() if isinstance(b, ss.Arr) and b.name == a.name) > 1,
                     lens=lens(a), rawlen=int(len(a.raw)))
            if probe and attr in probe:
                d['probe'] = probe[attr]; d['vals'] = [cv(x) for x in np.asarray(a.raw)]
            out.append(d)
    return out


def named_agents(p, key):
    """ the agents a death request names, BY IDENTIFIER, derived here from the form of the key (not through Arr._convert_key):
        a scalar is one identifier, an identifier array is itself, a Boolean state names the active agents for which it is true """
    import starsim as ss
    if isinstance(key, ss.BoolArr):
        au = np.asarray(p.auids); return [int(u) for u in au[np.asarray(key.raw)[au].astype(bool)]]
    if isinstance(key, ss.Arr):
        return [int(u) for u in np.asarray(key.raw)[np.asarray(p.auids)]]
    if isinstance(key, slice):
        return [int(u) for u in np.asarray(p.auids)[key]]
    return [int(u) for u in np.asarray(key).reshape(-1)]


def observe(p, sim, written):
    core = {id(p.alive), id(p.ti_dead)}
    others = [a for k, a in p._states.items() if k not in core]
    return dict(held=held_arrays(sim), n=int(p.uid.len_used), ti=int(sim.t.ti), au=[int(u) for u in p.auids],
                uid=(lens(p.uid), [cv(x) for x in np.asarray(p.uid.raw)]),
                slot=(lens(p.slot), [cv(x) for x in np.asarray(p.slot.raw)]),
                parent=(lens(p.parent), [cv(x) for x in np.asarray(p.parent.raw)]),
                alive=(lens(p.alive), [cv(x) for x in np.asarray(p.alive.raw)]),
                tidead=(lens(p.ti_dead), [cv(x) for x in np.asarray(p.ti_dead.raw)]),
                states=[lens(a) for a in others], rawlens=[len(a.raw) for a in others],
                nalive=[(t, int(sim.results.n_alive[t])) for t in written], newdeaths=[(t, int(sim.results.new_deaths[t])) for t in written])


def stamped_living(p):
    """ active agents that are alive and carry a death stamp (people.ti_dead set), with the stamp: read from the real arrays """
    au = np.asarray(p.auids)
    td = np.asarray(p.ti_dead.raw)[au]; al = np.asarray(p.alive.raw)[au].astype(bool)
    m = ~np.isnan(td) & al
    return [(int(u), float(t)) for u, t in zip(au[m], td[m])]


def parse_model(line):
    parts = line.split(' ')
    out = dict(st=parts[0])
    for q in parts[1:]:
        if '=' in q:
            k, v = q.split('=', 1); out[k] = v
    return out


def lst(s):
    return [] if s == '-' else s.split(',')


def close(a, b):
    from harness.props.c11 import num_of
    if a == b or a == '_': return True
    x, y = num_of(a), num_of(b)
    if x is None or y is None: return False
    return abs(x - y) <= max(abs(x), 1) / 2 ** 20


def compare(obs, ml, sim_mode=False):
    """ observation vs model line; None when they agree """
    if ml == 'bad-op': return 'model rejected the operation line'
    m = parse_model(ml)
    if 'age_after' in obs:
        if m['st'] != 'ok': return f"ageing: model {m['st']}"
        ma = lst(m['age'])
        if len(ma) != len(obs['age_after']) or not all(close(a, b) for a, b in zip(ma, obs['age_after'])):
            return f"ages after update_post: impl={toks(obs['age_after'])} model={m['age']}"
        return None
    if 'fin' in obs:
        from fractions import Fraction
        if m['st'] != 'ok': return f"finalize: model {m['st']}"
        for k, vals in obs['fin'].items():
            if vals is None: return f'finalize: the sim has no finalised series for {k}'
            mv = [x.split(':', 1) for x in lst(m[k])]
            if [int(t) for t, _ in mv] != [t for t, _ in vals]: return f'finalize: {k} steps impl={[t for t, _ in vals]} model={[t for t, _ in mv]}'
            for (t, x), (_, q) in zip(vals, mv):
                want = float(Fraction(q))
                if abs(x - want) > max(abs(want), 1.0) / 2 ** 45:       # tolerance: one float rounding of count x pop_scale
                    return f'finalize: published {k}[{t}] = {x!r}, model (recorded count x pop_scale) = {q} = {want!r}'
        return None
    if obs['st'] != m['st']:
        return f"outcome: impl={obs['st']} ({obs.get('msg', '')}) model={m['st']}"
    if obs['st'] != 'ok': return None
    o = obs['obs']
    if str(o['n']) != m['n']: return f"uid space: impl={o['n']} model={m['n']}"
    if str(o['ti']) != m['ti']: return f"ti: impl={o['ti']} model={m['ti']}"
    if nats(o['au']) != m['au']: return f"auids: impl={nats(o['au'])} model={m['au']}"
    names = ['uid', 'alive', 'tidead'] + ([] if sim_mode else ['slot', 'parent'])
    for nm in names:
        ln, raw = o[nm]
        mlu, mlt, mraw = m[nm].split(':', 2)
        if ln != f'{mlu}:{mlt}': return f'{nm}: (len_used:len_tot) impl={ln} model={mlu}:{mlt}'
        mraw = lst(mraw)
        if len(mraw) != len(raw) or any(a != '_' and a != b for a, b in zip(mraw, raw)):
            return f'{nm}: storage impl={toks(raw)} model={toks(mraw)}'
    if sim_mode:
        for nm in ('slot', 'parent'):
            mlu, mlt, _ = m[nm].split(':', 2)
            if o[nm][0] != f'{mlu}:{mlt}': return f'{nm}: (len_used:len_tot) impl={o[nm][0]} model={mlu}:{mlt}'
    if o['states'] != lst(m['states']): return f"registered states (len_used:len_tot): impl={o['states']} model={m['states']}"
    if any(int(s.split(':')[1]) != rl for s, rl in zip(o['states'], o['rawlens'])): return f"a state has len_tot != len(raw): {o['states']} vs {o['rawlens']}"
    for k in ('nalive', 'newdeaths'):
        want = ','.join(f'{t}:{v}' for t, v in o[k]) or '-'
        if want != m[k]: return f'{k}: impl={want} model={m[k]}'
    if 'died' in obs and nats(obs['died']) != m.get('died'): return f"step_die returned {nats(obs['died'])}, model {m.get('died')}"
    return None


# ---------------------------------------------------------------------------
# (1) operation sequences on a real People

class RealPeople:
    def __init__(self, case):
        import starsim as ss
        self.ss = ss
        specs = case['arrays']

        class Holder(ss.Module):
            def __init__(self):
                super().__init__(name='holder')
                self.define_states(*[make_arr(s) for s in specs])
            def step(self): pass

        sim = ss.Sim(n_agents=case['n0'], dur=120, demographics=Holder(), verbose=0, rand_seed=case.get('seed', 1))
        sim.init()
        self.sim = sim; self.p = sim.people
        self.written = []
        self.nlate = 0

    def init_line(self):
        return f"init {len(self.p.auids)} {len(self.p._states) - 2}"

    def exec(self, op):
        ss = self.ss; p = self.p; sim = self.sim
        extra = {}
        try:
            o = op[0]
            if o == 'grow':
                if op[2] is None: new = p.grow(op[1])
                else: new = p.grow(op[1], np.array(op[2], dtype=np.int64)) if op[3] == 'both' else p.grow(new_slots=np.array(op[2], dtype=np.int64))
                extra['new'] = [int(u) for u in new]
            elif o == 'request':
                form = op[3] if len(op) > 3 else 'uids'       # the same agents named one by one (python int / numpy integer) or as an identifier array
                if form == 'int':
                    for u in op[1]: p.request_death(int(u))
                elif form == 'npint':
                    for u in ss.uids(np.array(op[1], dtype=np.int64)): p.request_death(u)
                else:
                    p.request_death(ss.uids(np.array(op[1], dtype=np.int64)))
            elif o == 'stepdie':
                extra['died'] = [int(u) for u in p.step_die()]
            elif o == 'results':
                p.update_results()
                if sim.t.ti not in self.written: self.written.append(int(sim.t.ti))
            elif o == 'removedead':
                p.remove_dead()
            elif o == 'finish':
                p.finish_step(); sim.finish_step()
            elif o == 'copy':
                import sciris as sc
                try:
                    self.sim = pickle.loads(pickle.dumps(self.sim)) if op[1] == 'pickle' else sc.dcp(self.sim)
                except (AttributeError, pickle.PicklingError, TypeError):
                    self.sim = sc.dcp(self.sim)        # harness-local classes / closures are not picklable: deep copy uses the same __getstate__/__setstate__ protocol
                self.p = p = self.sim.people; sim = self.sim
            elif o == 'age':
                before = [cv(x) for x in np.asarray(p.age.raw)]
                p.update_post()
                extra['age_before'] = before; extra['age_after'] = [cv(x) for x in np.asarray(p.age.raw)]
                extra['dt'] = cv(np.float64(sim.t.dt_year)) if sim.pars.use_aging else '0'
            elif o == 'register':
                a = make_arr(op[1])
                a.link_people(p)
                try:
                    a.init_vals()
                except Exception:
                    p._states.pop(id(a), None)
                    raise
            else:
                raise HarnessError(op)
            return dict(st='ok', obs=observe(p, sim, self.written), **extra)
        except HarnessError:
            raise
        except Exception as e:
            return dict(st=err_kind(e), msg=str(e)[:120], obs=observe(p, sim, self.written))

    @staticmethod
    def line(op):
        o = op[0]
        if o == 'grow': return f'grow {op[1]}' if op[2] is None else f'grow {len(op[2]) if op[3] != "both" else op[1]} {nats(op[2])}'
        if o == 'request': return f'request {nats(op[1])}'
        if o == 'register': return 'register'
        if o == 'copy': return 'state'
        if o == 'age': return None      # filled in from the observation (needs the ages before)
        return o


def gen_header(rng):
    n0 = rng.choice([1, 2, 3, 4, 6, 8, 9, 12, 16, 24])
    arrays = []
    for i in range(rng.randint(2, 5)):
        t = rng.choice(TYPES)
        d = rng.choice([['unset'], ['const', {'float': 1.5, 'bool': True, 'state': False, 'int': 3}[t]]] + ([['affine', 0.0, 0.5], ['dist']] if t == 'float' else []))
        arrays.append(dict(name=f'{t[0]}{i}', type=t, default=d))
    return dict(n0=n0, arrays=arrays, seed=rng.randint(0, 999), ops=[])


def gen_op(rng, w, only=None):
    p = w.p
    n = int(p.uid.len_used); tot = int(p.uid.len_tot)
    au = [int(u) for u in p.auids]
    alive_au = [u for u in au if bool(p.alive.raw[u])]
    r = rng.random() if only is None else 0.0
    if r < 0.20:
        spare = tot - n
        k = min(rng.choice([spare, spare + 1, 1, 1, 2, tot // 2, tot // 2 + 1, max(spare - 1, 0), 0, 3]), 40)
        q = rng.random()
        if q < 0.6 or k == 0: return ['grow', k, None, None]
        slots = [rng.randint(0, n + 5) for _ in range(k)]
        return ['grow', k, slots, rng.choice(['both', 'slots'])]
    if r < 0.45 and au:
        q = rng.random()
        if q < 0.1: us = list(au)
        elif q < 0.7 and alive_au: us = rng.sample(alive_au, rng.randint(1, max(1, len(alive_au) // 3)))
        else: us = [rng.randrange(n) for _ in range(rng.randint(1, 4))]          # any created agent, repeats, already dead
        if rng.random() < 0.3: us = us + us[:1]
        return ['request', us, None, rng.choice(['uids', 'uids', 'int', 'npint'])]
    if r < 0.58: return ['stepdie']
    if r < 0.60: return ['copy', rng.choice(['pickle', 'deepcopy'])]
    if r < 0.62: return ['age']
    if r < 0.70 and int(w.sim.t.ti) < 110: return ['results']
    if r < 0.78: return ['removedead']
    if r < 0.93 and int(w.sim.t.ti) < 110: return ['finish']
    if w.nlate < 3:
        w.nlate += 1
        t = rng.choice(TYPES)
        return ['register', dict(name=f'late{w.nlate}', type=t, default=rng.choice([['unset'], ['const', {'float': 2.5, 'bool': True, 'state': True, 'int': 1}[t]]]))]
    return ['stepdie']


def op_line(w, op, obs):
    if op[0] == 'age':
        return f"age {obs.get('dt', '0')} {toks(obs.get('age_before', []))}"
    return w.line(op)


def gen_structured(rng, w):
    """ operations in the order the simulation loop issues them: births/requests, step_die, results, (late request), finish """
    ph = getattr(w, 'phase', 'pre')
    p = w.p; n = int(p.uid.len_used); au = [int(u) for u in p.auids]
    gone = sorted(set(range(n)) - set(au))
    if ph == 'pre':
        r = rng.random()
        if r < 0.30 or w.npre >= 4:
            w.phase = 'post1'; w.npre = 0; return ['stepdie']
        w.npre += 1
        if r < 0.50: return gen_op(rng, w, only='grow')
        if r < 0.62 and gone: return ['request', rng.sample(gone, min(len(gone), rng.randint(1, 3))) + (rng.sample(au, 1) if au and rng.random() < 0.5 else [])]   # already removed agents
        if r < 0.90 and au:
            us = rng.sample(au, rng.randint(1, max(1, len(au) // 4)))
            return ['request', us + (us[:2] if rng.random() < 0.5 else []), None, rng.choice(['uids', 'uids', 'int', 'npint'])]          # several requests for one agent, in any form
        if r < 0.95: return ['copy', rng.choice(['pickle', 'deepcopy'])]
        return ['age']
    if ph == 'post1':
        w.phase = 'post2'; return ['results']
    if ph == 'post2':
        if rng.random() < 0.2 and au and not getattr(w, 'did_late', False):
            w.did_late = True
            return ['request', rng.sample(au, 1), 'late']
        w.phase = 'pre'; w.did_late = False
        return ['finish'] if int(w.sim.t.ti) < 110 else ['removedead']
    raise HarnessError(ph)


def run_sequence(rng, nops, structured=None, fixed=None):
    case = dict(fixed, ops=[]) if fixed else gen_header(rng)
    if structured is None: structured = rng.random() < 0.5
    case['structured'] = bool(structured)
    w = RealPeople(case)
    w.phase = 'pre'; w.npre = 0
    lines = [w.init_line()]
    log = [(None, dict(st='ok', obs=observe(w.p, w.sim, [])))]
    todo = [list(o) for o in fixed['ops']] if fixed else [None] * nops
    for fop in todo:
        op = fop if fop is not None else (gen_structured(rng, w) if structured else gen_op(rng, w))
        obs = w.exec(op)
        case['ops'].append(op)
        lines.append(op_line(w, op, obs)); log.append((op, obs))
        if obs['st'] != 'ok' and op[0] == 'grow':
            break     # People.grow raised half-way through the registry (only after a mis-sized late registration)
    return case, lines, log, w


# ---------------------------------------------------------------------------
# (2) recording People calls inside generated sims

SIM_FAMILIES = [
    dict(demographics=['deaths'], diseases=['sir']),
    dict(demographics=['pregnancy', 'deaths'], diseases=['sir']),
    dict(demographics=['pregnancy'], diseases=['sis']),
    dict(demographics=['pregnancy', 'deaths'], diseases=[]),
]


def gen_sim_cfg(rng, k):
    fam = SIM_FAMILIES[k % len(SIM_FAMILIES)]
    cfg = impl.gen_sim_config(rng, small=True, demographics=fam['demographics'], diseases=fam['diseases'] or ['sis'],
                              networks=[rng.choice(['random', 'mf'])], time=dict(unit='year', dt=rng.choice([1.0, 0.5]), start=2000, dur=rng.choice([6, 10, 14])))
    for d in cfg['demographics']:
        if d['type'] == 'deaths': d['death_rate'] = rng.choice([20, 60, 150, 300])
        if d['type'] == 'pregnancy':
            d['fertility_rate'] = rng.choice([60, 150, 400, 800])
            d['p_maternal_death'] = rng.choice([0, 0.1, 0.5]); d['p_neonatal_death'] = rng.choice([0, 0.3, 1.0])
    for d in cfg['diseases']:
        if d['type'] == 'sir': d['p_death'] = rng.choice([0.05, 0.3, 0.8]); d['init_prev'] = 0.3
    cfg['n_agents'] = rng.choice([40, 80, 150])
    scale_kw(rng, cfg)
    return cfg


def scale_kw(rng, cfg):
    """ the sim stands for a larger / smaller population: integer, dyadic and non-dyadic factors, given as pop_scale or as total_pop """
    q = rng.random()
    if q < 0.45: return
    if q < 0.8: cfg['pop_scale'] = rng.choice([2.5, 1.75, 3, 0.5, 10.3, 1 / 3])
    else: cfg['total_pop'] = int(cfg['n_agents'] * rng.choice([1.5, 2.7, 10.283])) + 1


def route_uids(r):
    """ every agent identifier a transmission route currently refers to (edges of networks, explicit src/dst of mixing pools) """
    import starsim as ss
    out = set()
    ed = getattr(r, 'edges', None)
    if ed is not None:
        for k in ('p1', 'p2'):
            if k in ed: out |= set(int(u) for u in np.asarray(ed[k]))
    pars = getattr(r, 'pars', None)
    for k in ('src', 'dst'):
        v = pars.get(k) if pars is not None and hasattr(pars, 'get') else None
        if isinstance(v, ss.uids): out |= set(int(u) for u in v)
    for sub in getattr(r, 'pools', []) or []:
        out |= set(route_uids(sub))
    return sorted(out)


def build_custom(cfg, extra):
    """ scenario sims that impl.build_sim cannot express: mixing pools with explicit uids, Births, several death modules """
    import starsim as ss
    n = cfg['n_agents']
    nets = []
    for nd in cfg.get('networks', []):
        if nd['type'] == 'mixingpool':
            nets.append(ss.MixingPool(beta=1.0, src=ss.uids(np.arange(0, n // 2)), dst=ss.uids(np.arange(n // 4, n)), contacts=ss.poisson(1.0)))
        elif nd['type'] == 'random': nets.append(ss.RandomNet(n_contacts=nd.get('n_contacts', 4)))
        elif nd['type'] == 'erdosrenyi': nets.append(ss.ErdosRenyiNet(p=nd.get('p', 0.05)))
        elif nd['type'] == 'mf': nets.append(ss.MFNet(duration=nd.get('duration', 3)))
        elif nd['type'] == 'maternal': nets.append(ss.MaternalNet())
    dem = []
    for d in cfg.get('demographics', []):
        if d['type'] == 'births': dem.append(ss.Births(birth_rate=d.get('birth_rate', 40)))
        elif d['type'] == 'deaths': dem.append(ss.Deaths(death_rate=d.get('death_rate', 40), name=d.get('name', 'deaths')))
        elif d['type'] == 'pregnancy':
            dem.append(ss.Pregnancy(fertility_rate=d.get('fertility_rate', 100), p_maternal_death=ss.bernoulli(d.get('p_maternal_death', 0.2)),
                                    p_neonatal_death=ss.bernoulli(d.get('p_neonatal_death', 0.5))))
    dis = []
    for d in cfg.get('diseases', []):
        if d['type'] == 'sir': dis.append(ss.SIR(beta=d.get('beta', 0.3), init_prev=d.get('init_prev', 0.3), dur_inf=d.get('dur_inf', 2), p_death=d.get('p_death', 0.5), name=d.get('name', 'sir')))
        elif d['type'] == 'sis': dis.append(ss.SIS(beta=d.get('beta', 0.3), init_prev=d.get('init_prev', 0.3), name=d.get('name', 'sis')))
    pars = dict(n_agents=n, rand_seed=cfg.get('rand_seed', 1), verbose=0, unit='year', dt=cfg.get('dt', 1.0), start=2000, dur=cfg.get('dur', 8),
                diseases=dis, networks=nets)
    if dem: pars['demographics'] = dem
    if extra: pars['interventions'] = list(extra)
    return ss.Sim(**pars)


def record_sim(cfg, extra_module=None, catch=False):
    """ run a sim with People.grow/request_death/step_die/update_results/finish_step recorded; returns the history """
    import starsim as ss
    P = ss.People
    hist = []; state = dict(sim=None, written=[], phase='pre', hooks=dict(disease_die=[], route_remove=[]))
    orig = {k: getattr(P, k) for k in ('grow', 'request_death', 'step_die', 'update_results', 'finish_step')}

    def snap(p):
        return observe(p, state['sim'], state['written'])

    def wrap(name):
        f = orig[name]
        def w(self, *a, **kw):
            if state['sim'] is None or self is not state['sim'].people:
                return f(self, *a, **kw)
            ti = int(state['sim'].t.ti)
            pre_alive = np.asarray(self.alive.raw[:self.uid.len_used]).copy() if name == 'step_die' else None
            pre_stamped = stamped_living(self) if name in ('step_die', 'finish_step') else None
            pre_vals = {nm: [cv(x) for x in np.asarray(arr.raw)] for nm, arr in (('alive', self.alive), ('tidead', self.ti_dead), ('parent', self.parent))} if name == 'grow' else None
            if name == 'grow': pre_vals['held'] = {h['who']: h['vals'] for h in held_arrays(state['sim']) if 'vals' in h}
            named_agents_pre = named_agents(self, a[0] if a else kw.get('uids')) if name == 'request_death' else None      # read before the call: the key may be a live view
            out = f(self, *a, **kw)
            e = dict(op=name, ti=ti, phase=state['phase'])
            if pre_stamped is not None: e['pre_stamped'] = pre_stamped
            if pre_vals is not None: e['pre_vals'] = pre_vals          # the values when grow was entered (modules may have written since the last recorded call)
            if name == 'grow':
                n = a[0] if a else kw.get('n'); slots = a[1] if len(a) > 1 else kw.get('new_slots')
                e['k'] = int(n if n is not None else len(slots)); e['slots'] = None if slots is None else [int(s) for s in np.asarray(slots)]
                e['new'] = [int(u) for u in np.asarray(out)]
            elif name == 'request_death':
                us = a[0] if a else kw.get('uids')
                e['uids'] = named_agents_pre if named_agents_pre is not None else named_agents(self, us)
                e['form'] = type(us).__name__
                fr = sys._getframe(1)
                owner = fr.f_locals.get('self')
                e['site'] = 'synthetic' if getattr(owner, '_verif_synthetic', False) else f"{type(owner).__name__ if owner is not None else '?'}.{fr.f_code.co_name}"
                age = np.asarray(self.age.raw)
                e['prenatal'] = [bool(u < len(age) and age[u] < 0) for u in e['uids']]
            elif name == 'step_die':
                e['died'] = [int(u) for u in out]
                post = np.asarray(self.alive.raw[:self.uid.len_used])
                e['flipped'] = [int(u) for u in np.nonzero(pre_alive & ~post)[0]]
                e['revived'] = [int(u) for u in np.nonzero(~pre_alive & post[:len(pre_alive)])[0]]
                state['phase'] = 'post'
            elif name == 'update_results':
                if ti not in state['written']: state['written'].append(ti)
            e['obs'] = snap(self)
            if name == 'step_die':
                e['hooks'] = [h for h in state['hooks']['disease_die'] if h[1] == ti]
                e['n_diseases'] = sum(1 for d in state['sim'].diseases() if isinstance(d, ss.Disease))
            if name == 'finish_step':
                e['route_calls'] = [h for h in state['hooks']['route_remove'] if h[1] == ti]
                e['routes'] = {k: route_uids(r) for k, r in state['sim'].networks.items()}
            if name == 'finish_step':
                state['phase'] = 'pre'
                e['obs']['ti'] = ti + 1          # the clock tick of Sim.finish_step follows immediately
            hist.append(e)
            return out
        w.__name__ = name          # the loop plan records the function name of what it schedules
        return w

    for k in orig: setattr(P, k, wrap(k))
    fin = dict()
    orig_finalize = ss.Sim.finalize

    def finalize_w(self, *a, **kw):
        # observe (do not alter) what finalisation does to every recorded series: values just before, values just after
        if self is not state['sim']:
            return orig_finalize(self, *a, **kw)
        fin['pop_scale'] = float(self.pars.pop_scale)
        fin['pre'] = results_snapshot(self)
        out = orig_finalize(self, *a, **kw)
        fin['post'] = results_snapshot(self)
        return out
    ss.Sim.finalize = finalize_w
    hooks = dict(disease_die=[], route_remove=[])
    state['hooks'] = hooks
    try:
        extra = [m() for m in (extra_module if isinstance(extra_module, (list, tuple)) else [extra_module])] if extra_module else None
        sim = build_modset(cfg) if cfg.get('modset') else (impl.build_sim(cfg, extra_interventions=extra) if not cfg.get('custom') else build_custom(cfg, extra))
        sim.init()
        state['sim'] = sim
        # observe (do not alter) the death hooks of every disease and the clean-up of every route
        for d in sim.diseases():
            if isinstance(d, ss.Disease):
                def mk(d, f):
                    def w(uids, *a, **kw):
                        hooks['disease_die'].append((d.name, int(sim.t.ti), [int(u) for u in uids]))
                        return f(uids, *a, **kw)
                    return w
                d.step_die = mk(d, d.step_die)
        for key, r in sim.networks.items():
            def mk(key, f):
                def w(uids, *a, **kw):
                    hooks['route_remove'].append((key, int(sim.t.ti), [int(u) for u in uids]))
                    return f(uids, *a, **kw)
                return w
            r.remove_uids = mk(key, r.remove_uids)
        start = observe(sim.people, sim, [])
        error = None
        try:
            sim.run()
        except Exception as e:
            if not catch: raise
            import traceback
            tb = traceback.extract_tb(e.__traceback__)
            error = f"{type(e).__name__}: {e} (in {tb[-1].name}, {tb[-1].filename.split('/')[-1]}:{tb[-1].lineno}) at sim.ti={int(sim.t.ti)}"      # the calls recorded up to here are still examined
    finally:
        for k, f in orig.items(): setattr(P, k, f)
        ss.Sim.finalize = orig_finalize
    return dict(start=start, hist=hist, sim=sim, hooks=hooks, finalize=fin, error=error)


def results_snapshot(sim):
    """ every recorded series of the sim and of its modules: {(owner, key): (values, scale flag, dtype kind)} """
    import starsim as ss
    out = {}
    owners = [('sim', sim.results)] + [(m.name, m.results) for m in sim.modules]
    for owner, results in owners:
        for key, res in results.items():
            if isinstance(res, ss.Result):
                v = np.asarray(res.values if hasattr(res, 'values') else res)
                out[(owner, key)] = (v.copy(), bool(getattr(res, 'scale', False)), v.dtype.kind)
    return out


def finalize_fails(rec, tr):
    """ the recorded series AFTER the run: finalisation may only express them in people (x pop_scale), and the balance of
        the property must hold in recorded units: n_alive[t] = n_alive[t-1] + (created - died in t) x pop_scale """
    fin = rec.get('finalize') or {}
    if 'post' not in fin: return []
    fails = []; s = fin['pop_scale']
    for (owner, key), (pre, scale, kind) in fin['pre'].items():
        if (owner, key) not in fin['post']:
            fails.append((dict(oracle='finalized-results', level='sim' if owner == 'sim' else 'module', how='missing'), f'the recorded series {owner}.{key} disappeared at finalisation')); continue
        post = fin['post'][(owner, key)][0]
        if kind not in 'iufb' or post.dtype.kind not in 'iufb' or post.shape != pre.shape: continue
        if owner != 'sim' and not np.any(np.nan_to_num(pre.astype(float)) != 0):
            continue      # a module series left empty during the run is derived at finalisation (cumulative sums, rates): not a recorded series
        want = pre.astype(float) * s if scale else pre.astype(float)
        bad = np.nonzero(~np.isclose(post.astype(float), want, rtol=1e-12, atol=0, equal_nan=True))[0]
        if len(bad):
            t = int(bad[0])
            fails.append((dict(oracle='finalized-results', level='sim' if owner == 'sim' else 'module', how='scaled' if scale else 'unscaled'),
                          f"after finalisation {owner}.{key}[{t}] = {post[t]!r} but the value recorded during the run was {pre[t]!r}"
                          + (f' and pop_scale = {s!r} (expected {want[t]!r})' if scale else ' (a series that does not scale with the population)') + f'; {len(bad)} entries differ'))
    na = fin['post'].get(('sim', 'n_alive'))
    if na is not None and tr is not None:
        v = na[0].astype(float)
        for t in sorted(tr.flow):
            if t - 1 not in tr.flow or t >= len(v): continue
            created, died = tr.flow[t]
            want = v[t - 1] + (created - died) * s
            if not np.isclose(v[t], want, rtol=1e-9, atol=1e-9):
                fails.append((dict(oracle='balance', units='recorded'),
                              f'finalised results: n_alive[{t}] = {v[t]!r} != n_alive[{t - 1}] = {v[t - 1]!r} + (created {created} - died {died}) x pop_scale {s!r} = {want!r}'))
                break
    return fails


def sim_lines(rec):
    s = rec['start']
    m = len(s['states'])
    lines = [f"load {s['n']} {s['ti']} {nats(s['au'])} {toks(s['alive'][1])} {toks(s['tidead'][1])} {m}"]
    obs = [dict(st='ok', obs=s)]
    for e in rec['hist']:
        o = e['op']
        if o == 'grow': lines.append(f"grow {e['k']}" if e['slots'] is None else f"grow {e['k']} {nats(e['slots'])}")
        elif o == 'request_death': lines.append(f"request {nats(e['uids'])}")
        elif o == 'step_die': lines.append('stepdie')
        elif o == 'update_results': lines.append('results')
        elif o == 'finish_step': lines.append('finish')
        d = dict(st='ok', obs=e['obs'])
        if o == 'step_die': d['died'] = e['died']
        obs.append(d)
    fin = rec.get('finalize') or {}
    if 'post' in fin and rec['hist']:
        # Sim.finalize: the published series against the model's scaling of what it recorded (exact rational factor of the float pop_scale)
        from fractions import Fraction
        fr = Fraction(fin['pop_scale'])
        written = [t for t, _ in rec['hist'][-1]['obs']['nalive']]
        lines.append(f'finalize {fr.numerator}/{fr.denominator}' if fr.denominator != 1 else f'finalize {fr.numerator}')
        obs.append(dict(st='ok', fin={k: [(t, float(np.asarray(fin['post'][('sim', key)][0], dtype=float)[t])) for t in written] if ('sim', key) in fin['post'] else None
                                      for k, key in (('nalive', 'n_alive'), ('newdeaths', 'new_deaths'))}))
    return lines, obs


# ---------------------------------------------------------------------------
# (3) module-set sims: the death-resolution machinery must not depend on WHICH modules are present, on who asks, or on
#     the clock of the module that asks

REQUESTER_KINDS = ['intervention', 'function', 'connector']
# how a requester names the agents: an identifier array, one python int per agent, one numpy integer per agent (what iterating
# over an identifier array gives), a Boolean state that is true for them
REQUEST_FORMS = ['uids', 'int', 'npint', 'mask']


def ask(p, us, form, mask=None):
    """ request the death of the agents `us` (an ss.uids array of identifiers) in the given form """
    if form == 'int':
        for u in us: p.request_death(int(u))
    elif form == 'npint':
        for u in us: p.request_death(u)
    elif form == 'mask':
        mask[p.auids] = False; mask[us] = True
        p.request_death(mask)
    else:
        p.request_death(us)


HOLDER_BASES = dict(demographics=('Demographics', {}), intervention=('Intervention', {}), connector=('Connector', {}), analyzer=('Analyzer', {}),
                    network=('RandomNet', dict(n_contacts=2)), disease=('SIR', dict(beta=0.2, init_prev=0.2, dur_inf=3, p_death=0.2)))


def make_holder(h, i):
    """ a module of the given kind that holds per-agent arrays as attributes: `arrays` = [attribute, state name, type]; attribute
        names are distinct, state names may collide with each other and with the states of the base class (People's registry is
        keyed by object so that they can). Each step it writes, for every active agent it has not seen yet, a value that is a
        function of the agent's IDENTIFIER into every array, addressed by identifier """
    import starsim as ss
    base_name, base_kw = HOLDER_BASES[h['kind']]
    base = getattr(ss, base_name)
    specs = [list(a) for a in h['arrays']]

    class ArrayHolder(base):
        def __init__(self, **kw):
            super().__init__(**kw)
            self._verif_holder = {a: (t, j) for j, (a, nm, t) in enumerate(specs)}
            for a, nm, t in specs:
                setattr(self, a, make_arr(dict(name=nm, type=t, default=['unset'])))
            self._tagged = 0

        def step(self):
            out = super().step() if h['kind'] in ('network', 'disease') else None
            p = self.sim.people
            au = np.asarray(p.auids)
            new = au[au >= self._tagged]
            if len(new):
                for j, (a, nm, t) in enumerate(specs):
                    arr = getattr(self, a)
                    if t == 'float': arr[ss.uids(new)] = new + 0.25 * (j + 1)
                    elif t == 'int': arr[ss.uids(new)] = new * 3 + j
                    else: arr[ss.uids(new)] = (new + j) % 2 == 0
            self._tagged = int(p.uid.len_used)
            return out
    ArrayHolder.__name__ = f'ArrayHolder_{base_name}'
    return ArrayHolder(name=h.get('name', f'holder{i}'), **base_kw)



def time_kw(t):
    """ own-timeline arguments of a module: dt, start, stop (absent = the sim's timeline) """
    return {k: t[k] for k in ('dt', 'start', 'stop', 'unit') if t and t.get(k) is not None}


def build_modset(cfg):
    import starsim as ss
    dem = []
    for d in cfg.get('demographics', []):
        kw = time_kw(d.get('time'))
        if d['type'] == 'births': dem.append(ss.Births(birth_rate=d.get('birth_rate', 60), **kw))
        elif d['type'] == 'deaths': dem.append(ss.Deaths(death_rate=d.get('death_rate', 80), name=d.get('name', 'deaths'), **kw))
        else: raise HarnessError(d)
    dis = []
    for d in cfg.get('diseases', []):
        kw = time_kw(d.get('time'))
        if d['type'] == 'sir': dis.append(ss.SIR(beta=0.3, init_prev=0.4, dur_inf=2, p_death=d.get('p_death', 0.5), name=d.get('name', 'sir'), **kw))
        elif d['type'] == 'sis': dis.append(ss.SIS(beta=0.3, init_prev=0.3, name=d.get('name', 'sis'), **kw))
        else: raise HarnessError(d)
    nets = [ss.RandomNet(n_contacts=4) for nd in cfg.get('networks', []) if nd['type'] == 'random']
    intvs = []; conns = []; anas = []
    for i, r in enumerate(cfg.get('requesters', [])):
        every, off = int(r.get('every', 20)), int(r.get('offset', 0))
        form = r.get('form', 'uids'); upto = r.get('upto')
        if r['kind'] == 'intervention':
            class Cull(ss.Intervention):
                """ a programme that removes every k-th active agent each time it runs """
                def __init__(self, every, off, form, **kw):
                    super().__init__(**kw); self.every = every; self.off = off; self.form = form; self.upto = upto
                    if form == 'mask': self.define_states(ss.BoolArr('marked', default=False))
                def step(self):
                    p = self.sim.people
                    ask(p, p.auids[self.off::self.every][:self.upto], self.form, getattr(self, 'marked', None))
            intvs.append(Cull(every, off, form, name=f'cull{i}', **time_kw(r.get('time'))))
        elif r['kind'] == 'function':
            def mk(every, off, form, upto):
                def cull_func(sim):
                    ask(sim.people, sim.people.auids[off::every][:upto], form if form != 'mask' else 'uids')
                cull_func.__name__ = f'cullfunc{i}'
                return cull_func
            intvs.append(mk(every, off, form, upto))
        elif r['kind'] == 'connector':
            class CullConn(ss.Connector):
                def __init__(self, every, off, form, **kw):
                    super().__init__(**kw); self.every = every; self.off = off; self.form = form; self.upto = upto
                    if form == 'mask': self.define_states(ss.BoolArr('marked', default=False))
                def step(self):
                    p = self.sim.people
                    ask(p, p.auids[self.off::self.every][:self.upto], self.form, getattr(self, 'marked', None))
            conns.append(CullConn(every, off, form, name=f'cullconn{i}', **time_kw(r.get('time'))))
        else: raise HarnessError(r)
    for i, h in enumerate(cfg.get('holders', [])):
        m = make_holder(h, i)
        dict(demographics=dem, intervention=intvs, connector=conns, analyzer=anas, network=nets, disease=dis)[h['kind']].append(m)
    pars = dict(n_agents=cfg['n_agents'], rand_seed=cfg.get('rand_seed', 1), verbose=0, unit=cfg.get('unit', 'year'), dt=cfg.get('dt', 1.0),
                start=cfg.get('start', 2000), dur=cfg.get('dur', 8))
    for k in ('pop_scale', 'total_pop'):
        if cfg.get(k) is not None: pars[k] = cfg[k]
    if dem: pars['demographics'] = dem
    if dis: pars['diseases'] = dis
    if nets: pars['networks'] = nets
    if intvs: pars['interventions'] = intvs
    if conns: pars['connectors'] = conns
    if anas: pars['analyzers'] = anas
    return ss.Sim(**pars)


def modset(why, **kw):
    return (why, dict(dict(modset=True, n_agents=60, rand_seed=11, unit='year', dt=1.0, start=2000, dur=8, demographics=[], diseases=[], networks=[], requesters=[]), **kw), None)


# the grid every run executes: module sets x who asks x whose clock
MODSET_FIXED = [
    modset('deaths requested by an intervention in a sim with no demographics and no disease module', requesters=[dict(kind='intervention', every=12)]),
    modset('deaths requested by a plain-function intervention and by a connector; network but no demographics / diseases',
           networks=[dict(type='random')], requesters=[dict(kind='function', every=15, offset=1), dict(kind='connector', every=20, offset=2)]),
    modset('a connector asks; the only other modules never kill (Births, SIS)', demographics=[dict(type='births', birth_rate=80)], diseases=[dict(type='sis')],
           networks=[dict(type='random')], requesters=[dict(kind='connector', every=10)]),
    modset('Deaths on a finer clock than the sim (module ti runs ahead of sim.ti)', dur=10, demographics=[dict(type='births', birth_rate=60), dict(type='deaths', death_rate=120, time=dict(dt=0.5))]),
    modset('Deaths on a coarser clock than the sim (module ti lags sim.ti) next to a disease that kills', dt=0.25, dur=5, networks=[dict(type='random')],
           diseases=[dict(type='sir', p_death=0.5)], demographics=[dict(type='deaths', death_rate=200, time=dict(dt=1.0))]),
    modset('Deaths that starts later and stops earlier than the sim; an intervention that starts later', dur=12,
           demographics=[dict(type='deaths', death_rate=150, time=dict(start=2004, stop=2009))], requesters=[dict(kind='intervention', every=15, time=dict(start=2003))]),
    modset('requesters on their own finer / coarser clocks, Births on a finer clock', dur=8, demographics=[dict(type='births', birth_rate=80, time=dict(dt=0.5))],
           requesters=[dict(kind='intervention', every=14, time=dict(dt=0.5)), dict(kind='connector', every=18, offset=3, time=dict(dt=2.0))]),
    modset('the sim stands for 2.5 people per agent: the finalised series are in people and must still balance', pop_scale=2.5, dur=8, networks=[dict(type='random')],
           diseases=[dict(type='sir', p_death=0.5)], demographics=[dict(type='births', birth_rate=80), dict(type='deaths', death_rate=150)], requesters=[dict(kind='intervention', every=15)]),
    modset('total_pop that is not a multiple of n_agents (non-dyadic factor), deaths requested by a connector only', total_pop=617, dur=8,
           demographics=[dict(type='births', birth_rate=60)], requesters=[dict(kind='connector', every=9)]),
    # round 5: every kind of module holds its own per-agent arrays; state names collide inside a module, across modules and with the built-in states
    modset('array-holding modules of every kind (demographics, intervention, connector, analyzer, network): several arrays per module, state names colliding '
           'within the module and across modules, under regrowth (Births) and mass removal (Deaths + a culling intervention)', dur=8, n_agents=40,
           demographics=[dict(type='births', birth_rate=300), dict(type='deaths', death_rate=150)], networks=[dict(type='random')], requesters=[dict(kind='intervention', every=7)],
           holders=[dict(kind='demographics', arrays=[['n_a', 'doses', 'float'], ['n_b', 'doses', 'float'], ['flag', 'flag', 'bool']]),
                    dict(kind='intervention', arrays=[['first', 'count', 'int'], ['second', 'count', 'int'], ['third', 'count', 'int']]),
                    dict(kind='connector', arrays=[['seen', 'flag', 'state'], ['x', 'doses', 'float']]),
                    dict(kind='analyzer', arrays=[['m_a', 'measure', 'float'], ['m_b', 'measure', 'float']]),
                    dict(kind='network', arrays=[['w_a', 'flag', 'bool'], ['w_b', 'doses', 'float'], ['w_c', 'weight', 'float']])]),
    modset('a disease subclass that adds arrays whose state names are those of built-in states of its base class (a second clock, a second flag), births + disease deaths',
           dur=8, n_agents=50, networks=[dict(type='random')], demographics=[dict(type='births', birth_rate=200)],
           holders=[dict(kind='disease', name='sir2clock', arrays=[['ti_recovered_lab', 'ti_recovered', 'float'], ['lab_flag', 'lab_flag', 'state'], ['ti_dead_lab', 'ti_dead', 'float'], ['ti_dead_lab2', 'ti_dead', 'float']])]),
    # round 5: the same agents named in every form a death request accepts, after agents with smaller identifiers have been removed
    modset('deaths requested agent by agent (python int, numpy integer), by a Boolean state and by an identifier array, by modules that name the same agents in different forms; '
           'earlier steps removed agents with smaller identifiers and Births keeps the identifier space growing', dur=8, n_agents=60,
           demographics=[dict(type='births', birth_rate=150)],
           requesters=[dict(kind='intervention', every=9, offset=0, form='uids'), dict(kind='intervention', every=9, offset=0, form='int', upto=2),
                       dict(kind='connector', every=5, offset=1, form='npint', upto=3), dict(kind='intervention', every=13, offset=4, form='mask'),
                       dict(kind='function', every=7, offset=3, form='int', upto=2)]),
]


def gen_modset_cfg(rng):
    dt = rng.choice([1.0, 0.5, 0.25])
    def own(p=0.5):
        if rng.random() > p: return None
        q = rng.random()
        if q < 0.35: return dict(dt=dt * rng.choice([0.5, 2.0, 4.0]))
        if q < 0.7: return dict(start=2000 + rng.choice([1, 2, 3]), stop=2000 + rng.choice([4, 5]))
        return dict(dt=dt * rng.choice([0.5, 2.0]), start=2000 + rng.choice([1, 2]))
    dem = []; dis = []
    if rng.random() < 0.4: dem.append(dict(type='births', birth_rate=rng.choice([40, 120]), time=own(0.3)))
    if rng.random() < 0.5: dem.append(dict(type='deaths', death_rate=rng.choice([80, 200, 400]), time=own(0.8)))
    if rng.random() < 0.4: dis.append(rng.choice([dict(type='sir', p_death=rng.choice([0.3, 0.8])), dict(type='sis')]))
    nets = [dict(type='random')] if (dis or rng.random() < 0.3) else []
    reqs = [dict(kind=rng.choice(REQUESTER_KINDS), every=rng.choice([8, 12, 20]), offset=rng.randint(0, 3), time=None, form=rng.choice(REQUEST_FORMS)) for _ in range(rng.choice([0, 1, 1, 2, 3]))]
    for r in reqs:
        if r['kind'] != 'function': r['time'] = own(0.3)
        if r['form'] in ('int', 'npint'): r['upto'] = rng.choice([2, 4, None])
    if not reqs and not any(d['type'] == 'deaths' for d in dem) and not any(d['type'] == 'sir' for d in dis):
        reqs = [dict(kind=rng.choice(REQUESTER_KINDS), every=10, offset=0, time=None)]
    cfg = dict(modset=True, n_agents=rng.choice([40, 70]), rand_seed=rng.randint(1, 99), unit='year', dt=dt, start=2000, dur=rng.choice([6, 8]),
               demographics=dem, diseases=dis, networks=nets, requesters=reqs)
    if rng.random() < 0.5:
        # array-holding modules: 1-3 holders of any kind, 2-4 arrays each, state names drawn from a small pool (so they collide)
        pool = ['doses', 'count', 'flag', 'ti_dead', 'alive', 'age', 'weight']
        hs = []
        for _ in range(rng.randint(1, 3)):
            kind = rng.choice(['demographics', 'intervention', 'connector', 'analyzer', 'network', 'disease'])
            hs.append(dict(kind=kind, arrays=[[f'a{j}', rng.choice(pool + (['infected', 'ti_recovered'] if kind == 'disease' else [])), rng.choice(TYPES)] for j in range(rng.randint(2, 4))]))
        if any(h['kind'] == 'disease' for h in hs) and not nets: cfg['networks'] = [dict(type='random')]
        for j, h in enumerate(hs):
            h['name'] = f"holder{j}{h['kind'][:3]}"
            if h['kind'] == 'disease':      # a disease defines one result per Boolean state name: a second Boolean state of the same name is a rejected input
                h['arrays'] = [[a, f'hflag{k}' if t in ('bool', 'state') else (nm if nm not in ('alive', 'flag', 'infected') else 'ti_infected'), t] for k, (a, nm, t) in enumerate(h['arrays'])]
            if h['kind'] == 'network':      # notes/C10.md round 5, open observation: the built-in networks' init_post does not go through Module.init_post; keep the state names of ONE network distinct (they still collide across modules)
                h['arrays'] = [[a, nm if nm not in [x[1] for x in h['arrays'][:k]] else f'{nm}{k}', t] for k, (a, nm, t) in enumerate(h['arrays'])]
        cfg['holders'] = hs
    scale_kw(rng, cfg)
    return cfg


# ---------------------------------------------------------------------------
# the loop plan of a real sim against the regenerated plan table instantiated by the model

def plan_guards(rows):
    out = []
    for r in rows:
        if r[2] and r[2] not in out: out.append(r[2])
    return out


def plan_line(sim, rows):
    """ the truth value of every guard that does not depend on the loop variable, for THIS sim (guards on the element are
        evaluated per element when the model's rows are instantiated) """
    import starsim as ss
    bits = []
    for g in plan_guards(rows):
        if '_' in g.replace('__', ''): bits.append(1)
        else: bits.append(1 if eval(g, dict(ss=ss, sim=sim, len=len, isinstance=isinstance, np=np)) else 0)
    return 'plan ' + (','.join(map(str, bits)) or '-')


PLAN_METHODS = ('start_step', 'step_state', 'step', 'step_die', 'update_results', 'finish_step')


def real_plan(sim):
    """ (owner, method) of every function the real loop schedules; the method is found on the owner (a plain-function
        intervention is scheduled under the function's own name) """
    out = []
    for r in sim.loop.funcs:
        f = r['func']; parent = getattr(f, '__self__', None)
        meth = next((a for a in PLAN_METHODS if parent is not None and getattr(parent, a, None) == f), r['func_name'])
        out.append(f"{r['module']}.{meth}")
    return out


def instantiate_plan(sim, model_rows, rows):
    """ the model's scheduled rows (container/method) instantiated with the modules of this sim """
    import starsim as ss
    guard = {(r[0], r[1]): r[2] for r in rows}
    out = []
    for item in model_rows:
        c, m = item.rsplit('/', 1)
        if c == 'sim': out.append(f'sim.{m}')
        elif c == 'sim.people': out.append(f'people.{m}')
        else:
            mods = list(eval(c, dict(sim=sim)))
            g = guard.get((c, m), '')
            for mod in mods:
                if g and '_' in g.replace('__', '') and not eval(g, dict(ss=ss, sim=sim, _=mod, len=len, isinstance=isinstance)): continue
                out.append(f'{mod.name}.{m}')
    return out


# ---------------------------------------------------------------------------

def correspond(ctx):
    facts = (ctx.extracted.get('ArrConsts') or {}).get('facts') or {}
    nseq = ctx.budget(100, 800)
    all_lines = []; per = []
    for k in range(nseq):
        try:
            case, lines, log, w = run_sequence(ctx.rng, 40, structured=(k % 2 == 0))
        except Exception as e:
            import traceback
            ctx.broke('correspondence', 'C10.opseq', f'implementation harness raised {type(e).__name__}: {e}\n{traceback.format_exc()[-1200:]}')
            continue
        per.append(('seq', case, lines, log, len(all_lines))); all_lines += lines
    nsim = ctx.budget(8, 60)
    plan_rows = ((ctx.extracted.get('PeoplePlan') or {}).get('facts') or {}).get('rows')
    sims = [(cfg, fixed_extra(tag)) for _, cfg, tag in FIXED_SIMS + MODSET_FIXED]
    sims += [(gen_sim_cfg(ctx.rng, k), None) for k in range(nsim)]
    sims += [(gen_modset_cfg(ctx.rng), None) for k in range(ctx.budget(6, 40))]
    # the shared scenario zoo: the model follows the recorded People calls of every entry, whatever its modules / units / timelines
    from harness import zoo
    nown = len(sims)
    sims += [(cfg, None) for name, cfg in zoo.configs()]
    zoo_name = {id(cfg): name for (cfg, _), (name, _) in zip(sims[nown:], zoo.configs())}
    for cfg, extra in sims:
        zn = zoo_name.get(id(cfg))
        try:
            rec = record_sim(cfg, extra)
            if zn: ctx.count('zoo_corr_runs')
        except Exception as e:
            import traceback
            if zn:        # a zoo entry the harness cannot record is a harness problem, not a broken tie
                ctx.count('zoo_exceptions'); ctx.notes['last_zoo_exception'] = f'{zn} (correspondence): {type(e).__name__}: {e}'; continue
            ctx.broke('correspondence', 'C10.sim', f'recording a generated sim raised {type(e).__name__}: {e}\n{traceback.format_exc()[-1200:]}', data=cfg)
            continue
        lines, obs = sim_lines(rec)
        if zn: cfg = dict(cfg, _zoo=zn)
        per.append(('sim', cfg, lines, obs, len(all_lines))); all_lines += lines
        if plan_rows:
            try:
                per.append(('plan', cfg, [plan_line(rec['sim'], plan_rows)], rec['sim'], len(all_lines))); all_lines += per[-1][2]
            except Exception as e:
                ctx.broke('correspondence', 'C10.plan', f'a guard of the regenerated loop plan could not be evaluated on a real sim: {type(e).__name__}: {e}', data=dict(kind='sim', cfg=cfg))
    out = ctx.drive(DRIVER, all_lines)
    nbroken = 0
    for kind, case, lines, log, off in per:
        ml = out[off:off + len(lines)]
        div = None; at = None
        if kind == 'plan':
            ctx.count('plan_checks')
            m = parse_model(ml[0])
            if m['st'] != 'ok':
                d = f'model answered {ml[0][:80]}'
            else:
                want = instantiate_plan(log, lst(m['rows']), plan_rows); got = real_plan(log)
                d = None if want == got else f"the loop plan of the real sim differs from the regenerated plan table instantiated for its modules: real={got} model={want}"
            if d is not None and nbroken < 3:
                nbroken += 1
                ctx.broke('correspondence', 'C10.plan', (f"[zoo:{case['_zoo']}] " if case.get('_zoo') else '') + d, data=dict(kind='sim', cfg=case))
            continue
        for j, item in enumerate(log):
            obs = item[1] if kind == 'seq' else item
            d = compare(obs, ml[j], sim_mode=(kind == 'sim'))
            ctx.count(f'{kind}_op_' + lines[j].split()[0])
            if d is not None:
                div = d; at = j; break
        if kind == 'seq':
            ks = [op[0] for op, _ in log[1:]]
            ctx.case(tuple(lines), 'grow' in ks and ('removedead' in ks or 'finish' in ks), sample=dict(kind='op-sequence', n0=case['n0'], ops=lines[:12]))
        else:
            ctx.case(('sim', repr(case)), True, sample=dict(kind='sim-history', cfg=case, calls=len(lines)))
        if div is not None and nbroken < 3:
            nbroken += 1
            data = dict(kind='opseq', case=dict(case, ops=case['ops'][:at])) if kind == 'seq' else dict(kind='sim', cfg=case)
            ztag = f"[zoo:{case['_zoo']}] " if kind == 'sim' and case.get('_zoo') else ''
            ctx.broke('correspondence', f'C10.{kind}', f"{ztag}real People diverges from Model/People.lean at call {at} `{lines[at]}`: {div}", data=data)
    ctx.notes['sim_families'] = [f"{'+'.join(f['demographics'])}|{'+'.join(f['diseases'])}" for f in SIM_FAMILIES]


# ---------------------------------------------------------------------------
# oracle: invariants on the real objects

class Tracker:
    """ Follows one population through recorded calls and checks the property's invariants (no model). """
    def __init__(self, start):
        self.prev = start
        self.ever_dead = set(u for u in range(start['n']) if start['alive'][1][u] == 'F')
        self.removed = set(range(start['n'])) - set(start['au'])
        self.created = 0; self.died = 0
        self.last_nalive = None
        self.requests_pre = {}     # ti -> uids requested before death resolution of that step
        self.requests_post = {}    # ti -> uids requested after it
        self.late_pending = set()
        self.late_site = {}        # uid -> (requesting site, 'prenatal' | 'born') of a request made after death resolution
        self.fails = []
        self.flow = {}             # ti -> (agents created, agents that died) between the recordings of step ti-1 and ti, counted on the arrays
        self.loop_order = True     # the calls come in the order of the simulation loop (sims, structured sequences)
        self.step_calls = []       # People phases seen since the last finish_step
        self.requested_ever = set()  # every identifier named in a recorded death request so far
        self.forms = {}            # form of the key of every recorded request (uids / int / int64 / BoolArr ...)
        self.check_unrequested = True

    def bad(self, oracle, what, **sig):
        self.fails.append((dict(oracle=oracle, **sig), what))

    def structural(self, o, where):
        n = o['n']
        if o['uid'][1][:n] != [str(i) for i in range(n)]:
            self.bad('dense-ids', f'{where}: uid storage {o["uid"][1][:n][:12]} is not 0..{n - 1}')
        if n < self.prev['n']:
            self.bad('dense-ids', f'{where}: the uid space shrank from {self.prev["n"]} to {n}')
        for nm in ('uid', 'slot', 'parent', 'alive', 'tidead'):
            lu, lt = map(int, o[nm][0].split(':'))
            if lu != n or lt < lu or lt != len(o[nm][1]):
                self.bad('aligned', f'{where}: people.{nm} has len_used={lu} len_tot={lt} len(raw)={len(o[nm][1])} but the uid space has {n} ids', array=f'people.{nm}')
        for i, (s, rl) in enumerate(zip(o['states'], o['rawlens'])):
            lu, lt = map(int, s.split(':'))
            if lu != n or lt < lu or lt != rl:
                self.bad('aligned', f'{where}: registered state #{i} has len_used={lu} len_tot={lt} len(raw)={rl} but the uid space has {n} ids', array='registered-state')
        # every array any module holds (found on the objects, not in the registry) belongs to this population and is aligned with it
        for h in o.get('held', []):
            lu, lt = map(int, h['lens'].split(':'))
            if not h['linked'] or not h['registered']:
                self.bad('aligned', f"{where}: the array {h['who']} (state name `{h['name']}`) is held by a module of the sim but is "
                         f"{'not linked to the People of the sim' if not h['linked'] else 'not in the growth registry of People'} (len_used={lu}, len(raw)={h['rawlen']}, uid space {n})", array='module-held', owner=h['owner'])
            elif lu != n or lt < lu or lt != h['rawlen']:
                sig = dict(array='module-held', owner=h['owner'])
                if lu == 0 and h['rawlen'] == 0 and h['twin']: sig['cause'] = 'never-initialised-name-twin'      # registered and linked, but never allocated: its module holds another array with the same state name
                self.bad('aligned', f"{where}: the array {h['who']} (state name `{h['name']}`) has len_used={lu} len_tot={lt} len(raw)={h['rawlen']} but the uid space has {n} ids"
                         + (' (registered, never initialised; the module holds another array with the same state name)' if 'cause' in sig else ''), **sig)
            if 'vals' in h:
                t, j = h['probe']
                off = next((u for u, x in enumerate(h['vals'][:n]) if x not in (HOLDER_DEFAULT[t], holder_tag(t, j, u))), None)
                if off is not None:
                    self.bad('values-preserved', f"{where}: {h['who']}[{off}] = {h['vals'][off]}: neither the default {HOLDER_DEFAULT[t]} nor the value {holder_tag(t, j, off)} its module wrote for agent {off}", array='module-held')
        au = o['au']
        if len(set(au)) != len(au): self.bad('active', f'{where}: auids has duplicates')
        if any(u >= n or u < 0 for u in au): self.bad('active', f'{where}: auids contains an id outside [0,{n})')
        back = self.removed & set(au)
        if back: self.bad('permanent', f'{where}: removed agents {sorted(back)[:5]} are active again')
        alive = o['alive'][1]
        rev = [u for u in self.ever_dead if u < len(alive) and alive[u] == 'T']
        if rev: self.bad('permanent', f'{where}: dead agents {rev[:5]} are alive again')
        for u in range(min(n, len(alive))):
            if alive[u] == 'F': self.ever_dead.add(u)

    def call(self, e):
        o = e['obs']; op = e['op']; ti = e['ti']
        where = f"after {op} at ti={ti}"
        self.structural(o, where)
        prev = self.prev
        if op == 'grow':
            k = e['k']
            if e['new'] != list(range(prev['n'], prev['n'] + k)): self.bad('dense-ids', f'{where}: grow({k}) returned {e["new"][:8]}, expected {prev["n"]}..{prev["n"] + k - 1}')
            if o['n'] != prev['n'] + k: self.bad('dense-ids', f'{where}: uid space {prev["n"]} -> {o["n"]} after grow({k})')
            if o['au'] != prev['au'] + list(range(prev['n'], prev['n'] + k)): self.bad('active', f'{where}: new agents were not appended to auids', site='People.grow')
            for nm in ('alive', 'tidead', 'parent'):
                before = (e.get('pre_vals') or {}).get(nm, prev[nm][1])
                if o[nm][1][:prev['n']] != before[:prev['n']]: self.bad('values-preserved', f'{where}: grow changed existing values of people.{nm}', array=nm)
            pre_held = (e.get('pre_vals') or {}).get('held') or {h['who']: h['vals'] for h in prev.get('held', []) if 'vals' in h}
            for h in o.get('held', []):
                if 'vals' in h and h['who'] in pre_held:
                    if h['vals'][:prev['n']] != pre_held[h['who']][:prev['n']]:
                        self.bad('values-preserved', f"{where}: grow changed existing values of {h['who']}", array='module-held')
                    if any(x != HOLDER_DEFAULT[h['probe'][0]] for x in h['vals'][prev['n']:o['n']]):
                        self.bad('new-agent-defaults', f"{where}: new agents start with {h['vals'][prev['n']:o['n']][:6]} in {h['who']} instead of the default", array='module-held')
            if any(x != 'T' for x in o['alive'][1][prev['n']:o['n']]): self.bad('values-preserved', f'{where}: new agents are not alive')
            if any(x != 'nan' for x in o['tidead'][1][prev['n']:o['n']]):
                self.bad('new-agent-defaults', f"{where}: new agents {list(range(prev['n'], o['n']))[:6]} already carry a death stamp {o['tidead'][1][prev['n']:o['n']][:6]} (ti_dead must start unset)", array='ti_dead')
            if any(x != '-1' for x in o['parent'][1][prev['n']:o['n']]):
                self.bad('new-agent-defaults', f"{where}: new agents start with parent {o['parent'][1][prev['n']:o['n']][:6]} instead of -1", array='parent')
            self.created += k
        elif op == 'request_death':
            (self.requests_pre if e['phase'] == 'pre' else self.requests_post).setdefault(ti, set()).update(e['uids'])
            self.requested_ever.update(e['uids']); self.forms[e.get('form', '?')] = self.forms.get(e.get('form', '?'), 0) + 1
            if e['phase'] == 'post':
                for j, u in enumerate(e['uids']):
                    if u in set(o['au']) and o['alive'][1][u] == 'T':
                        self.late_pending.add(u)
                        self.late_site[u] = (e.get('site', '?'), 'prenatal' if (e.get('prenatal') or [False] * len(e['uids']))[j] else 'born')
        elif op == 'step_die':
            if e['revived']: self.bad('permanent', f'{where}: step_die revived {e["revived"][:5]}')
            flipped = set(e['flipped'])
            self.step_calls.append('step_die')
            # observed state, not recorded calls: whoever carries a death stamp when death resolution starts has been asked to die
            surv = [(u, t) for u, t in e.get('pre_stamped', []) if u not in flipped]
            if surv:
                self.bad('death-timing', f"{where}: {len(surv)} living active agent(s) carry a death stamp when death resolution runs and survive it, e.g. agent {surv[0][0]} with ti_dead={surv[0][1]:g} at sim.ti={ti}"
                         f" ({'a stamp in the future of the sim clock' if surv[0][1] > ti else 'a due stamp'})", cause='stamp-survives-resolution')
            if len(e['died']) != len(set(e['died'])): self.bad('multi-request', f'{where}: step_die lists an agent twice')
            pre = set(u for u in self.requests_pre.get(ti, ()) if u in set(prev['au']) and prev['alive'][1][u] == 'T')
            if not pre <= flipped: self.bad('death-timing', f'{where}: agents {sorted(pre - flipped)[:5]} requested before death resolution of this step are still alive')
            stray = sorted(flipped - self.requested_ever)
            if stray and self.check_unrequested:
                self.bad('death-timing', f"{where}: agents {stray[:6]} died although no death request ever named them (requests so far named {len(self.requested_ever)} agents; key forms {self.forms})", cause='unrequested')
            late = set(u for u in self.requests_post.get(ti - 1, ()) if u in set(prev['au']) and prev['alive'][1][u] == 'T')
            if not late <= flipped: self.bad('death-timing', f'{where}: agents {sorted(late - flipped)[:5]} requested after the previous death resolution are still alive')
            self.died_now = len(flipped); self.flipped_now = flipped; self.died += len(flipped)
            # every disease's death hook is called exactly once, for exactly the agents death resolution selected
            if 'hooks' in e:
                by = {}
                for name, _, us in e['hooks']: by.setdefault(name, []).append(us)
                if len(by) != e['n_diseases'] or any(len(v) != 1 for v in by.values()):
                    self.bad('disease-hook', f"{where}: disease.step_die was called {[(k, len(v)) for k, v in by.items()]} times for {e['n_diseases']} diseases", site='People.step_die')
                for name, calls in by.items():
                    if sorted(calls[0]) != sorted(e['died']) or not flipped <= set(calls[0]):
                        self.bad('disease-hook', f"{where}: {name}.step_die got {sorted(calls[0])[:8]} but the agents that die are {sorted(e['died'])[:8]}", site='People.step_die')
        elif op == 'update_results':
            self.step_calls.append('update_results')
            na = dict(o['nalive']).get(ti); nd = dict(o['newdeaths']).get(ti)
            alive_now = sum(1 for u in o['au'] if o['alive'][1][u] == 'T')
            if na != alive_now: self.bad('balance', f'{where}: n_alive[{ti}]={na} but {alive_now} active agents are alive')
            if self.last_nalive is not None:
                exp = self.last_nalive + self.created - self.died
                if na != exp: self.bad('balance', f'{where}: n_alive[{ti}]={na} != previous {self.last_nalive} + created {self.created} - died {self.died}')
            died_now = getattr(self, 'died_now', 0)
            if nd != died_now:
                fl = getattr(self, 'flipped_now', set())
                # agents that died in this step but whose stamp is not this step: are they all late requests?
                unrec = set(u for u in fl if o['tidead'][1][u] != str(ti))
                latecause = bool(unrec) and unrec <= self.late_pending and nd == died_now - len(unrec)
                sites = sorted({self.late_site.get(u, ('?', '?')) for u in unrec}) if latecause else []
                sig = dict(cause='request-after-resolution' if latecause else 'other')
                if latecause:
                    sig['site'] = sites[0][0] if len({x[0] for x in sites}) == 1 else 'several'
                    sig['subject'] = sites[0][1] if len({x[1] for x in sites}) == 1 else 'mixed'
                self.bad('death-flow', f'{where}: new_deaths[{ti}]={nd} but {died_now} agents died in this step' +
                         (f' ({len(unrec)} of them were requested after the death-resolution phase of step {ti - 1} by {sites} and stamped {ti - 1})' if latecause else ''),
                         **sig)
            self.late_pending -= getattr(self, 'flipped_now', set())
            self.flow[ti] = (self.created, self.died)
            self.last_nalive = na; self.created = 0; self.died = 0; self.died_now = 0; self.flipped_now = set()
        elif op == 'finish_step':
            if self.loop_order:
                # every step has exactly one death-resolution phase followed by one recording of the results, whatever the module set
                if self.step_calls != ['step_die', 'update_results']:
                    self.bad('loop-phases', f"{where}: the People phases of this step were {self.step_calls or 'none'}, expected step_die then update_results", got='+'.join(self.step_calls) or 'none')
                # nobody asked to die before death resolution is still alive at the end of the step
                late = self.requests_post.get(ti, set())
                left = [(u, t) for u, t in e.get('pre_stamped', []) if u not in late]
                if left:
                    self.bad('death-timing', f"{where}: {len(left)} living active agent(s) whose death was requested before (or without) the death-resolution phase of this step are still alive at the end of the step, "
                             f"e.g. agent {left[0][0]} with ti_dead={left[0][1]:g}", cause='unresolved-at-step-end')
            self.step_calls = []
            alive = o['alive'][1]
            want = [u for u in prev['au'] if alive[u] == 'T']
            if o['au'] != want: self.bad('active', f'{where}: auids after removal {o["au"][:10]}… is not the living active agents {want[:10]}…', site='People.remove_dead')
            gone = set(prev['au']) - set(o['au'])
            self.removed |= gone
            act = set(o['au'])
            for key, us in (e.get('routes') or {}).items():
                stray = [u for u in us if u not in act]
                if stray:
                    self.bad('route-cleanup', f"{where}: transmission route `{key}` still refers to agents {stray[:8]} that are no longer active", site='People.remove_dead')
            if gone and 'route_calls' in e:
                called = {k for k, _, us in e['route_calls'] if gone <= set(us)}
                missing = [k for k in (e.get('routes') or {}) if k not in called]
                if missing:
                    self.bad('route-cleanup', f"{where}: remove_uids was not called with the removed agents for the routes {missing}", site='People.remove_dead')
        self.prev = o


def oracle_sim(cfg, extra_module=None):
    rec = record_sim(cfg, extra_module, catch=True)
    tr = Tracker(rec['start'])
    tr.structural(rec['start'], 'after Sim.init')
    for e in rec['hist']:
        tr.call(e)
        if len(tr.fails) > 12: break
    tr.fails += finalize_fails(rec, tr)
    if rec.get('error'): tr.bad('raises', f"the sim raised {rec['error']}", op='sim.run')
    # end-of-run cross-check against the published results
    sim = rec['sim']
    dead_total = int(np.count_nonzero(~np.asarray(sim.people.alive.raw[:sim.people.uid.len_used]))) - sum(1 for x in rec['start']['alive'][1][:rec['start']['n']] if x == 'F')
    return tr.fails, dict(dead=dead_total, recorded=int(np.sum(sim.results.new_deaths.values if hasattr(sim.results.new_deaths, 'values') else sim.results.new_deaths)))


OPMAP = dict(grow='grow', request='request_death', stepdie='step_die', results='update_results', finish='finish_step', copy='copy', age='update_post')


def oracle_opseq(case):
    """ the same invariants on a stored operation sequence (removedead / register are checked structurally) """
    w = RealPeople(case)
    tr = Tracker(observe(w.p, w.sim, []))
    phase = 'pre'
    structured = bool(case.get('structured'))
    tr.loop_order = structured
    for op in case['ops']:
        ti = int(w.sim.t.ti)
        pre_alive = np.asarray(w.p.alive.raw[:w.p.uid.len_used]).copy()
        n_before = int(w.p.uid.len_used)
        pre_stamped = stamped_living(w.p)
        obs = w.exec(op)
        o = obs['obs']
        if obs['st'] != 'ok':
            if op[0] == 'register':
                continue      # refused registration (IndexError): nothing was registered
            tr.bad('raises', f"People.{OPMAP.get(op[0], op[0])} raised {obs['st']} {obs.get('msg')}", op=op[0]); break
        if op[0] == 'register':
            lu, lt = map(int, o['states'][-1].split(':'))
            if lu != o['n']:
                tr.bad('late-registration', f"a state registered when {len(o['au'])} of {o['n']} agents are active has len_used={lu}, len_tot={lt}: it is sized by the active agents, not by the uid space", site='Arr.init_vals')
                break
            tr.prev = o; continue
        if op[0] == 'copy':
            # a pickled / deep-copied sim must carry exactly the same population
            keys = ('n', 'ti', 'au', 'uid', 'slot', 'parent', 'alive', 'tidead', 'states')
            diff = [k for k in keys if o[k] != tr.prev[k]]
            if diff: tr.bad('copy', f"after a {op[1]} round-trip of the sim the population differs in {diff}: e.g. {str(tr.prev[diff[0]])[:80]} -> {str(o[diff[0]])[:80]}", how=op[1])
            tr.prev = o; continue
        if op[0] == 'age':
            from harness.props.c11 import num_of
            act_alive = set(u for u in o['au'] if o['alive'][1][u] == 'T')
            dt = num_of(obs['dt'])
            for u, (a, b) in enumerate(zip(obs['age_before'], obs['age_after'])):
                x, y = num_of(a), num_of(b)
                want = (x + dt) if (u in act_alive and x is not None) else x
                if (want is None) != (y is None) or (want is not None and abs(want - y) > max(abs(want), 1) / 2 ** 20):
                    tr.bad('ageing', f"update_post: agent {u} ({'living, active' if u in act_alive else 'dead / removed / spare'}) went from age {a} to {b}, expected {want}")
                    break
            tr.prev = o; continue
        if op[0] == 'removedead':
            tr.structural(o, 'after remove_dead')
            want = [u for u in tr.prev['au'] if o['alive'][1][u] == 'T']
            if o['au'] != want: tr.bad('active', f'after remove_dead: auids {o["au"][:10]} is not the living active agents {want[:10]}', site='People.remove_dead')
            tr.removed |= set(tr.prev['au']) - set(o['au']); tr.prev = o; continue
        e = dict(op=OPMAP[op[0]], ti=ti, phase=phase, obs=o)
        if op[0] in ('stepdie', 'finish'): e['pre_stamped'] = pre_stamped
        if op[0] == 'grow':
            e['k'] = op[1] if (op[2] is None or op[3] == 'both') else len(op[2]); e['new'] = obs.get('new', [])
        elif op[0] == 'request':
            e['uids'] = op[1]; e['site'] = 'synthetic'; e['prenatal'] = [False] * len(op[1])
        elif op[0] == 'stepdie':
            post = np.asarray(w.p.alive.raw[:n_before])
            e['died'] = obs['died']; e['flipped'] = [int(u) for u in np.nonzero(pre_alive & ~post)[0]]; e['revived'] = [int(u) for u in np.nonzero(~pre_alive & post)[0]]
            phase = 'post'
        elif op[0] == 'finish': phase = 'pre'
        # in free-form sequences results/step_die may be called several times per step: only structural + per-call checks apply
        if op[0] == 'results' and not structured:
            tr.structural(o, f'after update_results at ti={ti}')
            alive_now = sum(1 for u in o['au'] if o['alive'][1][u] == 'T')
            if dict(o['nalive']).get(ti) != alive_now: tr.bad('balance', f'n_alive[{ti}]={dict(o["nalive"]).get(ti)} but {alive_now} active agents are alive')
            tr.prev = o; continue
        tr.call(e)
    return tr.fails


def late_request_module():
    """ the three-line module of DESIGN section 6: a death requested from finish_step """
    import starsim as ss

    class LateKiller(ss.Intervention):
        _verif_synthetic = True
        def step(self): pass
        def finish_step(self):
            super().finish_step()
            if self.sim.ti == 3:
                self.sim.people.request_death(ss.uids([1, 2, 3]))
    return LateKiller()


def rerequester_module():
    """ keeps requesting the death of agents that were removed in earlier steps, and of some living ones (before death resolution) """
    import starsim as ss

    class ReRequester(ss.Intervention):
        def step(self):
            p = self.sim.people
            n = int(p.uid.len_used)
            gone = np.setdiff1d(np.arange(n), np.asarray(p.auids))
            us = list(gone[:5]) + list(np.asarray(p.auids)[:2])
            if len(us): p.request_death(ss.uids(np.array(us, dtype=np.int64)))
    return ReRequester()


def twin_killers():
    """ two modules asking for the same agents in the same step """
    import starsim as ss

    class KillerA(ss.Intervention):
        def step(self):
            p = self.sim.people
            p.request_death(ss.uids(np.asarray(p.auids)[3:9]))

    class KillerB(KillerA):
        pass
    return [KillerA, KillerB]


# sims that every run executes, whatever the seed: each names the clause of the property it is there for
FIXED_SIMS = [
    ('routes are cleaned up on removal (MixingPool with explicit uids + networks), disease death hooks',
     dict(custom=True, n_agents=80, rand_seed=3, dur=8, diseases=[dict(type='sir', p_death=0.6, init_prev=0.4)],
          networks=[dict(type='mixingpool'), dict(type='random'), dict(type='erdosrenyi')], demographics=[dict(type='deaths', death_rate=120)]), None),
    ('Births (regrowth across reallocation) + two Deaths modules + two diseases requesting the same agents',
     dict(custom=True, n_agents=60, rand_seed=5, dur=10, diseases=[dict(type='sir', p_death=0.8, init_prev=0.5, name='sir1'), dict(type='sir', p_death=0.8, init_prev=0.5, name='sir2')],
          networks=[dict(type='random')], demographics=[dict(type='births', birth_rate=120), dict(type='deaths', death_rate=150, name='deaths1'), dict(type='deaths', death_rate=150, name='deaths2')]), None),
    ('Pregnancy (drawn slots, maternal + neonatal death) with maternal / mf networks',
     dict(custom=True, n_agents=120, rand_seed=7, dur=10, diseases=[dict(type='sis')], networks=[dict(type='maternal'), dict(type='mf')],
          demographics=[dict(type='pregnancy', fertility_rate=600, p_maternal_death=0.5, p_neonatal_death=1.0), dict(type='deaths', death_rate=60)]), None),
    ('repeated requests for already removed agents; two modules requesting the same death in one step',
     dict(custom=True, n_agents=50, rand_seed=9, dur=8, diseases=[dict(type='sir', p_death=0.3)], networks=[dict(type='random')],
          demographics=[dict(type='deaths', death_rate=100)]), 'rerequest+twins'),
]


def fixed_extra(tag):
    if tag == 'rerequest+twins':
        a, b = twin_killers()
        return [rerequester_module, lambda: a(), lambda: b()]
    return None


def search(ctx):
    # generated demographic sims
    for k in range(ctx.budget(8, 60)):
        cfg = gen_sim_cfg(ctx.rng, k)
        try:
            fails, tot = oracle_sim(cfg)
        except Exception as e:
            ctx.fail(dict(oracle='raises', op='sim.run'), f'a generated demographic sim raised {type(e).__name__}: {e}', dict(kind='sim', cfg=cfg))
            continue
        ctx.count('oracle_sims'); ctx.count('oracle_sim_deaths', tot['dead'])
        for sig, what in fails:
            ctx.fail(sig, what, dict(kind='sim', cfg=cfg))
    # module-set sims: the empty module set, non-demographic requesters, modules on their own clocks
    for k in range(ctx.budget(8, 60)):
        cfg = gen_modset_cfg(ctx.rng)
        try:
            fails, tot = oracle_sim(cfg)
        except Exception as e:
            ctx.fail(dict(oracle='raises', op='sim.run'), f'a generated module-set sim raised {type(e).__name__}: {e}', dict(kind='sim', cfg=cfg))
            continue
        ctx.count('oracle_modset_sims'); ctx.count('oracle_sim_deaths', tot['dead'])
        if tot['dead'] == 0: ctx.count('oracle_modset_sims_without_deaths')
        for sig, what in fails:
            ctx.fail(sig, what, dict(kind='sim', cfg=cfg))
    for why, cfg, tag in FIXED_SIMS + MODSET_FIXED:
        try:
            fails, tot = oracle_sim(cfg, fixed_extra(tag))
        except Exception as e:
            import traceback
            ctx.fail(dict(oracle='raises', op='sim.run'), f'the fixed scenario sim [{why}] raised {type(e).__name__}: {e} {traceback.format_exc()[-300:]}', dict(kind='fixed-sim', cfg=cfg, tag=tag))
            continue
        ctx.count('oracle_fixed_sims'); ctx.count('oracle_sim_deaths', tot['dead'])
        if cfg.get('modset') and tot['dead'] == 0:
            ctx.fail(dict(oracle='scenario-vacuous', op='sim.run'), f'the fixed scenario sim [{why}] is there to have deaths requested and carried out, but nobody died in it', dict(kind='fixed-sim', cfg=cfg, tag=tag))
        for sig, what in fails:
            ctx.fail(sig, what, dict(kind='fixed-sim', cfg=cfg, tag=tag))
    search_zoo(ctx)
    # operation sequences
    for k in range(ctx.budget(40, 300)):
        try:
            case, lines, log, w = run_sequence(ctx.rng, 40, structured=(k % 2 == 0))
        except Exception as e:
            ctx.fail(dict(oracle='raises', op='init'), f'a minimal sim could not be initialised: {type(e).__name__}: {e}', dict(kind='none'))
            continue
        ctx.count('oracle_sequences')
        for sig, what in oracle_opseq(case):
            ctx.fail(sig, what, dict(kind='opseq', case=case))
    # stored witnesses of the known findings
    for kf in ctx.known:
        if kf.get('replay'):
            for sig, what in replay_fails(kf['replay']):
                ctx.fail(sig, what, kf['replay'])


def search_zoo(ctx):
    """ every sim-level oracle of the Tracker (dense ids, alignment of every array and registered state, active = not died,
        permanence, death timing incl. the stamp oracles, loop phases, per-step balance and flow, route clean-up, disease
        death hooks) over every entry of the shared scenario zoo, on every run """
    from harness import zoo
    for name, cfg in zoo.configs():
        try:
            fails, tot = oracle_sim(cfg)
        except Exception as e:
            ctx.count('zoo_exceptions'); ctx.notes['last_zoo_exception'] = f'{name}: {type(e).__name__}: {e}'; continue
        ctx.count('zoo_runs'); ctx.count('zoo_deaths', tot['dead'])
        for sig, what in fails:
            ctx.fail(sig, f'[zoo:{name}] ' + what, dict(kind='sim', cfg=cfg))


def replay_fails(data):
    if data.get('kind') == 'sim':
        return oracle_sim(data['cfg'])[0]
    if data.get('kind') == 'fixed-sim':
        return oracle_sim(data['cfg'], fixed_extra(data.get('tag')))[0]
    if data.get('kind') == 'late-module':
        return oracle_sim(data['cfg'], late_request_module)[0]
    if data.get('kind') == 'opseq':
        return oracle_opseq(data['case'])
    return []


def replay(ctx, data):
    from harness.framework import sig_match
    fails = replay_fails(data)
    new = [(s, w) for s, w in fails if not any(k['kind'] == 'finding' and sig_match(k['signature'], s) for k in ctx.known)]
    for sig, what in fails[:8]:
        print('  [known finding]' if (sig, what) not in new else '  [violation]', sig, what)
    is_known_witness = any(k.get('replay') == data for k in ctx.known)
    return bool(new) or (is_known_witness and bool(fails))
