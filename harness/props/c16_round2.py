"""
C16 round 2: always-exercised scenario families (fixed, next to the random ones) and re-derived oracles.

families (each is BOTH compared with the model in correspond() and checked against an independent reference in search()):
  * nearest year: annual table with a sub-annual dt, and a table every 5 years, evaluated at several time indices
    (Deaths table and Births year-series);
  * fertility table form (yearly interpolated table, `now - dur_pregnancy` shift, age bins, infecund re-scaling);
  * RoutineDelivery with a list of years and probabilities (interpolated path) as well as a single probability;
  * disease / network modules ON THEIR OWN (unit, dt): every TimePar found in their parameters (dur, rate, beta, incl. the
    first parameter of wrapped distributions) and the variates of their duration distributions;
  * dynamic edges (`end_pairs`: decrement by the network's dt, kept while > 0) and `net_beta` on a real MFNet.
"""
import math
from fractions import Fraction as Fr
import numpy as np

U = 2.0 ** -53


def F(sig, what):
    return dict(signature=sig, what=what)


# ---------------------------------------------------------------------------
# scenario definitions (JSON-able)

def table_scenarios(rng):
    """ (sim, module kwargs, years of the table, time indices) """
    return [
        dict(sim=['year', 0.25, 3], mod={}, years=[2000, 2001, 2002, 2003], tis=[0, 1, 2, 3, 5, 6, 7, 10]),        # annual table, sub-annual dt
        dict(sim=['year', 1.0, 12], mod={}, years=[1995, 2000, 2005, 2010], tis=[0, 2, 3, 5, 7, 8, 11]),           # a table every 5 years
        dict(sim=['year', 0.5, 8], mod={}, years=[1990, 2004, 2005], tis=[0, 3, 7, 8, 9, 15]),                    # irregular spacing
        dict(sim=['day', 30, 800], mod=dict(unit='year', dt=0.5), years=[2000, 2001, 2002], tis=[0, 1, 2, 3]),    # module on its own timeline
    ]


def death_table_for(years, rng):
    ages = sorted(rng.sample([0, 1, 5, 15, 40, 65], 4))
    rows = dict(Time=[], Sex=[], AgeGrpStart=[], mx=[])
    for y in years:
        for s in ('Female', 'Male'):
            for a in ages:
                rows['Time'].append(y); rows['Sex'].append(s); rows['AgeGrpStart'].append(a); rows['mx'].append(round(rng.uniform(0.001, 0.3), 4))
    return rows


def fert_table(rng, years=None):
    years = years or sorted(rng.sample([1995, 2000, 2002, 2005, 2010], rng.choice([1, 2, 3])))
    ages = sorted(rng.sample([15, 20, 25, 30, 35, 40, 45], rng.choice([3, 4, 5])))
    rows = dict(Time=[], AgeGrp=[], ASFR=[])
    for y in years:
        for a in ages:
            rows['Time'].append(y); rows['AgeGrp'].append(a); rows['ASFR'].append(round(rng.uniform(5, 250), 1))
    return rows


def set_ti(sim, mod, ti):
    """ put the module (and the sim) at time index ti of the module's timeline """
    mod.t.ti = ti
    # sim time for `sim.t.now('year')`: the nearest sim index to the module's absolute time
    ab = mod.t.abstvec[min(ti, len(mod.t.abstvec) - 1)]
    sim.t.ti = int(np.argmin(np.abs(sim.t.abstvec - ab)))


# ---------------------------------------------------------------------------
# independent references (no model)

def ref_nearest(years, now):
    best = None
    for y in years:
        if best is None or abs(y - now) < abs(best - now): best = y
    return best


def o_births_series(a, c16):
    import starsim as ss, pandas as pd
    c06 = c16.c06
    su, sdt, dur = a['sim']
    df = pd.DataFrame(dict(Year=a['years'], CBR=a['vals']))
    sim, b = c16.build('births', su, sdt, dur, a['mod'], df, dict(rate_units=a.get('ru', 1e-3)))
    step = c16.dt_year_exact(b.t.unit, b.t.dt)
    for ti in a['tis']:
        if ti >= b.t.npts: continue
        set_ti(sim, b, ti)
        now = float(sim.t.now('year'))
        p = float(c16.births_prob(b))
        y = ref_nearest(a['years'], now)
        want = min(max(Fr(a['vals'][a['years'].index(y)]) * c06.fr(a.get('ru', 1e-3)) * step, 0), 1)
        if not c06.close(want, c06.fr(p), 32 * U):
            return [F(dict(oracle='nearest-year', process='births'),
                      f"birth-rate series {dict(zip(a['years'], a['vals']))} in a module stepping {b.t.dt} {b.t.unit}: at {now:.3f} (ti={ti}) the per-step probability is {p!r}; "
                      f"the nearest tabulated year is {y} -> expected {float(want)!r}")]
    return []


def o_deaths_times(a, c16):
    """ the table oracle at several time indices (nearest year with sub-annual dt / sparse tables) """
    out = []
    for ti in a['tis']:
        out = c16.o_table(dict(a, ti=ti))
        if out: break
    return out


def o_fert_table(a, c16):
    import starsim as ss, pandas as pd
    c06 = c16.c06
    su, sdt, dur = a['sim']; ru = a.get('ru', 1e-3)
    df = pd.DataFrame(a['table'])
    sim, pg = c16.build('preg', su, sdt, dur, a['mod'], df, dict(rate_units=ru), n_agents=150)
    ppl = sim.people; uids = ppl.female.uids
    if a.get('infecund'):
        pg.fecund[uids[:: a['infecund']]] = False
    step = c16.dt_year_exact(pg.t.unit, pg.t.dt)
    years = sorted(set(a['table']['Time'])); starts = sorted(set(a['table']['AgeGrp']))
    cell = {(y, g): v for y, g, v in zip(a['table']['Time'], a['table']['AgeGrp'], a['table']['ASFR'])}
    def rate_at(y, g):   # linear interpolation between tabulated years, constant outside? (pandas interpolate: inside only; index = min..max)
        lo = max(t for t in years if t <= y); hi = min(t for t in years if t >= y)
        if lo == hi: return Fr(str(cell[(lo, g)]))
        return Fr(str(cell[(lo, g)])) + (Fr(str(cell[(hi, g)])) - Fr(str(cell[(lo, g)]))) * Fr(y - lo, hi - lo)
    index = list(range(min(years), max(years) + 1))
    for ti in a.get('tis', [0]):
        if ti >= pg.t.npts: continue
        set_ti(sim, pg, ti)
        now = float(pg.t.now('year')); shift = float(pg.pars.dur_pregnancy.to('year').values)
        yr = ref_nearest(index, now - shift)
        pr = np.asarray(ss.Pregnancy.make_fertility_prob_fn(pg, sim, uids), dtype=float)
        ages = np.array(ppl.age[uids], dtype=float); fec = np.array(pg.fecund[uids])
        def bin_of(age):
            below = [g for g in starts + [max(starts) + 1] if g <= age]
            return below[-1] if below else None
        bins = [bin_of(x) for x in ages]
        for k in range(len(uids)):
            g = bins[k]
            elig = fec[k] and pg.pars.min_age <= ages[k] <= pg.pars.max_age
            if not elig or g is None or g == max(starts) + 1: want = Fr(0)
            else:
                n = sum(1 for b in bins if b == g); ninf = sum(1 for b, f_ in zip(bins, fec) if b == g and not f_)
                r = rate_at(yr, g)
                if (~fec).any() and n - ninf > 0: r = r * n / (n - ninf)
                want = min(max(r * c06.fr(ru) * step, 0), 1)
            if not c06.close(want, c06.fr(pr[k]), 2.0 ** -20, 1e-300):
                return [F(dict(oracle='fertility-table'),
                          f"fertility table (years {years}, age starts {starts}) in a module stepping {pg.t.dt} {pg.t.unit}, at {now:.3f}: woman aged {ages[k]:.2f} "
                          f"(fecund={bool(fec[k])}) has conception probability {pr[k]!r}; row {yr} (nearest to now-{shift}), age bin {g} -> expected {float(want)!r}")]
    return []


def o_coverage_years(a, c16):
    """ RoutineDelivery with years + probabilities: every per-step probability is the annual probability of its year converted """
    import starsim as ss
    c06 = c16.c06
    su, sdt, dur = a['sim']
    class C16RD(ss.RoutineDelivery):
        def step(self): pass
    sim = ss.Sim(n_agents=20, unit=su, dt=sdt, dur=dur, interventions=C16RD(years=a['years'], prob=a['probs']), verbose=0)
    sim.init()
    iv = sim.interventions[0]
    e = c16.dt_year_exact(su, sdt)
    probs = np.asarray(iv.prob, dtype=float); yv = np.asarray(iv.yearvec, dtype=float)
    for k in range(min(len(probs), len(yv))):
        annual = float(np.interp(yv[k], a['years'], a['probs']))
        ref = 1 - (1 - c06.D(annual)) ** c06.D(e)
        if abs(c06.D(probs[k]) - ref) > c06.Dm(1e-9):
            raw = 1 - (1 - c06.D(annual)) ** c06.D(sdt)
            law = 'raw-dt-exponent' if abs(c06.D(probs[k]) - raw) <= c06.Dm(1e-9) else 'other'
            return [F(dict(oracle='coverage-conversion', sim_unit_is_year=su == 'year', law=law, form='years'),
                      f"RoutineDelivery(years={a['years']}, prob={a['probs']}) in a sim stepping {sdt} {su}: per-step probability {probs[k]!r} at {yv[k]:.3f} "
                      f"but 1-(1-{annual:.4f})^(step in years) = {float(ref)!r}")]
    return []


DISEASES = ['SIR', 'SIS', 'Cholera', 'Ebola', 'Measles', 'HIV', 'Gonorrhea', 'NCD']
MOD_TIMES = [dict(unit='day', dt=1), dict(unit='day', dt=2), dict(unit='week', dt=1), dict(unit='month', dt=1), dict(unit='year', dt=0.1), dict(unit='year', dt=0.5), dict()]


def build_disease(name, su, sdt, dur, mkw, seed=1, network='random'):
    import starsim as ss
    d = getattr(ss, name)(**mkw)
    sim = ss.Sim(n_agents=40, unit=su, dt=sdt, dur=dur, diseases=d, networks=network if name != 'NCD' else None, rand_seed=seed, verbose=0)
    sim.init()
    return sim, sim.diseases[0]


def module_timepars(mod):
    import starsim as ss, sciris as sc
    return sc.search(mod.pars, type=ss.TimePar)


def own_timepars(mod):
    """ the TimePars that belong to THIS module: direct parameters and the parameters of its distributions
        (sc.search would walk through dist.module.sim into every other module) """
    import starsim as ss
    out = {}
    for k, v in mod.pars.items():
        if isinstance(v, ss.TimePar): out[(k,)] = v
        elif isinstance(v, ss.Dist):
            for pk, pv in v.pars.items():
                if isinstance(pv, ss.TimePar): out[(k, pk)] = pv
    return out


def o_disease_pars(a, c16):
    """ every TimePar of a disease module on its own (unit, dt): dur -> values*step = duration; rate -> values/step = rate; beta: hazard formula """
    c06 = c16.c06
    su, sdt, dur = a['sim']
    sim, d = build_disease(a['disease'], su, sdt, dur, a['mod'], network=a.get('network', 'random'))
    L = c06.live_units()
    out = []
    mine = own_timepars(d)
    for key, tp in mine.items():
        if not tp.initialized or tp.values is None or callable(tp.v): continue
        kind = type(tp).__name__
        if (tp.parent_unit, tp.parent_dt) != (d.t.unit, d.t.dt):
            others = [(m.t.unit, m.t.dt) for m in sim.modules if m is not d] + [(sim.t.unit, sim.t.dt)]
            foreign = (tp.parent_unit, tp.parent_dt) in others
            out.append(F(dict(oracle='module-timepar-parent', linked_to='another-module' if foreign else 'unknown'),
                         f"{a['disease']}(unit={d.t.unit!r}, dt={d.t.dt}) in a sim ({su}, dt={sdt}) with {[m.name for m in sim.modules]}: its parameter {key[-3:] if isinstance(key, tuple) else key} "
                         f"is linked to the timeline ({tp.parent_unit}, dt={tp.parent_dt}) of another module / the sim, not to its own: per-step value {tp.values!r}"))
        f = c06.exact_ratio(tp.unit, tp.self_dt, tp.parent_unit, tp.parent_dt)
        for v, val in zip(c06.flat(tp.v), c06.flat(tp.values)):
            if kind == 'dur': ok = c06.close(c06.fr(v) * f, c06.fr(val), 16 * U)
            elif kind == 'rate': ok = c06.close(c06.fr(v) / f, c06.fr(val), 16 * U)
            elif kind in ('time_prob', 'beta'):
                ref, tol = c06.tp_ref(v, f); ok = abs(c06.D(val) - ref) <= c06.Dm(tol)
            else:
                ok = abs(c06.D(val) - (1 - (-c06.D(v) / c06.D(f)).exp())) <= c06.Dm(1e-14)
            if not ok:
                return [F(dict(oracle='module-timepar', disease=a['disease'], kind=kind),
                          f"{a['disease']} on ({d.t.unit}, dt={d.t.dt}) in a sim ({su}, dt={sdt}): parameter {key} = ss.{kind}({v}, unit={tp.unit!r}) has per-step value {val!r}, "
                          f"not the parameter converted to the step it is linked to (factor {float(f)!r})")]
    return out[:1]


def o_disease_durations(a, c16):
    """ the variates of a duration distribution of a module stepping (unit, dt) = the variates of the same module stepping in the
        duration's own unit with dt = 1, divided by the step length (same seed, same slots) """
    import starsim as ss
    c06 = c16.c06
    su, sdt, dur = a['sim']
    simA, dA = build_disease(a['disease'], su, sdt, dur, a['mod'], seed=a.get('seed', 1), network=a.get('network', 'random'))
    out = []
    for key in list(dA.pars.keys()):
        dist = dA.pars[key]
        if not isinstance(dist, ss.Dist): continue
        tps = [v for v in dist.pars.values() if isinstance(v, ss.TimePar)]
        if not tps or not isinstance(tps[0], ss.dur): continue
        own = tps[0].unit
        try:     # the DECLARED unit (regenerated from the module's source), not the one read back from the object
            from harness.props import c16_round3 as r3
            decl = [d for d in r3.builtin_decls() if d['cls'] == a['disease'] and d['par'] == key and d['kind'] == 'dur']
            if decl and decl[0]['unit'] is not None: own = decl[0]['unit']
        except Exception:
            pass
        simB, dB = build_disease(a['disease'], su, sdt, dur, dict(unit=own, dt=1.0), seed=a.get('seed', 1), network=a.get('network', 'random'))
        uids = simA.people.auids[:12]
        xa = np.asarray(dA.pars[key].rvs(uids), dtype=float); xb = np.asarray(dB.pars[key].rvs(uids), dtype=float)
        f = c06.exact_ratio(own, 1.0, dA.t.unit, dA.t.dt)
        tpa = [v for v in dA.pars[key].pars.values() if isinstance(v, ss.TimePar)][0]
        tpb = [v for v in dB.pars[key].pars.values() if isinstance(v, ss.TimePar)][0]
        foreign = (tpa.parent_unit, tpa.parent_dt) != (dA.t.unit, dA.t.dt) or (tpb.parent_unit, tpb.parent_dt) != (dB.t.unit, dB.t.dt)
        for ga, gb in zip(xa.tolist(), xb.tolist()):
            if not c06.close(c06.fr(gb) * f, c06.fr(ga), 2.0 ** -20):
                out.append(F(dict(oracle='sampled-duration', cause='foreign-parent' if foreign else 'other'),
                             f"{a['disease']}.pars.{key} on ({dA.t.unit}, dt={dA.t.dt}): sampled duration {ga!r} steps, but the same draw is {gb!r} {own}(s) = {float(c06.fr(gb) * f)!r} steps"))
                return out
    return out


def make_mfnet(su, sdt, dur, mkw, duration, seed=1):
    import starsim as ss
    net = ss.MFNet(duration=ss.constant(v=duration), **mkw)
    sim = ss.Sim(n_agents=120, unit=su, dt=sdt, dur=dur, networks=net, diseases=ss.SIS(), rand_seed=seed, verbose=0)
    sim.init()
    net = sim.networks[0]
    tries = 0
    while not len(net.edges.p1) and tries < 5:
        net.add_pairs(); tries += 1
    return sim, net


def o_edges(a, c16):
    """ an edge of duration D lives n steps with D <= n*dt < D + dt (network units) """
    c06 = c16.c06
    su, sdt, dur = a['sim']
    sim, net = make_mfnet(su, sdt, dur, a['mod'], a['duration'])
    if not len(net.edges.p1): return []
    p1 = np.array(net.edges.p1); p2 = np.array(net.edges.p2)
    d0 = np.array(net.edges.dur, dtype=float)
    dt = float(net.t.dt)
    pairs = {(int(x), int(y)): float(dd) for x, y, dd in zip(p1, p2, d0)}
    alive_steps = {k: 0 for k in pairs}
    for n in range(1, 400):
        net.end_pairs()
        cur = {(int(x), int(y)) for x, y in zip(np.array(net.edges.p1), np.array(net.edges.p2))}
        for k in pairs:
            if k in cur: alive_steps[k] = n
        if not cur: break
    for k, dd in pairs.items():
        n = alive_steps[k] + 1   # the call that removed it
        if not (dd <= n * dt * (1 + 1e-6) and n * dt < (dd + dt) * (1 + 1e-6)):
            return [F(dict(oracle='edge-duration'), f"MFNet on ({net.t.unit}, dt={dt}): an edge of duration {dd} was dropped by the {n}-th end_pairs call (n*dt = {n * dt}); expected D <= n*dt < D+dt")]
    return []


ORACLES = dict(births_series=o_births_series, deaths_times=o_deaths_times, fert_table=o_fert_table, coverage_years=o_coverage_years,
               disease_pars=o_disease_pars, disease_durations=o_disease_durations, edges=o_edges)


def search(ctx, c16, run_oracle):
    rng = ctx.rng
    for sc_ in table_scenarios(rng):
        run_oracle(ctx, 'births_series', dict(sim=sc_['sim'], mod=sc_['mod'], years=sc_['years'], vals=[round(rng.uniform(5, 60), 1) for _ in sc_['years']], tis=sc_['tis']))
        run_oracle(ctx, 'deaths_times', dict(sim=sc_['sim'], mod=sc_['mod'], table=death_table_for(sc_['years'], rng), tis=sc_['tis'], ru=1e-3, rel=1))
        run_oracle(ctx, 'fert_table', dict(sim=sc_['sim'], mod=sc_['mod'], table=fert_table(rng, sc_['years']), tis=sc_['tis'][:4], infecund=rng.choice([0, 3])))
    for su, sdt, dur, years, probs in [('year', 0.5, 6, [2000, 2001, 2002, 2003], [0.1, 0.5, 0.3, 0.2]), ('year', 1.0, 6, [2001, 2002], [0.2, 0.8]),
                                       ('year', 0.25, 4, [2000, 2001, 2002], [0.9, 0.05, 0.4]), ('year', 2.0, 8, [2000, 2001, 2002, 2003, 2004], [0.3, 0.3, 0.6, 0.1, 0.5])]:
        run_oracle(ctx, 'coverage_years', dict(sim=[su, sdt, dur], years=years, probs=probs))
    names = DISEASES if ctx.thorough or ctx.broken else ['SIR', 'SIS'] + rng.sample(DISEASES[2:], 2)
    for name in names:
        for mkw in [dict(unit='day', dt=2), rng.choice(MOD_TIMES)]:
            su, sdt, dur = rng.choice([('year', 1.0, 2), ('year', 0.5, 2), ('day', 1, 60), ('week', 1, 20)])
            run_oracle(ctx, 'disease_pars', dict(disease=name, sim=[su, sdt, dur], mod=mkw, network=None))
            run_oracle(ctx, 'disease_pars', dict(disease=name, sim=[su, sdt, dur], mod=mkw, network='random'))
        run_oracle(ctx, 'disease_durations', dict(disease=name, sim=['year', 0.5, 2], mod=rng.choice(MOD_TIMES[:6]), seed=rng.randint(1, 999), network=None))
        run_oracle(ctx, 'disease_durations', dict(disease=name, sim=['year', 0.5, 2], mod=dict(unit='day', dt=2), seed=rng.randint(1, 999), network='random'))
    for su, sdt, dur, mkw, D in [('year', 1.0, 5, {}, 2.5), ('year', 0.25, 5, {}, 1.1), ('day', 1, 100, dict(unit='week', dt=2), 7.0), ('year', 0.5, 4, {}, rng.choice([0.5, 3.0, 1.75]))]:
        run_oracle(ctx, 'edges', dict(sim=[su, sdt, dur], mod=mkw, duration=D))


# ---------------------------------------------------------------------------
# correspondence: the same families against the model

def correspond(ctx, c16):
    import starsim as ss, pandas as pd
    c06 = c16.c06
    rng = ctx.rng
    tn, to_, tu = c06.tok_num, c06.tok_opt, c06.tok_unit
    lines = []; checks = []

    def add(line, fn):
        checks.append((len(lines), fn)); lines.append(line)

    def broke(name, msg, data):
        ctx.broke('correspondence', 'C16.' + name, msg, data=data)

    # --- nearest year: births series + deaths table at several time indices
    for sc_ in table_scenarios(rng):
        su, sdt, dur = sc_['sim']
        vals = [round(rng.uniform(5, 60), 1) for _ in sc_['years']]
        try:
            sim, b = c16.build('births', su, sdt, dur, sc_['mod'], pd.DataFrame(dict(Year=sc_['years'], CBR=vals)), dict(rate_units=1e-3))
        except Exception as e:
            ctx.count('r2_rejected_' + type(e).__name__); continue
        for ti in sc_['tis']:
            if ti >= b.t.npts: continue
            set_ti(sim, b, ti)
            now = float(sim.t.now('year')); p = float(c16.births_prob(b))
            data = dict(kind='births-series', scenario=sc_, vals=vals, ti=ti)
            def chk_year(ml, years=sc_['years'], vals=vals, p=p, b=b, sim=sim, data=data, now=now):
                yi = int(ml.split(' ')[1])
                if c06.fr(ml.split(' ')[2]) != Fr(years[yi]): return 'model index/value mismatch'
                data['rate'] = vals[yi]; return None
            add(f"nearest {','.join(tn(y) for y in sc_['years'])} {tn(now)}", chk_year)
            # the number form with the rate of the year the MODEL chose is compared in the second pass
            checks[-1] = (checks[-1][0], ('births2', data, p, b.t.unit, b.t.dt, sim.t.unit, sim.t.dt, sc_['years'], vals))
    # --- fertility table
    fert = []
    for sc_ in table_scenarios(rng)[:3] + [dict(sim=['year', 1.0, 3], mod=dict(unit='month', dt=1), years=None, tis=[0, 5])]:
        su, sdt, dur = sc_['sim']
        tbl = fert_table(rng, sc_['years'])
        try:
            sim, pg = c16.build('preg', su, sdt, dur, sc_['mod'], pd.DataFrame(tbl), dict(rate_units=1e-3), n_agents=120)
        except Exception as e:
            ctx.count('r2_rejected_' + type(e).__name__); continue
        ppl = sim.people; uids = ppl.female.uids
        if rng.random() < 0.6: pg.fecund[uids[::3]] = False
        frd = pg.fertility_rate_data
        index = [float(x) for x in frd.index]; cols = [float(c) for c in frd.columns]
        for ti in sc_['tis'][:3]:
            if ti >= pg.t.npts: continue
            set_ti(sim, pg, ti)
            now = float(pg.t.now('year')); shift = float(pg.pars.dur_pregnancy.to('year').values)
            pr = np.asarray(ss.Pregnancy.make_fertility_prob_fn(pg, sim, uids), dtype=float)
            ages = np.array(ppl.age[uids], dtype=float); fec = np.array(pg.fecund[uids])
            li = len(lines); lines.append(f"fertyear {','.join(tn(x) for x in index)} {tn(now)} {tn(shift)}")
            rec = dict(li=li, frd=frd, index=index, cols=cols, ages=ages, fec=fec, pr=pr, agents=[], pg=(pg.t.unit, pg.t.dt, sim.t.unit, sim.t.dt, float(pg.pars.min_age), float(pg.pars.max_age)),
                       data=dict(kind='fertility-table', scenario=sc_, table=tbl, ti=ti))
            for k in range(len(uids)):
                rec['agents'].append((k, len(lines))); lines.append(f"agebin {','.join(tn(c) for c in cols[1:])} {tn(ages[k])}")
            fert.append(rec)
    # --- delivery with years + probs
    for su, sdt, dur, years, probs in [('year', 0.5, 6, [2000, 2001, 2002, 2003], [0.1, 0.5, 0.3, 0.2]), ('year', 0.25, 4, [2000, 2001, 2002], [0.9, 0.05, 0.4])]:
        class C16RD(ss.RoutineDelivery):
            def step(self): pass
        try:
            sim = ss.Sim(n_agents=20, unit=su, dt=sdt, dur=dur, interventions=C16RD(years=years, prob=probs), verbose=0); sim.init()
        except Exception as e:
            ctx.count('r2_rejected_' + type(e).__name__); continue
        iv = sim.interventions[0]
        pv = np.asarray(iv.prob, dtype=float); yv = np.asarray(iv.yearvec, dtype=float)
        def chk(ml, pv=pv, yv=yv, years=years, probs=probs):
            if not ml.startswith('ok '): return f'model {ml}'
            e = c06.D(Fr(ml[3:]))
            for k in range(min(len(pv), len(yv))):
                annual = float(np.interp(yv[k], years, probs))
                if abs(c06.D(pv[k]) - (1 - (1 - c06.D(annual)) ** e)) > c06.Dm(1e-9):
                    return f'per-step probability {pv[k]!r} at {yv[k]:.3f} but the model exponent {float(e)!r} on the annual {annual:.4f} gives {float(1 - (1 - c06.D(annual)) ** e)!r}'
            return None
        add(f"delivexp {tu(su)} {to_(sdt)}", ('fn', chk, dict(kind='delivery-years', sim=[su, sdt, dur], years=years, probs=probs)))
    # --- dynamic edges and net_beta on a real MFNet
    for su, sdt, dur, mkw, D in [('year', 1.0, 5, {}, 2.5), ('year', 0.25, 5, {}, 1.1), ('day', 1, 100, dict(unit='week', dt=2), 7.0)]:
        try:
            sim, net = make_mfnet(su, sdt, dur, mkw, D)
        except Exception as e:
            ctx.count('r2_rejected_' + type(e).__name__); continue
        if not len(net.edges.p1): continue
        dt = net.t.dt
        d0 = np.array(net.edges.dur, dtype=float); keys0 = list(zip(np.array(net.edges.p1).tolist(), np.array(net.edges.p2).tolist()))
        b = 0.1; nb = np.asarray(net.net_beta(disease_beta=b), dtype=float)
        acts = np.array(net.edges.acts, dtype=float); eb = np.array(net.edges.beta, dtype=float)
        def chk_nb(ml, nb=nb, acts=acts, eb=eb, b=b):
            if not ml.startswith('ok '): return f'model {ml}'
            e = float(Fr(ml[3:]))
            want = eb[0] * (1 - (1 - b) ** e)
            return None if abs(nb[0] - want) <= 1e-6 * max(abs(want), 1e-12) else f'net_beta {nb[0]!r} but beta*(1-(1-b)^exponent) = {want!r}'
        add(f"netbeta {tn(float(acts[0]))} {tn(dt)}", ('fn', chk_nb, dict(kind='net-beta', sim=[su, sdt, dur], mod=mkw)))
        for n in (1, 2, 3):
            net.end_pairs()
            cur = dict(zip(zip(np.array(net.edges.p1).tolist(), np.array(net.edges.p2).tolist()), np.array(net.edges.dur, dtype=float).tolist()))
            k0 = keys0[0]
            def chk_edge(ml, cur=cur, k0=k0, n=n):
                parts = ml.split(' ')
                if parts[0] != 'ok': return f'model {ml}'
                active = parts[2] == '1'
                if active != (k0 in cur): return f'after {n} end_pairs calls the edge is {"kept" if k0 in cur else "dropped"} but the model says active={active} (dur {float(Fr(parts[1]))})'
                if active and abs(cur[k0] - float(Fr(parts[1]))) > 1e-5: return f'edge duration after {n} calls is {cur[k0]!r}, model {float(Fr(parts[1]))!r}'
                return None
            add(f"edge {tn(float(d0[0]))} {tn(dt)} {n}", ('fn', chk_edge, dict(kind='edge-duration', sim=[su, sdt, dur], mod=mkw, duration=D, n=n)))
    out = c16.drive(ctx, lines)
    # first pass
    second = []; lines2 = []
    for li, spec in checks:
        ml = out[li]
        if isinstance(spec, tuple) and spec[0] == 'births2':
            _, data, p, mu, md, su_, sd_, years, vals = spec
            parts = ml.split(' ')
            if parts[0] != 'ok' or Fr(parts[2]) != Fr(years[int(parts[1])]):
                return broke('nearest', f'nearest-year line `{lines[li]}` -> {ml}', data)
            second.append((len(lines2), p, data, years[int(parts[1])]))
            lines2.append(f"number births {tu(mu)} {to_(md)} {tu(su_)} {to_(sd_)} {tn(vals[int(parts[1])])} {tn(1e-3)} 1")
        else:
            _, fn, data = spec
            ctx.case(('r2', lines[li]), True, sample=dict(kind=data['kind'], line=lines[li], model=ml))
            ctx.count('cmp_' + data['kind'])
            why = fn(ml)
            if why: return broke(data['kind'], f"{data['kind']}: {why} [{lines[li]}]", data)
    # fertility: rate of (model year, model bin) incl. re-scaling, then the model's per-agent probability
    fsecond = []
    for rec in fert:
        yi = int(out[rec['li']].split(' ')[1])
        row = np.asarray(rec['frd'].iloc[yi].values, dtype=float)
        bins = [int(out[la].split(' ')[1]) for _, la in rec['agents']]
        any_inf = bool((~rec['fec']).any())
        mu, md, su_, sd_, mn, mx = rec['pg']
        for (k, la), bi in list(zip(rec['agents'], bins))[:: max(1, len(bins) // 10)]:
            n = sum(1 for b_ in bins if b_ == bi); ninf = sum(1 for b_, f_ in zip(bins, rec['fec']) if b_ == bi and not f_)
            fsecond.append((len(lines2), rec, k, bi, row[bi], n, ninf, any_inf))
            lines2.append(f"rescale {tn(row[bi])} {n} {ninf if any_inf else 0}")
    out2 = c16.drive(ctx, lines2) if lines2 else []
    lines3 = []; third = []
    for li, p, data, year in second:
        m = c16.model_prob(out2[li])
        ctx.case(('r2b', lines2[li]), True, sample=dict(kind='births year-series', year=year, model=out2[li]))
        ctx.count('cmp_births_series')
        if not c16.cmp_prob(m, p):
            return broke('births_series', f"Births with a year series at ti={data['ti']}: probability {p!r}; model: nearest year {year} -> {out2[li]}", data)
    for li, rec, k, bi, raw, n, ninf, any_inf in fsecond:
        rate = c16.model_prob(out2[li])
        mu, md, su_, sd_, mn, mx = rec['pg']
        third.append((len(lines3), rec, k, bi))
        lines3.append(f"fert {tu(mu)} {to_(md)} {tu(su_)} {to_(sd_)} {tn(rate)} {tn(1e-3)} 1 {tn(rec['ages'][k])} {tn(mn)} {tn(mx)} {int(rec['fec'][k])}")
    out3 = c16.drive(ctx, lines3) if lines3 else []
    for li, rec, k, bi in third:
        m = c16.model_prob(out3[li])
        ctx.case(('r2f', lines3[li]), True, sample=dict(kind='fertility table', age=float(rec['ages'][k]), bin=bi, model=out3[li]))
        ctx.count('cmp_fertility_table')
        if isinstance(m, str) or not c06.close(m, c06.fr(rec['pr'][k]), 2.0 ** -20, 1e-300):
            return broke('fertility_table', f"fertility table: woman aged {rec['ages'][k]:.2f} (fecund={bool(rec['fec'][k])}) got {rec['pr'][k]!r}; model (bin {bi}) -> {out3[li]}", rec['data'])
    # --- disease modules on their own timelines: every TimePar against the C06 model
    names = ['SIR', 'SIS'] + rng.sample(DISEASES[2:], 2 if not ctx.thorough else 6)
    dl = []; per = []
    for name in names:
        for mkw in [dict(unit='day', dt=2), rng.choice(MOD_TIMES)]:
            su, sdt, dur = rng.choice([('year', 1.0, 2), ('year', 0.5, 2), ('day', 1, 60)])
            try:
                sim, d = build_disease(name, su, sdt, dur, mkw)
            except Exception as e:
                ctx.count('r2_disease_rejected_' + type(e).__name__); continue
            lines_of = [(m.t.unit, m.t.dt) for m in sim.modules] + [(sim.t.unit, sim.t.dt)]
            for key, tp in own_timepars(d).items():
                if callable(tp.v) or isinstance(tp.v, ss.Dist): continue
                o = c06.observe(tp)
                kind = o['kind']
                if (tp.parent_unit, tp.parent_dt) != (d.t.unit, d.t.dt):
                    ctx.count('disease_timepar_foreign_parent')   # as is: linked by whichever module initialised first (known finding, reported by the oracle)
                    if (tp.parent_unit, tp.parent_dt) not in lines_of:
                        return broke('disease_timepar', f"{name}.pars{key}: parent ({tp.parent_unit},{tp.parent_dt}) is the timeline of no module of the sim", dict(disease=name, mod=mkw))
                per.append((len(dl), name, key, kind, o, (su, sdt), mkw))
                unit0 = tp.unit if tp.unit != tp.parent_unit else tp.unit
                dl.append(f"F new {kind} {c06.tok_val(tp.v if not isinstance(tp.v, np.ndarray) else tp.v.tolist())} {tu(unit0)} ~ ~ {to_(tp.self_dt)}")
                dl.append(f"F init 1 {tu(tp.parent_unit)} {to_(tp.parent_dt)} ~ 1 0")
    if dl:
        outd = c06.drive(ctx, dl)
        for off, name, key, kind, o, simt, mkw in per:
            ml = outd[off + 1]
            ctx.case(('r2d', name, dl[off], dl[off + 1]), True, sample=dict(kind='disease parameter on the module timeline', disease=name, par=str(key), model=ml[:160]))
            ctx.count('cmp_disease_timepar')
            why = 'model refused' if '|' not in ml else c06.cmp_state(c06.parse_state(ml.split('|')[1]), o, kind in c06.PROBKINDS)
            if why:
                return broke('disease_timepar', f"{name}.pars{key} (ss.{kind}) on module timeline {mkw} in sim {simt}: {why}", dict(disease=name, mod=mkw, sim=list(simt)))
