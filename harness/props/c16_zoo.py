"""
C16 over the shared scenario zoo (harness/zoo.py): every oracle that applies to an initialised simulation, on every entry, every run.

  timepars   every time parameter that belongs to a module (direct parameters, parameters of its distributions, per-network dict betas,
             Deaths.death_rate_data) against its DECLARATION — the zoo configuration where it gives the number / unit, otherwise the
             declaration table regenerated from the module's source (TimeDecls) — converted to THAT module's step; a parameter linked to
             another module's timeline is reported with the signature of the recorded first-module finding
  hazards    Deaths / Births / Pregnancy (number form) per-step probabilities = rate per year x units x rel x module step in years; ageing
  beta       the per-edge beta that reaches Infection.compute_transmission in one infect() call (every disease x network x direction)
             against the declared beta converted to the disease's step (plain networks: edge beta x beta per step; sexual networks:
             exponent acts x step); mixing pools: the probability handed to the Bernoulli draw
  coverage   routine delivery: per-step probability = annual probability converted to the INTERVENTION's step
"""
import math
from fractions import Fraction as Fr
import numpy as np

U = 2.0 ** -53
F32 = 2.0 ** -20


def F(sig, what):
    return dict(signature=sig, what=what)


def table_rows(m, par):
    from harness.props import c16_round3 as r3
    names = [c.__name__ for c in type(m).__mro__]
    for n in names:
        rows = [d for d in r3.builtin_decls() if d['cls'] == n and d['par'] == par]
        if rows: return rows
    return []


def module_cfgs(sim, cfg):
    """ [(module, its zoo configuration dict or None)] """
    out = []
    for group, attr in (('diseases', 'diseases'), ('networks', 'networks'), ('demographics', 'demographics'), ('interventions', 'interventions')):
        mods = list(getattr(sim, attr).values()) if hasattr(getattr(sim, attr, None), 'values') else []
        cfgs = cfg.get(group, []) or []
        for i, m in enumerate(mods):
            out.append((m, cfgs[i] if i < len(cfgs) and len(cfgs) == len(mods) else None))
    return out


def own_timepars(m):
    import starsim as ss
    from harness.props import c16_round2 as r2
    tps = dict(r2.own_timepars(m))
    b = m.pars.get('beta', None) if hasattr(m.pars, 'get') else None
    if isinstance(b, dict):
        for k, v in b.items():
            for j, x in enumerate(v if isinstance(v, (list, tuple)) else [v]):
                if isinstance(x, ss.TimePar): tps[('beta', k, j)] = x
    if isinstance(getattr(m, 'death_rate_data', None), ss.TimePar): tps[('death_rate',)] = m.death_rate_data
    return tps


def declared(m, mc, key):
    """ (unit, number, source) of the declaration of parameter `key` of module m: zoo configuration first, then the regenerated table;
        None where neither says anything (a value the harness cannot attribute) """
    par = key[0]
    rows = table_rows(m, par)
    row = None
    if rows:
        if len(key) > 1 and isinstance(key[1], str):
            row = next((d for d in rows if d['key'] == key[1]), None)
            if row is None and rows[0]['form'] == 'wrapped' and key[1] == (rows[0]['key'] or key[1]): row = rows[0]
            if row is None and rows[0]['form'] == 'wrapped': row = rows[0]      # wrapped: the first distribution parameter
        else:
            row = rows[0]
    unit = row['unit'] if row else None; v = row['v'] if row else None; src = f"`{row['src']}`" if row else None
    if mc is not None and par in mc:
        x = mc[par]
        if isinstance(x, (int, float)) and len(key) == 1: v = x; src = f'{par}={x} (zoo configuration; unit of the default)'
        elif isinstance(x, (tuple, list)) and len(x) == 2 and isinstance(x[1], str): v, unit = x[0], x[1]; src = f'{par}=ss.dur({x[0]}, unit={x[1]!r})'
        elif isinstance(x, dict) and len(key) == 3 and key[1] in x:
            e = x[key[1]]
            if isinstance(e, (int, float)): v = e; unit = None; src = f'beta[{key[1]!r}]=ss.beta({e})'
            else: return None
        elif isinstance(x, (int, float)) and len(key) > 1: return None      # a number replacing a distribution: see zoo_timepars
        elif isinstance(x, dict): return None
    if row is None and src is None: return None
    return unit, v, src, (row['kind'] if row else None), (row['form'] if row else 'plain')


def zoo_timepars(sim, cfg, c16):
    import starsim as ss
    from harness.props import c16_round3 as r3
    c06 = c16.c06
    out = []
    lines = {(m.t.unit, m.t.dt) for m in sim.modules} | {(sim.t.unit, sim.t.dt)}
    for m, mc in module_cfgs(sim, cfg):
        mu, mdt = m.t.unit, m.t.dt
        for key, tp in own_timepars(m).items():
            if not tp.initialized or tp.values is None or callable(tp.v) or isinstance(tp.v, ss.Dist): continue
            where = f"{type(m).__name__} `{m.name}` (stepping {mdt} {mu} in a sim stepping {sim.t.dt} {sim.t.unit}), parameter {'.'.join(str(k) for k in key)}"
            if (tp.parent_unit, tp.parent_dt) != (mu, mdt):
                foreign = (tp.parent_unit, tp.parent_dt) in (lines - {(mu, mdt)})
                out.append(F(dict(oracle='module-timepar-parent', linked_to='another-module' if foreign else 'unknown'),
                             f"{where} is linked to the timeline ({tp.parent_unit}, dt={tp.parent_dt}) of another module / the sim, not to its own: per-step value {tp.values!r}"))
                continue
            d = declared(m, mc, key)
            if d is None: continue
            unit, v, src, kind, form = d
            if kind is not None and type(tp).__name__ != kind:
                out.append(F(dict(oracle='builtin-declaration', form=form, kind=kind, what='class'), f"{where}: object is ss.{type(tp).__name__}, declared {src}")); continue
            kind = type(tp).__name__
            if v is None or np.ndim(tp.v) > 0: continue
            if not c06.close(c06.fr(v), c06.fr(tp.v), 4 * U):
                out.append(F(dict(oracle='builtin-declaration', form=form, kind=kind, what='number'), f"{where}: object holds {tp.v!r}, declared {src}")); continue
            f = r3.ref_factor(c06, unit, mu, mdt)
            if not r3.check_scalar(c06, kind, v, tp.values, f):
                out.append(F(dict(oracle='builtin-declaration', form=form, kind=kind, what='value'),
                             f"{where}: per-step value {tp.values!r} is not the declared {src} converted to the module's step (declared unit / step = {float(f)!r}; the object says unit={tp.unit!r})"))
        # round 5: a parameter the class DECLARES as a plain time parameter but which is held as a bare number (the override lost its wrapper):
        # the bare number is what the module applies per step; it must equal the configured number converted to the module's step
        seen_pars = set()
        for n in [c.__name__ for c in type(m).__mro__]:
            for d in [d for d in r3.builtin_decls() if d['cls'] == n and d['form'] == 'plain' and d['par'] not in seen_pars]:
                seen_pars.add(d['par'])
                obj = m.pars.get(d['par'], None) if hasattr(m.pars, 'get') else None
                if isinstance(obj, bool) or not isinstance(obj, (int, float)): continue
                v = mc.get(d['par']) if mc else None
                if isinstance(v, bool) or not isinstance(v, (int, float)): continue
                f = r3.ref_factor(c06, d['unit'], mu, mdt)
                if not r3.check_scalar(c06, d['kind'], v, float(obj), f):
                    out.append(F(dict(oracle='builtin-declaration', form='plain', kind=d['kind'], what='value'),
                                 f"{type(m).__name__} `{m.name}` (stepping {mdt} {mu}), parameter {d['par']}={v} (default `{d['src']}`): held as the bare number {obj!r}, which is applied per step "
                                 f"as is; {v} per/for one {d['unit'] or mu} converted to the module's step is something else (unit / step = {float(f)!r})"))
    return out


def linked_here(m, tp):
    return (tp.parent_unit, tp.parent_dt) == (m.t.unit, m.t.dt)


def zoo_hazards(sim, cfg, c16):
    import starsim as ss
    c06 = c16.c06
    out = []
    L = c06.live_units()
    for m, mc in module_cfgs(sim, cfg):
        step = None
        if isinstance(m, (ss.Deaths, ss.Births, ss.Pregnancy)): step = c16.dt_year_exact(m.t.unit, m.t.dt)
        where = f"{type(m).__name__} stepping {m.t.dt} {m.t.unit} (sim {sim.t.dt} {sim.t.unit})"
        if isinstance(m, ss.Deaths) and isinstance(getattr(m, 'death_rate_data', None), ss.TimePar) and mc and isinstance(mc.get('death_rate'), (int, float)):
            tp = m.death_rate_data
            if not linked_here(m, tp): continue          # reported by zoo_timepars with the first-module signature
            p = float(np.atleast_1d(np.asarray(ss.Deaths.make_death_prob_fn(m, sim, sim.people.auids), dtype=float))[0])
            raw = c06.fr(mc['death_rate']) * c06.fr(m.pars.rate_units) * c06.fr(m.pars.rel_death) * step
            want = min(max(raw, 0), 1)
            if not c06.close(want, c06.fr(p), 32 * U):
                law = 'dt-squared' if c06.close(min(max(raw * c06.fr(m.t.dt), 0), 1), c06.fr(p), 32 * U) else 'other'
                out.append(F(dict(oracle='per-step-hazard', process='deaths', form='timepar', law=law),
                             f"{where}, death_rate={mc['death_rate']} per 1000 per year: per-step probability {p!r}, but rate x step length = {float(want)!r}"
                             + (' (the step length was applied twice)' if law == 'dt-squared' else '')))
        if isinstance(m, ss.Births) and isinstance(m.pars.birth_rate, ss.TimePar) and mc and isinstance(mc.get('birth_rate'), (int, float)):
            if not linked_here(m, m.pars.birth_rate): continue
            p = float(c16.births_prob(m))
            raw = c06.fr(mc['birth_rate']) * c06.fr(m.pars.rate_units) * c06.fr(m.pars.rel_birth) * step
            want = min(max(raw, 0), 1)
            if not c06.close(want, c06.fr(p), 32 * U):
                law = 'dt-squared' if c06.close(min(max(raw * c06.fr(m.t.dt), 0), 1), c06.fr(p), 32 * U) else 'other'
                out.append(F(dict(oracle='per-step-hazard', process='births', form='timepar', law=law),
                             f"{where}, birth_rate={mc['birth_rate']} per 1000 per year: probability handed to the binomial {p!r}, but rate x step length = {float(want)!r}"))
        # the plain-number branch of the same real functions on this module's timeline (one variant: the configured number, as rate data)
        if isinstance(m, (ss.Deaths, ss.Births)) and mc and isinstance(mc.get('death_rate' if isinstance(m, ss.Deaths) else 'birth_rate'), (int, float)):
            isd = isinstance(m, ss.Deaths); x = mc['death_rate' if isd else 'birth_rate']
            keep = m.death_rate_data if isd else m.pars.birth_rate
            try:
                if isd:
                    m.death_rate_data = x; p = float(np.atleast_1d(np.asarray(ss.Deaths.make_death_prob_fn(m, sim, sim.people.auids), dtype=float))[0]); rel = m.pars.rel_death
                else:
                    m.pars.birth_rate = x; p = float(c16.births_prob(m)); rel = m.pars.rel_birth
            finally:
                if isd: m.death_rate_data = keep
                else: m.pars.birth_rate = keep
            want = min(max(c06.fr(x) * c06.fr(m.pars.rate_units) * c06.fr(rel) * step, 0), 1)
            if not c06.close(want, c06.fr(p), 32 * U):
                out.append(F(dict(oracle='per-step-hazard', process='deaths' if isd else 'births', form='number', law='other'),
                             f"{where}, plain-number rate {x} per 1000 per year: per-step probability {p!r}, but rate x the module's step length = {float(want)!r}"))
        if isinstance(m, ss.Pregnancy) and mc and isinstance(mc.get('fertility_rate'), (int, float)):
            uids = sim.people.female.uids
            if len(uids):
                pr = np.asarray(ss.Pregnancy.make_fertility_prob_fn(m, sim, uids), dtype=float)
                ages = np.array(sim.people.age[uids], dtype=float); fec = np.array(m.fecund[uids])
                raw = c06.fr(mc['fertility_rate']) * c06.fr(m.pars.rate_units) * c06.fr(m.pars.rel_fertility) * step
                for k in range(len(uids)):
                    elig = bool(fec[k]) and m.pars.min_age <= ages[k] <= m.pars.max_age
                    want = min(max(raw, 0), 1) if elig else Fr(0)
                    if not c06.close(want, c06.fr(pr[k]), 2.0 ** -21, 1e-300):
                        out.append(F(dict(oracle='per-step-hazard', process='fertility', form='number', law='other'),
                                     f"{where}, fertility_rate={mc['fertility_rate']}: woman aged {ages[k]:.2f} (fecund={bool(fec[k])}) has conception probability {pr[k]!r}, expected {float(want)!r}"))
                        break
    return out


def zoo_ageing(sim, cfg, c16):
    """ LAST (changes the people): one People.update_post adds the sim step in years to every living agent's age """
    if not sim.pars.get('use_aging', True): return []
    ppl = sim.people
    au = np.asarray(ppl.auids)
    if not len(au): return []
    a0 = np.array(ppl.age.raw[au], dtype=np.float64)
    ppl.update_post()
    a1 = np.array(ppl.age.raw[au], dtype=np.float64)
    want = float(c16.dt_year_exact(sim.t.unit, sim.t.dt))
    if (np.abs((a1 - a0) - want) > 2.0 ** -20 * (np.abs(a1) + 1)).any():
        k = int(np.argmax(np.abs((a1 - a0) - want)))
        return [F(dict(oracle='ageing'), f"one sim step of {sim.t.dt} {sim.t.unit} aged an agent by {float((a1 - a0)[k])!r} years instead of {want!r}")]
    return []


def zoo_beta(sim, cfg, c16):
    import starsim as ss
    from harness.props import c16_round3 as r3
    c06 = c16.c06
    out = []
    for dis in list(sim.diseases.values()):
        if not isinstance(dis, ss.Infection) or not hasattr(dis, 'compute_transmission'): continue
        try:
            betamap = dis.validate_beta()
        except Exception:
            continue
        expect = []
        for nkey, net in sim.networks.items():
            nk = ss.standardize_netkey(nkey)
            if isinstance(net, ss.Network) and len(net) and nk in betamap:
                for j in (0, 1):
                    if betamap[nk][j]: expect.append((net, j, betamap[nk][j]))
        if not expect: continue
        cap = []
        orig = type(dis).compute_transmission

        def rec(src, trg, rel_trans, rel_sus, beta_per_dt, randvals, cap=cap, orig=orig):
            cap.append(np.array(np.asarray(beta_per_dt), dtype=float)); return orig(src, trg, rel_trans, rel_sus, beta_per_dt, randvals)
        dis.compute_transmission = rec
        try:
            dis.infect()
        finally:
            del dis.compute_transmission
        if len(cap) != len(expect): continue      # infect() is organised differently from what this observer assumes: nothing to compare
        for (net, j, beta), got in zip(expect, cap):
            eb = np.asarray(net.edges.beta, dtype=float)
            where = f"{type(dis).__name__} `{dis.name}` (stepping {dis.t.dt} {dis.t.unit}) over {type(net).__name__} (stepping {net.t.dt} {net.t.unit}), direction {j}"
            if isinstance(beta, ss.TimePar):
                if not linked_here(dis, beta) or np.ndim(beta.v) > 0: continue        # first-module linkage: reported by zoo_timepars
                bunit = beta.unit
                f = c06.exact_ratio(bunit, 1.0, dis.t.unit, dis.t.dt)
                bstep = float(c06.tp_ref(beta.v, f)[0]); b = float(beta.v); decl = f'ss.beta({beta.v}, unit={bunit!r})'
            elif isinstance(dis.pars.get('beta', None), (int, float)) and not isinstance(dis.pars.get('beta', None), bool) and \
                    any(d['form'] == 'plain' and d['kind'] == 'beta' for d in table_rows(dis, 'beta')):
                # round 5: a SCALAR number as the module's beta although the class declares `beta = ss.beta(..)`: the user's number replaces the number
                # inside the default (Pars._update_timepar), so it is a per-unit-time beta in the default's unit, not a per-step value
                row = next(d for d in table_rows(dis, 'beta') if d['form'] == 'plain')
                bunit = row['unit'] or dis.t.unit; b = float(beta)
                f = c06.exact_ratio(bunit, 1.0, dis.t.unit, dis.t.dt)
                bstep = float(c06.tp_ref(b, f)[0]); decl = f"beta={beta} (a plain number replacing the default `{row['src']}`, i.e. per {bunit})"
            else:
                bstep = b = float(beta); bunit = None; decl = f'the plain number {beta} (per step / per act by convention)'
            plain = type(net).net_beta is ss.Network.net_beta
            sexual = isinstance(net, ss.SexualNetwork) and type(net).net_beta is ss.SexualNetwork.net_beta
            if plain:
                want = eb * bstep
                if np.abs(got - want).max() > F32 * max(float(np.abs(want).max()), 1e-300) + 1e-15:
                    k = int(np.argmax(np.abs(got - want)))
                    out.append(F(dict(oracle='network-transmission', how='exact'),
                                 f"{where}: the per-edge beta reaching compute_transmission is {got[k]!r}, but edge beta {eb[k]!r} x {decl} converted to the disease's step = {want[k]!r}"))
            elif sexual:
                acts = np.asarray(net.edges.acts, dtype=float)
                asis = eb * (1 - (1 - bstep) ** (acts * float(net.t.dt)))
                if bunit is None:
                    want = asis
                else:
                    stepu = float(c06.exact_ratio(net.t.unit, net.t.dt, bunit, 1.0))      # the network's step in beta units
                    want = eb * (1 - (1 - b) ** (acts * stepu))
                tol = F32 * np.maximum(np.abs(want), 1e-12) + 1e-7
                if (np.abs(got - want) > tol).any():
                    k = int(np.argmax(np.abs(got - want) - tol))
                    law = 'dt-squared' if (np.abs(got - asis) <= F32 * np.maximum(np.abs(asis), 1e-12) + 1e-7).all() else 'other'
                    out.append(F(dict(oracle='beta-per-step', route='sexual-network', law=law),
                                 f"{where}: an edge with {acts[k]:.0f} acts per unit time gets per-step transmission probability {got[k]!r}; with {decl} the escape probability over one step "
                                 f"of {net.t.dt} {net.t.unit} should be (1-beta)^(acts x step) -> {want[k]!r}" +
                                 (f"; the code converts beta to the step ({bstep!r}) AND multiplies the exponent by dt: (1-beta)^(acts x dt^2), so transmission per year is proportional to dt" if law == 'dt-squared' else '')))
    # mixing pools
    for net in list(sim.networks.values()):
        pools = list(net.pools) if hasattr(net, 'pools') else ([net] if isinstance(net, ss.MixingPool) else [])
        for pool in pools[:4]:
            beta = pool.pars.beta
            if not isinstance(beta, ss.beta) or not linked_here(pool, beta) or not getattr(pool, 'diseases', None): continue
            dis = pool.diseases[-1]
            src = pool.get_uids(pool.pars.src); dst = pool.get_uids(pool.pars.dst)
            if not len(src) or not len(dst): continue
            f = c06.exact_ratio(beta.unit, 1.0, pool.t.unit, pool.t.dt)
            bstep = float(c06.tp_ref(beta.v, f)[0])
            trans = float(np.mean(np.asarray(dis.infectious[src], dtype=float) * np.asarray(dis.rel_trans[src], dtype=float)))
            acq = np.asarray(pool.eff_contacts[dst], dtype=float) * np.asarray(dis.susceptible[dst], dtype=float) * np.asarray(dis.rel_sus[dst], dtype=float)
            if trans == 0: continue
            pool.step()
            bern = r3.pool_bernoulli(pool)
            if bern is None or 'p' not in bern.pars or np.size(bern.pars['p']) != len(dst): continue
            p = np.asarray(bern.pars['p'], dtype=float)
            want = bstep * trans * acq
            bad = np.abs(p - want) > F32 * np.maximum(np.abs(want), 1e-300) + 1e-12
            if bad.any():
                k = int(np.argmax(bad))
                out.append(F(dict(oracle='pool-acquisition', route='pools' if hasattr(net, 'pools') else 'pool', beta='beta', how='exact'),
                             f"mixing pool `{pool.name}` (stepping {pool.t.dt} {pool.t.unit}), beta=ss.beta({beta.v}, unit={beta.unit!r}): acquisition probability {p[k]!r}, but beta converted to the step "
                             f"({bstep!r}) x mean source infectiousness {trans:.4f} x {acq[k]!r} = {want[k]!r}"))
    return out


def zoo_coverage(sim, cfg, c16):
    import starsim as ss
    c06 = c16.c06
    out = []
    for iv, mc in [(m, mc) for m, mc in module_cfgs(sim, cfg) if isinstance(m, ss.RoutineDelivery)]:
        if not mc or not isinstance(mc.get('prob'), (int, float)) or not getattr(iv, 'annual_prob', False): continue
        P = mc['prob']
        probs = np.asarray(iv.prob, dtype=float)
        e_mod = c16.dt_year_exact(iv.t.unit, iv.t.dt); e_sim = c16.dt_year_exact(sim.t.unit, sim.t.dt)
        ref = 1 - (1 - c06.D(P)) ** c06.D(e_mod)
        for k in range(len(probs)):
            if abs(c06.D(probs[k]) - ref) > c06.Dm(1e-12):
                simref = 1 - (1 - c06.D(P)) ** c06.D(e_sim); raw = 1 - (1 - c06.D(P)) ** c06.D(sim.t.dt)
                if e_mod != e_sim and abs(c06.D(probs[k]) - simref) <= c06.Dm(1e-12): law = 'sim-step-not-module-step'
                elif abs(c06.D(probs[k]) - raw) <= c06.Dm(1e-12): law = 'raw-dt-exponent'
                else: law = 'other'
                out.append(F(dict(oracle='coverage-conversion', sim_unit_is_year=sim.t.unit == 'year', law=law),
                             f"{type(iv).__name__} `{iv.name}` (annual prob={P}) stepping {iv.t.dt} {iv.t.unit} in a sim stepping {sim.t.dt} {sim.t.unit}: per-step probability {probs[k]!r}, but the annual "
                             f"probability converted to the intervention's step is {float(ref)!r}" + (f" (it was converted with the SIM's step: {float(simref)!r})" if law == 'sim-step-not-module-step' else '')))
                break
    return out


PARTS = [('timepars', zoo_timepars), ('hazards', zoo_hazards), ('coverage', zoo_coverage), ('beta', zoo_beta), ('ageing', zoo_ageing)]


def o_zoo(a, c16):
    """ every part on one zoo entry; one failure per signature; messages prefixed with the entry """
    from harness import impl
    sim = impl.build_sim(a['cfg']); sim.init()
    seen = set(); out = []
    for pname, fn in PARTS:
        if a.get('parts') and pname not in a['parts']: continue
        for f in fn(sim, a['cfg'], c16):
            key = tuple(sorted(f['signature'].items()))
            if key in seen: continue
            seen.add(key)
            out.append(F(f['signature'], f"[zoo:{a['name']}] " + f['what']))
    return out


def search(ctx, c16):
    from harness import zoo
    for name, cfg in zoo.configs():
        args = dict(name=name, cfg=cfg)
        try:
            fails = o_zoo(args, c16)
        except Exception as e:
            ctx.count('zoo_exceptions'); ctx.notes['last_zoo_exception'] = f'{name}: {type(e).__name__}: {e}'; continue
        ctx.count('zoo_runs')
        for f in fails:
            ctx.fail(f['signature'], f['what'], dict(oracle='zoo', args=args))
