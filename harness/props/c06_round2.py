"""
C06 round 2: always-exercised scenario families and re-derived oracles (wired into c06.correspond / c06.search).

correspondence families (model vs real code):
  * interleaved `time_ratio` requests with and without `as_int` (model `timeRatioInt`);
  * zero-factor family: `self_dt = 0` for every class (scalar value): dur -> 0, rate -> ZeroDivisionError, time_prob -> 1, ...;
  * negative dt family (accepted by the code; the model must agree on the defined behaviour);
  * distributions wrapped in a TimePar (`ss.dur(ss.normal(..))`, `ss.days(dist)`, `ss.lognorm_ex(mean=ss.dur(..))`, ...):
    the variates of the wrapped distribution vs the model's `scaleDraws` applied to the variates of the plain distribution.
oracles (real code only):
  * arith_consistency: for EVERY class, `x*c`, `c*x`, `x/c`, `x*=c` equal a freshly built parameter with value `v*c` (same units),
    and a product that leaves the valid range is rejected;
  * no_alias: no operation modifies the user's input array, and `values` never shares memory with it;
  * nan: NaN is rejected by the probability classes (scalar and array alike);
  * dist_wrap: wrapped draws = plain draws x exact factor;
  * pow: `x**c`, `c**x` computed from `values`.
"""
import math, itertools
from fractions import Fraction as Fr
import numpy as np

CANON = ['day', 'week', 'month', 'year']
KINDS = ['dur', 'rate', 'time_prob', 'rate_prob', 'beta']
U = 2.0 ** -53


def F(sig, what):
    return dict(signature=sig, what=what)


# ---------------------------------------------------------------------------
# correspondence families

def corr_as_int(ctx, c06):
    import starsim as ss
    rng = ctx.rng
    reqs = []
    for u1, u2 in itertools.product(CANON + ['d', None, 'fortnight'], CANON + [None]):
        for d1, d2 in [(1.0, 1.0), (rng.choice([0.5, 0.25, 1.5, 2.5, 0.1, 3.0, 10.5]), rng.choice([1.0, 2.0, 0.5, 1.0]))]:
            for as_int in rng.choice([[True, False], [False, True], [True, True, False]]):
                reqs.append((u1, d1, u2, d2, as_int))
    lines = [f"Q {'ratioint' if r[4] else 'ratio'} {c06.tok_unit(r[0])} {c06.tok_opt(r[1])} {c06.tok_unit(r[2])} {c06.tok_opt(r[3])}" for r in reqs]
    out = c06.drive(ctx, lines)
    for r, ln, ml in zip(reqs, lines, out):
        try:
            v = ss.time_ratio(r[0], r[1], r[2], r[3], as_int=r[4]); ires = 'ok'
        except Exception as e:
            v = None; ires = c06.err_kind(e)
        ctx.case(('asint', ln), nontrivial=r[4], sample=dict(kind='time_ratio as_int interleaved', args=list(r), model=ml))
        ctx.count('ratio_as_int' if r[4] else 'ratio_plain_interleaved')
        bad = None
        if ml.split(' ')[0] != ires: bad = f'outcome: model={ml} impl={ires}'
        elif ires == 'ok' and r[4]:
            exact = c06.exact_ratio(r[0], r[1], r[2], r[3]) if r[0] in CANON and r[2] in CANON else None
            tie = exact is not None and abs((exact - math.floor(exact)) - Fr(1, 2)) < Fr(1, 10 ** 9) and (exact - math.floor(exact)) != Fr(1, 2)
            if not tie and (not isinstance(v, (int, np.integer)) or int(v) != int(ml.split(' ')[1])): bad = f'value: model={ml} impl={v!r}'
        elif ires == 'ok' and not c06.close(Fr(ml.split(' ')[1]), c06.fr(v), 8 * U): bad = f'value: model={ml} impl={v!r}'
        if bad:
            ctx.broke('correspondence', 'C06.time_ratio_as_int', f'time_ratio{r[:4]!r} as_int={r[4]} (interleaved requests) diverges from the model: {bad}', data=dict(args=list(r), model=ml))
            return


def fixed_sessions(rng):
    """ always-exercised sessions: zero factor, negative dt, powr / rpowr, draws """
    out = []
    for kind in KINDS:
        v = {'dur': 3.5, 'rate': 0.25, 'time_prob': 0.3, 'beta': 0.05, 'rate_prob': 0.7}[kind]
        u, pu = rng.choice(CANON), rng.choice(CANON)
        mode = 'Q' if kind in ('dur', 'rate') else 'F'
        # self_dt = 0 -> factor 0 (scalar python value; arrays are outside the compared domain)
        out.append(dict(mode='F', kind=kind, v=v, unit=u, punit=None, pdt=None, sdt=0.0, ops=[['init', 'kw', pu, rng.choice([1.0, 0.5, 7]), None, True, True]]))
        # negative parent dt
        out.append(dict(mode=mode, kind=kind, v=v, unit=u, punit=None, pdt=None, sdt=1.0,
                        ops=[['init', rng.choice(['kw', 'dict']), pu, rng.choice([-1.0, -0.5, -7]), None, True, True], ['to', rng.choice(CANON), rng.choice([-2.0, 1.0])]]))
        # general powers (F mode), scaled draws
        out.append(dict(mode='F', kind=kind, v=v, unit=u, punit=None, pdt=None, sdt=1.0,
                        ops=[['init', 'kw', pu, rng.choice([1.0, 0.5, 2, 0.1]), None, True, True], ['powr', rng.choice([0.5, 1.5, 2.0, -1.0])],
                             ['rpowr', rng.choice([2.0, 0.5, 10.0])], ['powr', 0.0]]))
        draws = [round(rng.uniform(0.01, 0.99), 3) for _ in range(rng.choice([1, 3, 5]))] if kind != 'rate_prob' else [round(rng.uniform(0, 4), 2) for _ in range(3)]
        out.append(dict(mode=mode, kind=kind, v=v, unit=u, punit=None, pdt=None, sdt=rng.choice([1.0, 2.0]),
                        ops=[['init', 'kw', pu, rng.choice([1.0, 0.5, 7]), None, True, True], ['draws', draws], ['draws', []], ['add', 1.0]]))
    return out


DISTS = [('normal', dict(loc=5.0, scale=2.0), 'loc'), ('lognorm_ex', dict(mean=6.0, std=2.0), 'mean'), ('uniform', dict(low=1.0, high=10.0), 'low'),
         ('constant', dict(v=4.0), 'v'), ('expon', dict(scale=3.0), 'scale')]


def make_wrapped(ss, style, dname, pars, first, unit, seed):
    ctor = getattr(ss, dname)
    if style == 'inner':
        p = dict(pars); p[first] = ss.dur(pars[first], unit=unit)
        return ctor(**p, strict=False, seed=seed)
    if style == 'inner_rate':
        p = dict(pars); p[first] = ss.rate(pars[first], unit=unit)
        return ctor(**p, strict=False, seed=seed)
    d = ctor(**pars, strict=False, seed=seed)
    if style == 'dur': return ss.dur(d, unit=unit)
    if style == 'days': return ss.days(d)
    if style == 'years': return ss.years(d)
    if style == 'rate': return ss.rate(d, unit=unit)
    raise ValueError(style)


def wrapped_case(ss, a):
    """ -> (wrapped draws, plain draws, TimePar of the first parameter) """
    d = make_wrapped(ss, a['style'], a['dist'], a['pars'], a['first'], a['unit'], a['seed'])
    plain = getattr(ss, a['dist'])(**a['pars'], strict=False, seed=a['seed'])
    tps = [v for v in d.pars.values() if isinstance(v, ss.TimePar)]
    assert len(tps) == 1, f'expected exactly one TimePar parameter, found {len(tps)}'
    tps[0].init(parent_unit=a['punit'], parent_dt=a['pdt'])
    w = [np.asarray(d.rvs(a['n']), dtype=float) for _ in range(2)]
    p = [np.asarray(plain.rvs(a['n']), dtype=float) for _ in range(2)]
    return w, p, tps[0]


def gen_wrapped(rng):
    dname, pars, first = rng.choice(DISTS)
    style = rng.choice(['dur', 'days', 'years', 'inner', 'rate', 'inner_rate'])
    unit = {'days': 'day', 'years': 'year'}.get(style, rng.choice(CANON))
    return dict(style=style, dist=dname, pars=pars, first=first, unit=unit, punit=rng.choice(CANON), pdt=rng.choice([1.0, 0.5, 2, 7, 0.1, 0.25]),
                seed=rng.randint(1, 10 ** 6), n=rng.choice([1, 3, 6]))


def corr_dist_wrapping(ctx, c06):
    import starsim as ss
    rng = ctx.rng
    cases = [dict(style=s, dist=d[0], pars=d[1], first=d[2], unit={'days': 'day', 'years': 'year'}.get(s, 'week'), punit='day', pdt=2.0, seed=11, n=3)
             for s, d in zip(['dur', 'days', 'years', 'inner', 'rate'], DISTS)]
    cases += [gen_wrapped(rng) for _ in range(ctx.budget(15, 120))]
    lines = []; per = []
    for a in cases:
        try:
            w, p, tp = wrapped_case(ss, a)
        except Exception as e:
            ctx.broke('correspondence', 'C06.dist_wrapping', f'wrapping {a} raised {type(e).__name__}: {e}', data=a); return
        kind = type(tp).__name__
        o = c06.observe(tp)
        if o['v'] is None or isinstance(o['v'], list): o = dict(o, v=c06.fr(a['pars'][a['first']]))
        per.append((a, w, p, len(lines), kind))
        lines.append(c06.load_line('Q', dict(o, values=None)))
        for k in range(2):
            lines.append('Q draws ' + (','.join(c06.tok_num(x) for x in p[k].tolist())))
    out = c06.drive(ctx, lines)
    for a, w, p, off, kind in per:
        for k in range(2):
            ml = out[off + 1 + k]
            ctx.case(('wrap', lines[off], lines[off + 1 + k]), True, sample=dict(kind='distribution wrapped in a TimePar', case=a, model=ml[:200]))
            ctx.count('dist_wrapped_' + a['style'])
            st = c06.parse_state(ml.split('|')[1]) if ml.startswith('ok|') else None
            if st is None or not c06.cmp_val(st['values'], [c06.fr(x) for x in w[k].tolist()], 2.0 ** -21, 0.0):   # variates may be float32
                ctx.broke('correspondence', 'C06.dist_wrapping', f"ss.{a['dist']} wrapped as `{a['style']}` (unit {a['unit']}) in a parent ({a['punit']}, dt={a['pdt']}): draw #{k} {w[k].tolist()} "
                          f"but the model scales the plain draws {p[k].tolist()} to {ml[:300]}", data=a)
                return


# ---------------------------------------------------------------------------
# oracles

def o_arith_consistency(a, c06):
    """ (x op c) == a fresh parameter built from (v op c); an out-of-range product is rejected """
    import starsim as ss
    out = []
    kind = a['kind']; c = a['c']
    x = c06.build(a)
    v = np.asarray(a['v'], dtype=float) if c06.is_arr(a['v']) else a['v']
    def valid(w):
        w = np.atleast_1d(np.asarray(w, dtype=float))
        if kind in ('time_prob', 'beta'): return bool(((w >= 0) & (w <= 1)).all())
        if kind == 'rate_prob': return bool((w >= 0).all())
        return True
    ops = [('x*c', lambda: x * c, lambda: v * c), ('c*x', lambda: c * x, lambda: c * v), ('x/c', lambda: x / c, lambda: v / c)]
    def inplace():
        z = c06.build(a); z *= c; return z
    ops.append(('x*=c', inplace, lambda: v * c))
    for name, f, g in ops:
        w = g()
        sig = dict(oracle='arith-consistency', kind=kind, op=name, branch=c06.branch(a['v']))
        try:
            y = f(); raised = None
        except Exception as e:
            y = None; raised = e
        if not valid(w):
            if raised is None:
                out.append(F(dict(sig, what='accepted-invalid'), f"ss.{kind}({a['v']}, {a['unit']!r}) in parent ({a['punit']!r},{a['pdt']}): `{name}` with c={c} gives the invalid value {np.asarray(w).tolist()} "
                             f"but no exception was raised (values={getattr(y, 'values', None)!r})"))
            continue
        if raised is not None:
            out.append(F(dict(sig, what='raised'), f"ss.{kind}({a['v']}): `{name}` with c={c} raised {type(raised).__name__}: {raised}")); continue
        b = dict(a); b['v'] = np.asarray(w).tolist() if c06.is_arr(a['v']) else float(w)
        ref = c06.build(b)
        tol = 64 * U
        for got, want in zip(c06.flat(y.values), c06.flat(ref.values)):
            if abs(float(got) - float(want)) > tol * max(abs(float(want)), 1e-300) + (4e-15 if kind in c06.PROBKINDS else 0):
                out.append(F(dict(sig, what='values'), f"ss.{kind}({a['v']}, {a['unit']!r}) in parent ({a['punit']!r},{a['pdt']}): ({name}).values = {got!r} with c={c}, "
                             f"but ss.{kind}({b['v']}) initialised the same way has values {want!r}"))
                break
        if (y.unit, y.parent_unit, y.parent_dt, y.self_dt) != (ref.unit, ref.parent_unit, ref.parent_dt, ref.self_dt):
            out.append(F(dict(sig, what='units'), f"`{name}` changed the unit/dt fields"))
        if out: break
    return out[:1]


def o_no_alias(a, c06):
    """ the user's array is never modified and `values` does not share memory with it """
    import starsim as ss
    kind = a['kind']
    user = np.array(a['v'], dtype=float); orig = user.copy()
    out = []
    x = getattr(ss, kind)(user, unit=a['unit'])
    steps = [('init', lambda: x.init(parent_unit=a['punit'], parent_dt=a['pdt'])),
             ('set(parent_dt)', lambda: x.set(parent_dt=a['pdt'] * 2)),
             ('to', lambda: x.to(a['u1'], a['d1'])), ('to_parent', lambda: x.to_parent()),
             ('x*c', lambda: x * 0.5), ('x/c', lambda: x / 2), ('x+c', lambda: x + 1), ('values[...] = 0', lambda: x.values.__setitem__(slice(None), 0.0)),
             ('update_values', lambda: x.update_values()), ('to().values[...] = 0', lambda: x.to(a['u1'], a['d1']).values.__setitem__(slice(None), 0.0))]
    for name, f in steps:
        try:
            r = f()
        except Exception as e:
            out.append(F(dict(oracle='no-alias-exception', kind=kind, step=name), f"ss.{kind}(array) step {name} raised {type(e).__name__}: {e}")); break
        if not np.array_equal(user, orig):
            out.append(F(dict(oracle='input-array-modified', kind=kind, step=name),
                         f"ss.{kind}(np.array({orig.tolist()}), unit={a['unit']!r}): after `{name}` the user's input array is {user.tolist()}")); break
        if isinstance(x.values, np.ndarray) and np.shares_memory(x.values, user):
            out.append(F(dict(oracle='values-alias-input', kind=kind, step=name),
                         f"ss.{kind}(array): after `{name}` `.values` shares memory with the user's input array")); break
        if name in ('to', 'to_parent') and isinstance(r.values, np.ndarray) and (np.shares_memory(r.values, user) or np.shares_memory(r.v, user)):
            out.append(F(dict(oracle='values-alias-input', kind=kind, step=name), f"ss.{kind}(array).{name}() returns arrays sharing memory with the input")); break
    return out


def o_nan(a, c06):
    """ NaN is not a probability / rate: the probability classes must reject it, scalar and array alike """
    import starsim as ss
    kind = a['kind']
    v = np.array(a['v'], dtype=float) if c06.is_arr(a['v']) else a['v']
    try:
        x = getattr(ss, kind)(v, unit=a['unit']); x.init(parent_unit=a['punit'], parent_dt=a['pdt'])
    except Exception:
        return []
    return [F(dict(oracle='nan-accepted', kind=kind, branch=c06.branch(a['v'])),
              f"ss.{kind}({a['v']}) was accepted: values = {np.asarray(x.values).tolist()} (the scalar branch rejects NaN)")]


def o_dist_wrap(a, c06):
    import starsim as ss
    w, p, tp = wrapped_case(ss, a)
    kind = type(tp).__name__
    f = c06.exact_ratio(tp.unit, tp.self_dt, a['punit'], a['pdt'])
    for k in range(2):
        for got, raw in zip(w[k].tolist(), p[k].tolist()):
            want = c06.fr(raw) * f if kind == 'dur' else c06.fr(raw) / f
            if not c06.close(want, c06.fr(got), 2.0 ** -21):   # variates may be float32
                return [F(dict(oracle='dist-wrapping', style=a['style'], kind=kind),
                          f"ss.{a['dist']}({a['pars']}) wrapped as `{a['style']}` (unit {a['unit']!r}) in a parent ({a['punit']!r}, dt={a['pdt']}): variate {got!r} "
                          f"but the plain variate {raw!r} converted to the parent's steps is {float(want)!r}")]
    return []


def o_pow(a, c06):
    x = c06.build(a); c = a['c']; out = []
    vals = [float(t) for t in c06.flat(x.values)]
    for name, got, want in (('x**c', x ** c, [v ** c for v in vals]), ('c**x', c ** x, [c ** v for v in vals])):
        for g, w in zip(c06.flat(got), want):
            if abs(float(g) - w) > 1e-12 * max(abs(w), 1e-300):
                out.append(F(dict(oracle='pow', kind=a['kind'], op=name), f"ss.{a['kind']}({a['v']}): {name} with c={c} gives {g!r}, values**c = {w!r}")); break
    return out[:1]


ORACLES = dict(arith_consistency=o_arith_consistency, no_alias=o_no_alias, nan=o_nan, dist_wrap=o_dist_wrap, pow=o_pow)


def search(ctx, c06, run_oracle):
    rng = ctx.rng
    for kind in KINDS:
        for u, pu in rng.sample(list(itertools.product(CANON, CANON)), ctx.budget(4, 16)):
            vs = {'dur': [3.5, 10, 0.2], 'rate': [0.25, 12, 3], 'time_prob': [0.3, 0.6, 0.01, 0.9], 'beta': [0.05, 0.7], 'rate_prob': [0.7, 2.0, 0.1]}[kind]
            v = rng.choice(vs) if rng.random() < 0.6 else [rng.choice(vs) for _ in range(3)]
            run_oracle(ctx, 'arith_consistency', dict(kind=kind, v=v, unit=u, punit=pu, pdt=rng.choice([1.0, 0.5, 2, 7, 0.1]), c=rng.choice([0.5, 2, 3, 0.1, 1.5])))
            arr = [rng.choice(vs), 0.0, rng.choice(vs)] + ([1.0] if kind in ('time_prob', 'beta') else [])
            run_oracle(ctx, 'no_alias', dict(kind=kind, v=arr, unit=u, punit=pu, pdt=rng.choice([1.0, 0.5, 2, 7]), u1=rng.choice(CANON), d1=rng.choice([1.0, 0.25, 3])))
        if kind in ('dur', 'rate'):
            run_oracle(ctx, 'pow', dict(kind=kind, v=rng.choice([3.5, [0.5, 2.0]]), unit='day', punit='week', pdt=1.0, c=rng.choice([2, 0.5, 3])))
    for kind in ('time_prob', 'beta', 'rate_prob'):
        for v in (float('nan'), [float('nan'), 0.5]):
            run_oracle(ctx, 'nan', dict(kind=kind, v=v, unit='day', punit='week', pdt=1.0))
    for _ in range(ctx.budget(10, 60)):
        run_oracle(ctx, 'dist_wrap', gen_wrapped(rng))
