"""
C04 — No random-number generator state is ever used twice in a run.

correspond(): (1) random operation sequences on real ss.Dist objects of every family vs Model/Rng.lean
              (2) whole-run monitoring of generated sims: every dist's observed op sequence is replayed
                  through the model; observed indices / states must equal the model's prediction and the
                  independent NumPy reference PCG64(seed).jumped(ind).
search():     the property itself on the real code: no (generator state) is the start of two consumptions (draws AND direct
              uses of dist.rng, class Watch) over the whole life of a sim object, through every public entry point (DRIVERS),
              with modules stepped twice per step (REPEATS) and user subclasses on the stream helpers (HELPERS);
              seeds pairwise distinct, guards refuse.
"""
import hashlib, numpy as np
from harness import impl

PROP = 'C04'
GENERATED = ['RngConsts', 'SeedFacts', 'StreamSites']
DRIVER = 'Drivers/C04.lean'
DRIVER_MODULES = ['StarsimModel.Model.Rng', 'StarsimModel.Model.Proto']
RULE = ('(1) random API-call sequences (init/jump/jump_dt/rvs/reset/direct rng use; strict x auto; every family of ss.dist_list; '
        'int, empty and uid-array requests) on real ss.Dist objects, compared call by call with the Lean model; '
        '(2) complete per-distribution call histories recorded in generated sims, replayed through the model; '
        '(3) the helper at every regenerated direct-use site (RandomNet.get_edges) called 2-5 times in a row after 0/1/3 steps vs helperCalls. '
        'distinct = distinct canonical op sequence; non-trivial = at least one draw and one jump')
TRUSTED = ['NumPy: PCG64(seed).jumped(k) is a function of (seed,k); a non-empty draw advances the state; distinct (seed,k) give distinct states (checked on every observed state, not assumed)']
ASSUMPTIONS = ['generator positions (ind, draws-since-jump) identify generator states: validated against PCG64(seed).jumped(ind) for every observed draw start']


def ref_state(seed, ind):
    g = np.random.PCG64(seed)
    if ind:
        g = g.jumped(ind)
    return g.state['state']['state']


def str2int_ref(s, modulo):
    return int(hashlib.sha224(s.encode()).hexdigest(), 16) % modulo


def err_kind(e):
    import starsim as ss
    d = ss.distributions
    if isinstance(e, d.DistNotInitializedError): return 'E:NotInitialized'
    if isinstance(e, d.DistNotReadyError): return 'E:NotReady'
    if isinstance(e, d.DistSeedRepeatError): return 'E:SeedRepeat'
    return 'E:Other'


def full_state(d):
    """ The complete bit-generator state: the 128-bit state AND the buffered 32-bit half (32-bit draws consume the
        buffer without advancing the 128-bit state) """
    st = d.state
    if st is None: return None
    return (st['state']['state'], st['state']['inc'], st.get('has_uint32'), st.get('uinteger'))


def observe(d):
    return dict(seed=int(d.seed or 0), ind=int(d.ind), ready=int(bool(d.ready)), init=int(bool(d.initialized)),
                called=int(d.called), hist=len(d.history))


def parse_model_line(line):
    parts = line.split()
    out = dict(res=parts[0])
    for p in parts[1:]:
        k, v = p.split('=', 1)
        out[k] = v
    return out


# ---------------------------------------------------------------------------
# (1) op sequences on real Dist objects

class FakePeople:
    def __init__(self, slot): self.slot = slot


class FakeSim:
    def __init__(self, slot):
        self.people = FakePeople(slot)
        self.ti = 0


def gen_sequence(rng, families):
    fam = rng.choice(families)
    strict = rng.random() < 0.6
    auto = rng.random() < 0.6
    nslots = rng.randint(5, 40)
    # slots with repeats
    slots = [rng.randint(0, nslots + 10) for _ in range(nslots)]
    ops = []
    stride = 1000
    if strict:
        # sometimes operate before init
        for _ in range(rng.choice([0, 0, 1, 2])):
            ops.append(rng.choice([('rvs', 3, False), ('jump', None, 1, False), ('jumpdt', 1, False), ('rvs', 0, False)]))
        ops.append(('init', 'tr_%d' % rng.randint(0, 10**6), rng.choice([None, 0, 1, 5, 12345]), False))
    ti = 0
    n = rng.randint(4, 30)
    has_slots = strict   # a non-strict dist initialises itself without slots: uid requests need an explicit init first
    for _ in range(n):
        r = rng.random()
        if r < 0.40:
            kind = rng.random()
            if kind < 0.35 or not has_slots:
                size = rng.choice([0, 1, 2, 5, 17])
                ops.append(('rvs', size, rng.random() < 0.1))
            elif kind < 0.9:
                k = rng.choice([0, 0, 1, 2, 5, nslots])
                uids = sorted(rng.sample(range(nslots), min(k, nslots)))
                if rng.random() < 0.3: rng.shuffle(uids)
                ops.append(('rvs_uids', uids, rng.random() < 0.1))
            else:
                ops.append(('rvs', (2, 3), False))
        elif r < 0.60:
            ti += rng.choice([1, 1, 1, 2, 0, -1])
            ops.append(('jumpdt', ti, rng.random() < 0.08))
        elif r < 0.75:
            if rng.random() < 0.5:
                ops.append(('jump', None, rng.choice([1, 1, 2, 0, -1]), rng.random() < 0.1))
            else:
                ops.append(('jump', rng.choice([0, 1, stride * ti, stride * ti + 3, 5000, -3]), 1, rng.random() < 0.2))
        elif r < 0.83:
            ops.append(('reset', rng.choice([0, -1, 1, -2, 7])))
        elif r < 0.88:
            ops.append(('direct', rng.choice([1, 3, 8])))
        elif r < 0.915:
            ops.append(('set',))                      # dist.set(<same parameters>): must not touch stream state or flags
        elif r < 0.95:
            ops.append(('init', 'tr_%d' % rng.randint(0, 10**6), rng.choice([None, 0, 3]), rng.random() < 0.7))
            has_slots = True
        else:
            ops.append(('rvs', 4, False))
    if rng.random() < 0.06 and auto:
        # a long sampling history (many more calls than any test makes), then a jump and a draw: the jump must still
        # land on PCG64(seed).jumped(ind) — a history that is truncated or compacted breaks the reset-then-jump anchor
        ops.append(('burst', rng.choice([1500, 6000, 12000]), 2))
        ti += 1200
        ops.append(('jumpdt', ti, False)); ops.append(('rvs', 3, False))
    return dict(family=fam, strict=strict, auto=auto, slots=slots, ops=ops)


def make_dist(case):
    import starsim as ss
    fam = case['family']
    kw = dict(strict=case['strict'], auto=case['auto'])
    ctor = getattr(ss, fam)
    pars = impl.DIST_PARS[fam]
    return ctor(**pars, **kw)


def run_impl_sequence(case, modulo):
    """ Execute the ops on a real Dist; return (protocol lines, observations) """
    import starsim as ss
    d = make_dist(case)
    slots = np.array(case['slots'])
    sim = FakeSim(slots)
    lines = [f"new {int(case['strict'])} {int(case['auto'])}"]
    obs = [None]
    if not case['strict']:
        # the constructor already called init(): offset 0 (no trace / name), seed None
        lines.append('init 0 none 0')
        o = observe(d); o.update(res='ok', start=None, state=d.state_int)
        obs.append(o)
    for op in case['ops']:
        start = None
        res = 'ok'
        try:
            if op[0] == 'init':
                _, trace, seed, force = op
                lines.append(f"init {str2int_ref(trace, modulo)} {'none' if seed is None else seed} {int(force)}")
                d.init(trace=trace, seed=seed, sim=sim, slots=slots, force=force)
            elif op[0] == 'jump':
                _, to, delta, force = op
                lines.append(f"jump {'none' if to is None else to} {delta} {int(force)}")
                d.jump(to=to, delta=delta, force=force)
            elif op[0] == 'jumpdt':
                _, ti, force = op
                lines.append(f"jumpdt {ti} {int(force)}")
                d.jump_dt(ti=ti, force=force)
            elif op[0] in ('rvs', 'rvs_uids'):
                _, n, reset = op
                if op[0] == 'rvs_uids':
                    arg = ss.uids(n)
                    size = int(max(slots[n]) + 1) if len(n) else 0
                else:
                    arg = n
                    size = int(np.prod(n))
                lines.append(f"rvs {size} {int(reset)}")
                pre = full_state(d)
                out = d.rvs(arg, reset=reset)
                if size: start = pre
                # output length check (C03 covers values)
                exp_len = len(n) if op[0] == 'rvs_uids' else size
                if np.size(out) != exp_len:
                    res = f'badlen({np.size(out)}!={exp_len})'
            elif op[0] == 'set':
                lines.append('set')
                pars = impl.DIST_PARS[case['family']]
                if pars and case['family'] not in ('histogram', 'choice'):
                    d.set(**{k: v for k, v in list(pars.items())[:1]})
                else:
                    d.set()
            elif op[0] == 'burst':
                _, nrep, size = op
                for _r in range(nrep - 1):
                    lines.append(f"rvs {size} 0"); obs.append(None)
                    try: d.rvs(size)
                    except Exception: pass
                lines.append(f"rvs {size} 0")
                pre = full_state(d)
                d.rvs(size); start = pre
            elif op[0] == 'reset':
                lines.append(f"reset {op[1]}")
                d.reset(op[1])
            elif op[0] == 'direct':
                # (a direct draw consumes the stream differently from the family's sampler: the model's draw history tells them
                #  apart by size, direct draws are sent as 1000000 + n)
                lines.append(f"direct {1000000 + op[1]}")
                pre = full_state(d)
                d.rng.random(op[1])
                start = pre
        except Exception as e:
            res = err_kind(e)
            start = None
        o = observe(d)
        o.update(res=res, start=start, state=d.state_int)
        obs.append(o)
    return lines, obs


def compare_sequence(ctx, case, lines, obs, model_lines):
    """ Compare observation and model line by line; returns first divergence or None """
    pos_state = {}   # model position -> observed generator state
    state_pos = {}
    seedcur = None
    for i, (ln, o, ml) in enumerate(zip(lines, obs, model_lines)):
        if ml == 'bad-op':
            return dict(at=i, line=ln, why='model rejected the operation line')
        if o is None:
            continue
        m = parse_model_line(ml)
        for key in ('seed', 'ind', 'ready', 'init', 'called', 'hist'):
            if str(o[key]) != m[key]:
                return dict(at=i, line=ln, why=f'{key}: impl={o[key]} model={m[key]}', impl=o, model=ml)
        if o['res'] != m['res']:
            return dict(at=i, line=ln, why=f"outcome: impl={o['res']} model={m['res']}", impl=o, model=ml)
        # draw start
        if (o.get('start') is None) != (m['start'] == '-'):
            return dict(at=i, line=ln, why=f"draw start: impl={'yes' if o.get('start') is not None else 'no'} model={m['start']}", impl=o, model=ml)
        # current position vs state
        if o.get('state') is not None and m['init'] == '1':
            ind_s, draws = m['pos'].split(':')
            if draws == '-':
                ref = ref_state(int(m['seed']), int(ind_s))
                if ref != o['state']:
                    return dict(at=i, line=ln, why=f"generator state differs from PCG64({m['seed']}).jumped({ind_s})", impl=o, model=ml)
            k = (m['seed'], m['pos'])
            if k in pos_state and pos_state[k] != o['state']:
                return dict(at=i, line=ln, why=f'same model position {k} but different generator state', impl=o, model=ml)
            # (the converse — distinct positions give distinct states — is only meaningful for positions with no
            #  draws since the jump, which are compared exactly with the NumPy reference above: two different draw
            #  histories after one jump may consume the same amount of the stream)
            pos_state[k] = o['state']; state_pos[o['state']] = k
    return None


def correspond(ctx):
    import starsim as ss
    facts = ctx.extracted.get('RngConsts', {}).get('facts') or {}
    modulo = facts.get('modulo', 10**9)
    # runtime cross-check of the extracted constants against the imported module
    d0 = ss.random(strict=False)
    if facts and d0.dt_jump_size != facts['dt_jump_size']:
        ctx.broke('extract', 'RngConsts', f"dt_jump_size extracted {facts['dt_jump_size']} but live object has {d0.dt_jump_size}")
    if ss.distributions.str2int('abc') != str2int_ref('abc', modulo):
        ctx.broke('correspondence', 'str2int', 'str2int differs from sha224 mod modulo reference')
    families = [f for f in ss.dist_list]
    nseq = ctx.budget(120, 900)
    cases = [gen_sequence(ctx.rng, families) for _ in range(nseq)]
    all_lines = []; per = []
    for c in cases:
        try:
            lines, obs = run_impl_sequence(c, modulo)
        except Exception as e:
            ctx.broke('correspondence', 'C04.opseq', f'implementation harness raised {type(e).__name__}: {e}', data=c)
            continue
        per.append((c, lines, obs, len(all_lines)))
        all_lines += lines
    out = ctx.drive(DRIVER, all_lines)
    fams = {}
    for c, lines, obs, off in per:
        ml = out[off:off + len(lines)]
        div = compare_sequence(ctx, c, lines, obs, ml)
        nontrivial = any(l.startswith('rvs') and not l.startswith('rvs 0') for l in lines) and any(l.startswith('jump') for l in lines)
        ctx.case(('seq', c['family'], c['strict'], c['auto'], tuple(lines)), nontrivial,
                 sample=dict(kind='op-sequence', family=c['family'], strict=c['strict'], auto=c['auto'], ops=lines[:12]))
        fams[c['family']] = fams.get(c['family'], 0) + 1
        for l in lines: ctx.count('op_' + l.split()[0])
        for o in obs:
            if o and o['res'].startswith('E:'): ctx.count('err_' + o['res'])
        if div:
            ctx.broke('correspondence', 'C04.opseq', f"Dist call sequence diverges from Model/Rng.lean: {div['why']} at op {div['at']} `{div['line']}`",
                      data=dict(case=c, lines=lines, divergence=div))
            break
    ctx.notes['families_covered'] = fams
    correspond_check_seeds(ctx)
    correspond_direct_sites(ctx, modulo)
    # (2) whole-run monitoring
    nsims = ctx.budget(6, 40)
    for k in range(nsims):
        cfg = impl.gen_sim_config(ctx.rng, small=True)
        try:
            rec = record_run(cfg)
        except Exception as e:
            ctx.broke('correspondence', 'C04.run', f'recording run raised {type(e).__name__}: {e}', data=cfg)
            continue
        check_run(ctx, cfg, rec, modulo)


def correspond_direct_sites(ctx, modulo):
    """ The helper found at the regenerated direct-use sites (`RandomNet.get_edges`), called several times in a row on a real,
        initialised network, against the model's `helperCalls` expansion for the extracted follow-up code: after every call
        the seed, the jump index and the generator state (vs PCG64(seed).jumped(ind) where the model says nothing was drawn
        since the jump) must agree. """
    import starsim as ss
    facts = ctx.extracted.get('StreamSites', {}).get('facts') or {}
    sites = facts.get('direct', [])
    known = {'RandomNet.get_edges'}
    for site in sites:
        if site[1] not in known:
            ctx.broke('correspondence', 'C04.direct-site', f'direct generator use at {site[0]}:{site[1]} (`{site[3]}`) has no correspondence test: add one', data=dict(site=site))
    codes = {s_[1]: s_[2] for s_ in sites}
    if 'RandomNet.get_edges' not in codes:
        return
    follow = {1: ['jump none 1 0'], 2: ['reset 0']}.get(codes['RandomNet.get_edges'], [])
    for _ in range(ctx.budget(6, 30)):
        seed = ctx.rng.randint(0, 10000); ncalls = ctx.rng.randint(2, 5); steps = ctx.rng.choice([0, 1, 3])
        sim = ss.Sim(n_agents=40, dur=6, rand_seed=seed, networks=ss.RandomNet(n_contacts=2), diseases=ss.SIS(beta=0.1), verbose=0)
        sim.init()
        for _s in range(steps): sim.run_one_step()
        net = sim.networks[0]; d = net.dist
        lines = ['new 1 1', f'init {str2int_ref(d.trace, modulo)} {seed if seed else "none"} 1', f'jump {int(d.ind)} 1 1']
        obs = [None, None, dict(seed=int(d.seed), ind=int(d.ind), state=d.state_int)]
        inds = np.asarray(sim.people.auids)
        for c in range(ncalls):
            n = ctx.rng.randint(3, len(inds)); nc = np.full(n, 2, dtype=int)
            net.get_edges(inds[:n], nc)
            lines.append(f'direct {1000000 + 2 * n}'); obs.append(None)
            for fl in follow:
                lines.append(fl); obs.append(None)
            obs[-1] = dict(seed=int(d.seed), ind=int(d.ind), state=d.state_int)
        out = ctx.drive(DRIVER, lines)
        ctx.case(('direct-site', seed, steps, tuple(lines)), True, sample=dict(kind='direct-site', lines=lines[:8]))
        ctx.count('direct_site_cases')
        for ln, o, ml in zip(lines, obs, out):
            if ml == 'bad-op':
                ctx.broke('correspondence', 'C04.direct-site', f'model rejected `{ln}`', data=dict(lines=lines)); return
            if o is None: continue
            m = parse_model_line(ml)
            why = None
            if str(o['seed']) != m['seed']: why = f"seed: impl={o['seed']} model={m['seed']}"
            elif str(o['ind']) != m['ind']: why = f"ind: impl={o['ind']} model={m['ind']}"
            else:
                ind_s, draws = m['pos'].split(':')
                if draws == '-' and ref_state(int(m['seed']), int(ind_s)) != o['state']:
                    why = f"generator state differs from PCG64({m['seed']}).jumped({ind_s})"
                if draws != '-' and ref_state(int(m['seed']), int(ind_s)) == o['state']:
                    why = f"the model says numbers were drawn since the jump to {ind_s}, the generator is exactly at PCG64({m['seed']}).jumped({ind_s})"
            if why:
                ctx.broke('correspondence', 'C04.direct-site', f'RandomNet.get_edges called {ncalls}x after {steps} steps diverges from helperCalls (follow-up code {codes["RandomNet.get_edges"]}): {why} at `{ln}`',
                          data=dict(lines=lines, seed=seed, steps=steps))
                return


def correspond_check_seeds(ctx):
    """ the real Dists.check_seeds on registries with chosen seeds (repeats at any distance) vs the model's checkSeeds """
    import starsim as ss
    rng = ctx.rng
    lines = []; plan = []
    for _ in range(ctx.budget(60, 400)):
        n = rng.randint(1, 12)
        seeds = [rng.randint(0, 30) for _ in range(n)] if rng.random() < 0.6 else rng.sample(range(1000), n)
        if rng.random() < 0.3 and n >= 3:
            i, j = sorted(rng.sample(range(n), 2)); seeds[j] = seeds[i]      # a repeat between non-neighbours
        reg = ss.Dists()
        dd = {}
        for i, sd in enumerate(seeds):
            d = ss.random(strict=False, name=f'd{i}'); d.seed = sd; dd[f'd{i}'] = d
        reg.dists = dd
        try:
            reg.check_seeds(); got = 'ok'
        except Exception as e:
            got = err_kind(e)
        lines.append('checkseeds ' + ','.join(map(str, seeds)))
        plan.append((seeds, got))
    out = ctx.drive(DRIVER, lines)
    for (seeds, got), m in zip(plan, out):
        ctx.case(('checkseeds', tuple(seeds)), len(set(seeds)) != len(seeds))
        if got != m:
            msg = f'Dists.check_seeds on seeds {seeds}: the code says {got}, the model says {m} (duplicate-free: {len(set(seeds)) == len(seeds)})'
            ctx.broke('correspondence', 'C04.check_seeds', msg, data=dict(seeds=seeds))
            if (got == 'ok') != (len(set(seeds)) == len(seeds)):
                ctx.fail(dict(oracle='check-seeds'), msg, dict(kind='checkseeds', seeds=seeds))
            return
    ctx.count('check_seeds_cases', len(plan))


# ---------------------------------------------------------------------------
# (2) whole-run monitoring

def record_run(cfg):
    """ Run a generated sim with Dist.rvs / jump / jump_dt wrapped; return per-dist op histories """
    import starsim as ss
    D = ss.Dist
    hist = {}      # id(dist) -> dict(trace, seed, ops=[...])
    last = {}      # id(dist) -> state_int after the last recorded op
    depth = [0]
    keep = {}

    def entry(d):
        h = hist.get(id(d))
        if h is None:
            h = hist[id(d)] = dict(dist=d, ops=[], strict=d.strict, auto=d.auto)
            keep[id(d)] = d
        return h

    def check_direct(d, h):
        st = full_state(d)
        if id(d) in last and last[id(d)] is not None and st != last[id(d)] and d.initialized:
            h['ops'].append(dict(op='direct 1', start=last[id(d)], obs=None))

    orig = dict(rvs=D.rvs, jump=D.jump, jump_dt=D.jump_dt, init=D.init)

    def wrap(name, fmt):
        f = orig[name]
        def w(self, *a, **kw):
            if depth[0] > 0:
                return f(self, *a, **kw)
            h = entry(self)
            check_direct(self, h)
            depth[0] += 1
            pre = full_state(self)
            err = 'ok'
            ti_default = None
            if name == 'jump_dt':
                ti = kw.get('ti', a[0] if a else None)
                if ti is None:
                    try: ti_default = int(self.module.t.ti) + 1
                    except Exception: ti_default = None
            try:
                out = f(self, *a, **kw)
                return out
            except Exception as e:
                err = err_kind(e)
                raise
            finally:
                depth[0] -= 1
                line, start = fmt(self, a, kw, pre, ti_default)
                o = observe(self); o['res'] = err; o['state'] = self.state_int
                h['ops'].append(dict(op=line, start=start if err == 'ok' else None, obs=o))
                last[id(self)] = full_state(self)
        return w

    def fmt_rvs(self, a, kw, pre, _):
        size = self._size
        try: size = int(np.prod(size))
        except Exception: size = 0
        reset = kw.get('reset', a[1] if len(a) > 1 else False)
        return f'rvs {size} {int(bool(reset))}', (pre if size else None)

    def fmt_jump(self, a, kw, pre, _):
        to = kw.get('to', a[0] if a else None)
        delta = kw.get('delta', a[1] if len(a) > 1 else 1)
        force = kw.get('force', a[2] if len(a) > 2 else False)
        return f"jump {'none' if to is None else int(to)} {int(delta)} {int(bool(force))}", None

    def fmt_jump_dt(self, a, kw, pre, ti_default):
        ti = kw.get('ti', a[0] if a else None)
        if ti is None: ti = ti_default
        force = kw.get('force', a[1] if len(a) > 1 else False)
        return f"jumpdt {int(ti)} {int(bool(force))}", None

    def fmt_init(self, a, kw, pre, _):
        trace = kw.get('trace', a[0] if a else None)
        seed = kw.get('seed', a[1] if len(a) > 1 else None)
        force = kw.get('force', False)
        return ('init', trace or self.trace or self.name, seed, force), None

    D.rvs = wrap('rvs', fmt_rvs); D.jump = wrap('jump', fmt_jump)
    D.jump_dt = wrap('jump_dt', fmt_jump_dt); D.init = wrap('init', fmt_init)
    try:
        sim = impl.build_sim(cfg)
        sim.init()
        sim.run()
    finally:
        D.rvs = orig['rvs']; D.jump = orig['jump']; D.jump_dt = orig['jump_dt']; D.init = orig['init']
    # final direct-use check
    for i, h in hist.items():
        d = h['dist']
        if last.get(i) is not None and full_state(d) != last[i]:
            h['ops'].append(dict(op='direct 1', start=last[i], obs=None))
    traces = {id(d): t for t, d in sim.dists.dists.items()}
    return dict(hist=hist, traces=traces, seeds=[d.seed for d in sim.dists.dists.values()], rand_seed=sim.pars.rand_seed,
                npts=sim.t.npts)


def check_run(ctx, cfg, rec, modulo):
    lines = []; index = []
    global_starts = {}
    n_draws = 0
    for i, h in rec['hist'].items():
        d = h['dist']
        trace = rec['traces'].get(i)
        if trace is None:
            continue  # a dist outside the sim's registry (e.g. created in a test probe)
        seq = [f"new {int(h['strict'])} {int(h['auto'])}"]
        obs = [None]
        for op in h['ops']:
            if isinstance(op['op'], tuple):
                _, tr, seed, force = op['op']
                seq.append(f"init {str2int_ref(tr, modulo) if tr else 0} {'none' if seed is None else int(seed)} {int(bool(force))}")
            else:
                seq.append(op['op'])
            o = op['obs']
            if o is not None:
                o = dict(o); o['start'] = op['start']
            else:
                o = None
            obs.append(o)
            if op['start'] is not None:
                n_draws += 1
                key = op['start']
                if key in global_starts:
                    ctx.fail(dict(oracle='state-reuse', dist=trace.split('_')[0]),
                             f"generator state reused: draws of {global_starts[key]} and {trace} start from the same state",
                             dict(kind='sim', cfg=cfg, trace=trace, other=global_starts[key]))
                global_starts[key] = trace
        index.append((trace, len(lines), seq, obs))
        lines += seq
    if len(set(rec['seeds'])) != len(rec['seeds']):
        ctx.fail(dict(oracle='seed-repeat'), 'two distributions of one sim share a seed', dict(kind='sim', cfg=cfg))
    out = ctx.drive(DRIVER, lines)
    for trace, off, seq, obs in index:
        ml = out[off:off + len(seq)]
        # direct ops carry no observation: compare only start-state bookkeeping
        div = compare_sequence(ctx, None, seq, obs, ml)
        if div:
            ctx.broke('correspondence', 'C04.run', f"recorded history of dist `{trace}` diverges from the model: {div['why']} at `{div['line']}`",
                      data=dict(cfg=cfg, trace=trace, lines=seq[:div['at'] + 1][-15:], divergence=div))
            return
        # expected seed from the trace
        m = parse_model_line(ml[-1])
        exp_seed = str2int_ref(trace, modulo) + rec['rand_seed']
        if int(m['seed']) != exp_seed:
            ctx.broke('correspondence', 'C04.seed', f'dist `{trace}`: seed {m["seed"]} != str2int(trace)+rand_seed = {exp_seed}', data=dict(cfg=cfg, trace=trace))
            return
    ctx.count('sim_runs'); ctx.count('sim_draws', n_draws); ctx.count('sim_dists', len(index))
    ctx.case(('sim', repr(cfg)), n_draws > 0, sample=dict(kind='sim-history', cfg=cfg, dists=len(index), draws=n_draws))


# ---------------------------------------------------------------------------

def search(ctx):
    """ The property on the real code only (no model): state reuse over whole runs, and the guards """
    import starsim as ss
    n = ctx.budget(4, 30)
    for k in range(n):
        cfg = impl.gen_sim_config(ctx.rng, small=True)
        fails = oracle_run(cfg)
        for f in fails:
            ctx.fail(f['signature'], f['what'], dict(kind='sim', cfg=cfg))
        ctx.count('oracle_runs')
    # the fixed zoo of unusual-but-valid configurations (own timelines, units, pregnancy burn-in, user objects, ...)
    from harness import zoo
    for name, cfg in zoo.configs():
        try:
            fails = oracle_run(cfg)
        except Exception as e:
            ctx.count('zoo_exceptions'); ctx.notes['last_zoo_exception'] = f'{name}: {type(e).__name__}: {e}'; continue
        ctx.count('zoo_runs')
        for f in fails:
            ctx.fail(f['signature'], f'[zoo:{name}] ' + f['what'], dict(kind='sim', cfg=cfg))
    # every public way of executing a simulation (sim.run, stepwise, copies, single_run / multi_run / MultiSim on fresh and on
    # already initialised sims, first and later members of a batch), on configurations that have streams outside the stepped
    # modules (people defaults drawn again for newborns, mixing pools) and on a generated one: always, every driver
    lifecycle = zoo.configs(names=LIFECYCLE_ZOO)
    for drv in sorted(DRIVERS):
        gen = impl.gen_sim_config(ctx.rng, small=True, demographics=['births', 'deaths'], allow_global_readers=True)
        picks = [ctx.rng.choice(lifecycle), ('generated', gen)] + (lifecycle if ctx.thorough else [])
        for name, cfg in picks:
            k = ctx.rng.choice([0, 1, 2, 5])
            try:
                fails = oracle_run(cfg, drv, k)
            except Exception as e:
                ctx.count('driver_exceptions'); ctx.notes['last_driver_exception'] = f'{name}/{drv}: {type(e).__name__}: {e}'; continue
            ctx.count('driver_runs'); ctx.count('driver_' + drv)
            for f in fails:
                ctx.fail(f['signature'], f'[entry point {drv}, k={k}, {name}] ' + f['what'], dict(kind='sim', cfg=cfg, driver=drv, k=k))
    # always exercised: sub-modules that the loop does not step itself (the pools inside a MixingPools container) on a FINER own
    # timestep than the simulation: several of their steps fall inside one simulation step
    for pdt in (0.5, 0.25):
        cfg = dict(n_agents=120, rand_seed=5 + ctx.seed, unit='year', dt=1.0, start=2000, dur=5, demographics=[],
                   diseases=[dict(type='sis', beta=0.2, init_prev=0.2, dur_inf=3)], networks=[dict(type='agepools', cut=15, beta=0.3, dt=pdt)])
        try:
            fails = oracle_run(cfg, 'plain', 0)
        except Exception as e:
            ctx.count('driver_exceptions'); ctx.notes['last_driver_exception'] = f'pools-finer/{pdt}: {type(e).__name__}: {e}'; continue
        ctx.count('pools_finer_runs')
        for f in fails:
            ctx.fail(f['signature'], f'[mixing pools on dt={pdt} in a dt=1 sim] ' + f['what'], dict(kind='sim', cfg=cfg, driver='plain', k=0))
    # a user module that calls other modules' step() once more per step (repeated calls inside one timestep), for every
    # kind of module, on a rotating part of the zoo (all of it in the thorough tier) and on generated configurations
    allzoo = zoo.configs()
    for rp in sorted(REPEATS):
        picks = (allzoo if ctx.thorough else ctx.rng.sample(allzoo, 8)) + \
                [('generated', impl.gen_sim_config(ctx.rng, small=True)) for _ in range(ctx.budget(2, 10))]
        for name, cfg in picks:
            try:
                fails = oracle_run(cfg, 'plain', 0, rp)
            except Exception as e:
                ctx.count('repeat_exceptions'); ctx.notes['last_repeat_exception'] = f'{name}/{rp}: {type(e).__name__}: {e}'; continue
            ctx.count('repeat_runs'); ctx.count('repeat_direct_uses', oracle_run.last_watch.n_direct)
            for f in fails:
                ctx.fail(f['signature'], f'[{rp} stepped twice per step, {name}] ' + f['what'], dict(kind='sim', cfg=cfg, driver='plain', k=0, repeat=rp))
    # user subclasses built on the documented stream-consuming helpers (several calls per step)
    for hname in sorted(HELPERS):
        for dt in (1.0, 0.5):
            try:
                hseed = ctx.rng.randint(0, 1000)
                fails = oracle_helper(hname, dt, hseed)
            except Exception as e:
                ctx.count('helper_exceptions'); ctx.notes['last_helper_exception'] = f'{hname}: {type(e).__name__}: {e}'; continue
            ctx.count('helper_runs')
            for f in fails:
                ctx.fail(f['signature'], f'[{hname}] ' + f['what'], dict(kind='helper', name=hname, dt=dt, seed=hseed))
    for f in oracle_guards():
        ctx.fail(f['signature'], f['what'], dict(kind='guards'))
    # a distribution parameter replaced on an initialised simulation
    for how in sorted(SWAPS):
        cfg = impl.gen_sim_config(ctx.rng, small=True, diseases=['sir'], networks=['random'], demographics=[])
        cfg['diseases'][0].update(beta=0.8, init_prev=0.3)
        k = ctx.rng.choice([0, 0, 2])
        try:
            fails, refused = oracle_swap(cfg, how, k)
        except Exception as e:
            ctx.count('oracle_swap_other_error'); ctx.notes['last_swap_error'] = f'{type(e).__name__}: {e}'; continue
        ctx.count('oracle_swaps'); ctx.count('oracle_swaps_refused', int(refused))
        for f in fails:
            ctx.fail(f['signature'], f['what'], dict(kind='swap', cfg=cfg, how=how, after_steps=k))
    # a module that draws from one distribution more often than the per-step stride: the next step must be refused
    # (DistSeedRepeatError) rather than silently overlap with the draws already made
    for n_calls in ([1200] if not ctx.thorough else [999, 1000, 1200, 2500]):
        f = oracle_heavy(n_calls)
        ctx.count('oracle_heavy')
        if f:
            ctx.fail(f['signature'], f['what'], dict(kind='heavy', n_calls=n_calls))
    # loop-operation sequences on real Dist objects: draw-start states must be pairwise distinct
    facts = ctx.extracted.get('RngConsts', {}).get('facts') or {}
    modulo = facts.get('modulo', 10**9)
    for k in range(ctx.budget(60, 600)):
        case = gen_sequence(ctx.rng, list(ss.dist_list))
        f = oracle_sequence(case, modulo)
        ctx.count('oracle_sequences')
        if f:
            ctx.fail(f['signature'], f['what'], dict(kind='opseq', case=case))


def is_loop_op(op):
    if op[0] == 'init': return False
    if op[0] == 'reset': return False
    if op[0] in ('rvs', 'rvs_uids'): return not op[2]
    if op[0] == 'burst': return True
    if op[0] == 'jump': return not op[3]
    if op[0] == 'jumpdt': return not op[2]
    return True


def oracle_sequence(case, modulo):
    """ Real Dist, loop operations only (first init kept): no two draws may start from the same generator state """
    case = dict(case)
    if case['family'] == 'constant':
        return None   # np.full consumes no randomness: its "draws" do not start from (or advance) any generator state
    first_init = True; ops = []
    for op in case['ops']:
        if op[0] == 'init' and first_init and case['strict']:
            ops.append(op); first_init = False
        elif is_loop_op(op):
            ops.append(op)
    case['ops'] = ops
    try:
        lines, obs = run_impl_sequence(case, modulo)
    except Exception:
        return None
    seen = {}
    for ln, o in zip(lines, obs):
        if o and o.get('start') is not None:
            if o['start'] in seen:
                return dict(signature=dict(oracle='state-reuse-opseq'),
                            what=f"ss.{case['family']}(strict={case['strict']}, auto={case['auto']}): the draws `{seen[o['start']]}` and `{ln}` of the call sequence {lines} start from the same generator state")
            seen[o['start']] = ln
    return None


class Watch:
    """ Whole-life monitor of EVERY consumption of a Dist's bit generator, re-deriving the property statement from the
        observed states: `Dist.rvs` calls that return numbers, and uses of `dist.rng` made directly (detected as a change
        of the complete generator state between two API calls of the same Dist object: rvs / jump / jump_dt / reset / init,
        and at the end of the watch).  A *simulation* is what one `Sim.run()` call executes plus whatever happened to the
        sim object (or the object it was copied from) before: states observed outside any `Sim.run()` are the common
        prefix of every run that follows; states observed inside the i-th outermost `Sim.run()` belong to run i only
        (two members of a batch are two simulations).  A violation is a consumption whose start state is already in the
        prefix or in the same run.  States are compared by value (128-bit state, increment, buffered half), so a deep
        copy of a sim continues the life of the original. """
    API = ('rvs', 'jump', 'jump_dt', 'reset', 'init')

    def __init__(self, sig_dist=None, context=''):
        self.prefix = {}; self.runs = {}; self.cur = None; self.nrun = 0
        self.fails = []; self.last = {}; self.keep = {}; self.depth = 0
        self.sig_dist = sig_dist; self.context = context; self.n_direct = 0; self.n_draws = 0

    def scope(self):
        return self.prefix if self.cur is None else self.runs.setdefault(self.cur, {})

    def use(self, d, state, how):
        if state is None: return
        who = f'{d.trace or d.name} [{how}]'
        ti = getattr(getattr(d.module, 't', None), 'ti', None) if getattr(d, 'module', None) is not None else None
        prev = self.prefix.get(state) or (self.runs.get(self.cur, {}).get(state) if self.cur is not None else None)
        if prev is not None and len(self.fails) < 3:
            dist = self.sig_dist or str(d.trace or d.name).split('_')[0]
            self.fails.append(dict(signature=dict(oracle='state-reuse', dist=dist),
                                   what=f'{self.context}{how} of `{d.trace or d.name}` at ti={ti}'
                                        f'{"" if self.cur is None else f" (run {self.cur} of the batch)"} starts from a generator state already used by `{prev}`'))
        self.scope()[state] = who + (f' at ti={ti}' if self.cur is not None else ' before the run')

    def direct_check(self, d):
        """ the generator moved since the last API call on this object returned: it was used directly, starting there """
        st = full_state(d); l = self.last.get(id(d))
        if l is not None and st is not None and st != l:
            self.n_direct += 1
            self.use(d, l, 'direct use of dist.rng')

    def __enter__(self):
        import starsim as ss
        D = ss.Dist; watch = self
        self.orig = {k: getattr(D, k) for k in self.API}
        self.orig_run = ss.Sim.run

        def wrap(name):
            f = self.orig[name]
            def w(d, *a, **kw):
                if watch.depth:
                    return f(d, *a, **kw)
                watch.keep[id(d)] = d
                watch.direct_check(d)
                pre = full_state(d)
                watch.depth += 1
                try:
                    out = f(d, *a, **kw)
                finally:
                    watch.depth -= 1
                    watch.last[id(d)] = full_state(d)
                if name == 'rvs' and np.size(out) and d._size:
                    watch.n_draws += 1
                    watch.use(d, pre, 'draw')
                return out
            w.__name__ = name
            return w
        for k in self.API: setattr(D, k, wrap(k))

        def run(sim, *a, **kw):
            outer = watch.cur is None
            if outer:
                watch.cur = watch.nrun; watch.nrun += 1
            try:
                return watch.orig_run(sim, *a, **kw)
            finally:
                if outer:
                    watch.sweep(); watch.cur = None
        ss.Sim.run = run
        return self

    def sweep(self):
        for i, d in list(self.keep.items()):
            self.direct_check(d); self.last[i] = full_state(d)

    def __exit__(self, *exc):
        import starsim as ss
        for k, f in self.orig.items(): setattr(ss.Dist, k, f)
        ss.Sim.run = self.orig_run
        try: self.sweep()
        except Exception: pass
        return False


# Ways of executing a simulation (the public entry points of starsim/sim.py and starsim/run.py).  Each takes the built,
# un-initialised sim and returns the list of sim objects that were run.
def _drv_plain(ss, sim, k): sim.init(); sim.run(); return [sim]
def _drv_run_only(ss, sim, k): sim.run(); return [sim]
def _drv_until(ss, sim, k):
    sim.init()
    for _ in range(min(max(1, k), sim.t.npts - 1)): sim.run_one_step()
    sim.run(); return [sim]
def _drv_copy_after_init(ss, sim, k): sim.init(); s2 = sim.copy(); s2.run(); return [s2]
def _drv_single_run_uninit(ss, sim, k): return [ss.single_run(sim, ind=k, shrink=False)]
def _drv_init_single_run_first(ss, sim, k): sim.init(); return [ss.single_run(sim, ind=0, shrink=False)]
def _drv_init_single_run_kth(ss, sim, k): sim.init(); return [ss.single_run(sim, ind=1 + k, shrink=False)]
def _drv_init_single_run_noreseed(ss, sim, k): sim.init(); return [ss.single_run(sim, ind=k, reseed=False, shrink=False)]
def _drv_multi_run_uninit(ss, sim, k): return ss.multi_run(sim, n_runs=2, parallel=False, shrink=False)
def _drv_init_multi_run(ss, sim, k): sim.init(); return ss.multi_run(sim, n_runs=2, parallel=False, shrink=False)
def _drv_init_multisim(ss, sim, k):
    sim.init(); m = ss.MultiSim(sim); m.run(n_runs=2, parallel=False, shrink=False); return m.sims
def _drv_multisim_list(ss, sim, k):
    s2 = sim.copy(); s2.pars.rand_seed += 1 + k
    m = ss.MultiSim(sims=[sim, s2]); m.run(parallel=False, shrink=False); return m.sims
def _drv_midstep_pause(ss, sim, k):
    # paused INSIDE a timestep (the loop's own single-function stepping), then resumed with run()
    sim.init()
    for _ in range(min(3 + 7 * k, len(sim.loop.plan) - 2)): sim.loop.run_one_step()
    sim.run(); return [sim]
def _drv_run_until_then_run(ss, sim, k):
    # run(until=...) up to a point of the sim's own timeline, then run() to the end; twice for k > 1
    sim.init()
    tv = list(sim.t.timevec)
    for i in sorted({min(len(tv) - 2, 1 + k), min(len(tv) - 2, 3 + 2 * k)} if k > 1 else {min(len(tv) - 2, 1 + k)}):
        if i > 0 and not sim.complete: sim.run(until=tv[i])
    if not sim.complete: sim.run()
    return [sim]
# (MultiSim.run(debug=True) is not an entry point today: it forwards n_runs to single_run, which rejects it)

DRIVERS = {f[5:]: g for f, g in list(globals().items()) if f.startswith('_drv_')}


def oracle_run(cfg, driver='plain', k=0, repeat=None):
    """ Execute a configuration through one of the public entry points with every consumption of every Dist's generator
        watched (draws and direct uses, from the construction of the sim to the end of the run); report reuse.
        repeat: None, or the name of a REPEATS entry — a user module that calls other modules' public methods once more
        per step. """
    fails = []
    extra = [REPEATS[repeat]()] if repeat else None
    with Watch() as w:
        sim = impl.build_sim(cfg, extra_interventions=extra) if extra else impl.build_sim(cfg)
        import starsim as ss
        sims = DRIVERS[driver](ss, sim, k)
    fails += w.fails
    for s in sims:
        seeds = [d.seed for d in s.dists.dists.values()]
        if len(set(seeds)) != len(seeds):
            fails.append(dict(signature=dict(oracle='seed-repeat'), what='two distributions share a seed')); break
    oracle_run.last_watch = w
    return fails


def _repeat_intervention(label, pick):
    """ A user intervention that, on every step, calls `step()` of the chosen modules once more — the property's
        "repeated calls inside one timestep": every such call must start from states not used before. """
    import starsim as ss
    class Repeater(ss.Intervention):
        def step(self):
            for mod in pick(self.sim):
                if mod is not self: mod.step()
    return Repeater(name=f'repeat_{label}')

LIFECYCLE_ZOO = ['births-deaths', 'pregnancy-deaths-maternal', 'age-mixing-pools', 'own-people', 'disk-births-deaths']


def _helper_two_group_net(ss):
    """ the use `RandomNet.get_edges`' docstring describes: contacts built group by group, one get_edges call per group """
    class TwoGroupNet(ss.RandomNet):
        def add_pairs(self):
            uids = self.sim.people.auids
            half = len(uids) // 2
            p1s, p2s = [], []
            for grp in (uids[:half], uids[half:]):
                nc = np.full(len(grp), 2, dtype=int)
                a, b = self.get_edges(np.asarray(grp), nc)
                p1s.append(a); p2s.append(b)
            p1 = np.concatenate(p1s); p2 = np.concatenate(p2s)
            self.append(p1=p1, p2=p2, beta=np.ones(len(p1)), dur=np.zeros(len(p1)))
    return dict(networks=TwoGroupNet())


def _helper_extra_add_pairs(ss):
    """ an intervention that asks every dynamic network for additional pairs in the middle of a step """
    class MorePairs(ss.Intervention):
        def step(self):
            for net in self.sim.networks.values():
                if hasattr(net, 'add_pairs'): net.add_pairs()
    return dict(networks=[ss.RandomNet(n_contacts=2), ss.MFNet()], interventions=MorePairs())


HELPERS = dict(two_group_randomnet=_helper_two_group_net, extra_add_pairs=_helper_extra_add_pairs)


def oracle_helper(name, dt, seed):
    import starsim as ss
    with Watch() as w:
        sim = ss.Sim(n_agents=60, dur=5 * dt, dt=dt, rand_seed=seed, diseases=ss.SIS(beta=0.1, init_prev=0.2), verbose=0, **HELPERS[name](ss))
        sim.init(); sim.run()
    return w.fails


REPEATS = dict(
    networks=lambda: _repeat_intervention('networks', lambda sim: list(sim.networks.values())),
    demographics=lambda: _repeat_intervention('demographics', lambda sim: list(sim.demographics.values())),
    diseases=lambda: _repeat_intervention('diseases', lambda sim: list(sim.diseases.values())),
)


SWAPS = dict(dict_type=lambda ss: dict(type='normal', loc=5.0, scale=1.0), fresh_dist=lambda ss: ss.normal(loc=5.0, scale=1.0),
             dict_same_type=lambda ss: dict(type='lognorm_ex', mean=5.0, std=1.0))


def oracle_swap(cfg, how, after_steps):
    """ A distribution-valued parameter replaced through Pars.update() on an initialised (possibly running) simulation.
        The replacement was not there when the distributions were seeded: either it refuses to draw
        (DistNotInitializedError) or — if it has been initialised meanwhile — every draw of every Dist object in the
        process still starts from a state no earlier draw started from, and no two Dist objects that draw share a seed. """
    import starsim as ss
    D = ss.Dist
    orig_rvs = D.rvs
    seen = {}; seeds = {}; fails = []

    def w(self, n=1, reset=False):
        pre = full_state(self)
        out = orig_rvs(self, n, reset=reset)
        if np.size(out) and self._size:
            if pre in seen and len(fails) < 3:
                fails.append(dict(signature=dict(oracle='state-reuse', dist='swapped-in'), what=f'after `{how}` replaced sir.pars.dur_inf on the initialised sim: a draw of `{self.trace}` ({type(self).__name__}) starts from a generator state already used by `{seen[pre]}`'))
            seen[pre] = f'{self.trace} ({type(self).__name__})'
            other = seeds.get(self.seed)
            if other is not None and other[0] != id(self) and len(fails) < 3:
                fails.append(dict(signature=dict(oracle='seed-repeat', dist='swapped-in'), what=f'after `{how}` replaced sir.pars.dur_inf on the initialised sim: two distributions that draw share seed {self.seed}: {other[1]} and {self.trace} ({type(self).__name__})'))
            seeds.setdefault(self.seed, (id(self), f'{self.trace} ({type(self).__name__})'))
        return out
    D.rvs = w
    refused = False
    try:
        sim = impl.build_sim(cfg); sim.init()
        for _ in range(after_steps): sim.run_one_step()
        sim.diseases[0].pars.update(dur_inf=SWAPS[how](ss))
        try:
            sim.run()
        except ss.distributions.DistNotInitializedError:
            refused = True
    finally:
        D.rvs = orig_rvs
    return fails, refused


def oracle_heavy(n_calls, npts=4):
    """ an intervention calling one of its dists n_calls times per step (stride = 1000 per step) """
    import starsim as ss
    class Heavy(ss.Intervention):
        def __init__(self, **kw):
            super().__init__(**kw); self.d = ss.random()
        def step(self):
            for _ in range(n_calls): self.d.rvs(1)
    D = ss.Dist; orig = D.rvs; seen = {}; dup = []
    def w(self, n=1, reset=False):
        pre = full_state(self)
        out = orig(self, n, reset=reset)
        if self._size and str(self.trace).endswith('heavy_d'):
            if pre in seen and len(dup) < 3: dup.append((seen[pre], (self.module.ti if self.module else None)))
            seen[pre] = (self.module.ti if self.module else None)
        return out
    D.rvs = w
    try:
        sim = ss.Sim(n_agents=20, dur=npts, dt=1.0, diseases=ss.SIS(beta=0.1), networks=ss.StaticNet(n_contacts=2),
                     interventions=Heavy(name='heavy'), verbose=0)
        try:
            sim.run()
        except ss.distributions.DistSeedRepeatError:
            pass   # refused: fine
    finally:
        D.rvs = orig
    if dup:
        return dict(signature=dict(oracle='state-reuse', dist='interventions'),
                    what=f'a distribution drawn from {n_calls} times per step (stride 1000): a draw in step {dup[0][1]} starts from the generator state already used in step {dup[0][0]} instead of the run being refused')
    return None


def oracle_guards():
    import starsim as ss
    fails = []
    slots = np.arange(10)
    sim = FakeSim(slots)
    def mk(**kw):
        d = ss.random(**kw); return d
    # uninitialised refuses
    d = mk()
    try:
        d.rvs(3); fails.append(dict(signature=dict(oracle='guard', guard='uninitialised'), what='an uninitialised strict distribution drew numbers'))
    except ss.distributions.DistNotInitializedError: pass
    except Exception as e: pass
    # strict non-auto refuses a second draw
    d = mk(auto=False); d.init(trace='a', seed=1, sim=sim, slots=slots)
    a = d.rvs(3)
    try:
        b = d.rvs(3); fails.append(dict(signature=dict(oracle='guard', guard='strict-second-draw'), what='a strict non-auto distribution drew twice without a jump'))
    except ss.distributions.DistNotReadyError: pass
    d.jump()
    c = d.rvs(3)
    if np.array_equal(a, c):
        fails.append(dict(signature=dict(oracle='guard', guard='jump-advances'), what='jump() did not change the stream'))
    # backwards jump refused unless forced
    d = mk(); d.init(trace='b', seed=1, sim=sim, slots=slots)
    d.jump(to=10)
    st = d.state_int
    try:
        d.jump(to=5); fails.append(dict(signature=dict(oracle='guard', guard='backward-jump'), what='a backwards jump was accepted without force'))
    except ss.distributions.DistSeedRepeatError:
        if d.state_int != st or d.ind != 10:
            fails.append(dict(signature=dict(oracle='guard', guard='backward-jump-state'), what='a refused backwards jump changed the state'))
    try:
        d.jump(to=10); fails.append(dict(signature=dict(oracle='guard', guard='same-index-jump'), what='jump(to=current index) was accepted without force: the next draw repeats the previous state'))
    except ss.distributions.DistSeedRepeatError: pass
    try:
        d.jump(to=5, force=True)
    except Exception:
        fails.append(dict(signature=dict(oracle='guard', guard='forced-jump'), what='a forced backwards jump was refused'))
    # changing parameters between two draws of one step does not re-arm a strict, non-auto distribution
    d = ss.bernoulli(p=0.5, auto=False); d.init(trace='g', seed=1, sim=sim, slots=slots)
    d.rvs(3)
    d.set(p=0.3)
    try:
        d.rvs(3); fails.append(dict(signature=dict(oracle='guard', guard='set-rearms'), what='a strict non-auto distribution drew twice in a step after set(p=...) between the draws'))
    except ss.distributions.DistNotReadyError: pass
    # negative (burn-in) indices are distinct states with distinct numbers
    d = mk(); d.init(trace='n', seed=1, sim=sim, slots=slots)
    seen = {}
    for ti in (-4, -3, -2, -1):
        try:
            d.jump_dt(ti=ti, force=(ti == -4))
            st = full_state(d); x = tuple(d.rvs(4).tolist())
        except Exception as e:
            fails.append(dict(signature=dict(oracle='guard', guard='negative-index'), what=f'jump_dt to the burn-in index {ti} raised {type(e).__name__}')); break
        if st in seen:
            fails.append(dict(signature=dict(oracle='guard', guard='negative-index-state'), what=f'the burn-in steps ti={seen[st]} and ti={ti} start from the same generator state (and draw the same numbers)')); break
        seen[st] = ti
    # the same guards through the container that pairwise transmission uses (ss.multi_random forwards to its members)
    try:
        m = ss.multi_random('source', 'target', auto=False)
        m.init(trace='m', seed=1, sim=sim, slots=slots)
        u = ss.uids(np.arange(5))
        st0 = [full_state(x) for x in m.dists]; a = m.rvs(u, u)
        try:
            m.rvs(u, u); fails.append(dict(signature=dict(oracle='guard', guard='multi-strict-second-draw'), what='a strict non-auto multi_random drew twice without a jump'))
        except ss.distributions.DistNotReadyError: pass
        m.jump()
        st1 = [full_state(x) for x in m.dists]; c = m.rvs(u, u)
        if st1 == st0 or np.array_equal(a, c):
            fails.append(dict(signature=dict(oracle='guard', guard='multi-jump-advances'), what='multi_random.jump() left the member streams where the previous draw started: the next draw repeats it'))
        ind0 = [x.ind for x in m.dists]; m.jump(delta=3)
        if [x.ind for x in m.dists] != [i + 3 for i in ind0]:
            fails.append(dict(signature=dict(oracle='guard', guard='multi-jump-delta'), what=f'multi_random.jump(delta=3) moved the member indices from {ind0} to {[x.ind for x in m.dists]}'))
        m.jump(to=20)
        try:
            m.jump(to=7); fails.append(dict(signature=dict(oracle='guard', guard='multi-backward-jump'), what='multi_random.jump(to=<earlier index>) was accepted without force'))
        except ss.distributions.DistSeedRepeatError: pass
        try: m.jump(to=7, force=True)
        except Exception: fails.append(dict(signature=dict(oracle='guard', guard='multi-forced-jump'), what='a forced backwards jump of a multi_random was refused'))
        if [x.ind for x in m.dists] != [7, 7]:
            fails.append(dict(signature=dict(oracle='guard', guard='multi-forced-jump'), what=f'multi_random.jump(to=7, force=True) left the member indices at {[x.ind for x in m.dists]}'))
        m.reset()
    except Exception as e:
        fails.append(dict(signature=dict(oracle='guard', guard='multi-raises'), what=f'the documented multi_random sequence (init, rvs, jump, rvs, jump(delta), jump(to), forced jump, reset) raised {type(e).__name__}: {e}'))
    # auto: successive draws in one step differ, successive steps differ
    d = mk(); d.init(trace='c', seed=1, sim=sim, slots=slots)
    d.jump_dt(ti=1); x1 = d.rvs(5); x2 = d.rvs(5); d.jump_dt(ti=2); x3 = d.rvs(5)
    if np.array_equal(x1, x2) or np.array_equal(x1, x3) or np.array_equal(x2, x3):
        fails.append(dict(signature=dict(oracle='guard', guard='auto-advance'), what='repeated draws returned identical numbers'))
    return fails


def replay(ctx, data):
    if data.get('kind') == 'sim':
        return bool(oracle_run(data['cfg'], data.get('driver', 'plain'), data.get('k', 0), data.get('repeat')))
    if data.get('kind') == 'helper':
        return bool(oracle_helper(data['name'], data['dt'], data['seed']))
    if data.get('kind') == 'guards':
        return bool(oracle_guards())
    if data.get('kind') == 'heavy':
        return oracle_heavy(data['n_calls']) is not None
    if data.get('kind') == 'checkseeds':
        import starsim as ss
        reg = ss.Dists(); dd = {}
        for i, sd in enumerate(data['seeds']):
            d = ss.random(strict=False, name=f'd{i}'); d.seed = sd; dd[f'd{i}'] = d
        reg.dists = dd
        try: reg.check_seeds(); got = True
        except Exception: got = False
        return got != (len(set(data['seeds'])) == len(data['seeds']))
    if data.get('kind') == 'opseq':
        return bool(oracle_sequence(data['case'], 10**9))
    if data.get('kind') == 'swap':
        return bool(oracle_swap(data['cfg'], data['how'], data['after_steps'])[0])
    return False
