"""
C17 round 6 — TIMELINE arguments (`unit`, `dt`, `start`, `stop`) of modules and of the sim, in every documented spelling.

Until round 6 every scenario spelled a time unit canonically ('year', 'day', 'week', 'month') and almost every module inherited
its whole timeline from the sim; the unit NAME a user writes (`'years'`, `'yr'`, `'y'`, `'days'`, `'d'`, `'wk'`, `'mo'`, …), the
explicit spelling of an inherited value (`unit=<the sim's unit>`, `dt=<the sim's dt>`) and the routes by which a timeline argument
reaches a module (keyword, `pars=`, positional dict, dict spec in `ss.Sim`) were exercised nowhere in sims whose `dt` is not 1.
Two always-exercised, model-free, replayable families:

  * `oracle_zoo_units`: EVERY zoo configuration is re-spelled (a) with the sim-level unit written as an alias, (b) with every
    module that accepts timeline arguments given `unit=<alias of the unit it has / would inherit>`, (c) with the inherited
    `dt` written out explicitly next to an alias: same timelines, results, agent states, edges as the zoo spelling.
  * `oracle_module_time`: one module of every kind (disease, network, demographics) in sim frames with dt != 1
    (year/0.25, day/2, week/0.5, month/0.5 …) x every documented name of the unit x route: the timeline IN EFFECT is re-derived from
    the documented table frozen in c17_timepar (unit = canonical unit of the supplied name; dt = supplied dt, else the sim's
    dt when the unit is the sim's, number of points from start/stop/dt), and results are bit-identical across all spellings.
"""
import copy
import numpy as np
from harness import impl, snap
from harness.props.c17_timepar import DOC_UNITS, DOC_CANON

REAL_UNITS = ('day', 'week', 'month', 'year')
ALIASES = {u: [n for n in DOC_UNITS[u] if not n.startswith('per')] for u in REAL_UNITS}      # 'perday' / 'peryear' are rate spellings


def alias(unit, k):
    """ the k-th documented NON-canonical name of a unit """
    names = [n for n in ALIASES[unit] if n != unit]
    return names[k % len(names)]


# ------------------------------------------------------------------------------------------------------------------------
# (1) zoo-wide re-spelling

TIMED_DIS = ('sir', 'sis')
TIMED_NET = ('random',)
TIMED_DEM = ()      # Births / Deaths / Pregnancy DECLARE unit='year' as their own default: an absent unit is not 'inherit' there (only existing units are re-spelled)


def _canon_sim_unit(cfg):
    u = cfg.get('unit')
    return DOC_CANON.get(u, None) if isinstance(u, str) else ('year' if u is None else None)


def respell(cfg, variant, k):
    """ the same configuration with unit names written differently; None if the variant does not apply """
    c = copy.deepcopy(cfg)
    su = _canon_sim_unit(cfg)
    if su not in REAL_UNITS: return None
    changed = False
    if variant == 'sim-alias':
        c['unit'] = alias(su, k); changed = True
    else:
        j = k
        for key, timed in (('diseases', TIMED_DIS), ('networks', TIMED_NET), ('demographics', TIMED_DEM)):
            for m in c.get(key, []):
                mu = m.get('unit')
                if mu is None:
                    if m.get('type') not in timed: continue
                    if variant == 'module-explicit-dt':
                        if m.get('dt') is None and cfg.get('dt') is not None:
                            m['dt'] = cfg['dt']
                    m['unit'] = alias(su, j); changed = True
                elif isinstance(mu, str) and DOC_CANON.get(mu) in REAL_UNITS:
                    m['unit'] = alias(DOC_CANON[mu], j); changed = True
                j += 1
    return c if changed else None


def timelines(sim):
    out = {}
    for m in [sim] + list(sim.modules):
        t = m.t
        nm = '__sim__' if m is sim else m.name
        out[nm] = (str(t.unit), repr(float(t.dt)), int(t.npts), repr(t.start), repr(t.stop))
    return out


def run_cfg(cfg):
    np.random.seed(cfg.get('rand_seed', 1))
    sim = impl.build_sim(cfg); sim.init(); sim.run()
    mods = [m.name for m in sim.modules] + ['__people__', '__sim__']
    return snap.everything(sim, mods), timelines(sim)


def oracle_zoo_units(name, cfg, variant, k, base=None):
    c2 = respell(cfg, variant, k)
    if c2 is None: return 'n/a'
    try:
        sa, ta = base if base is not None else run_cfg(cfg)
    except Exception:
        return 'n/a'            # the zoo entry itself does not run on this tree: other checks report that
    names = sorted({str(m.get('unit')) for key in ('diseases', 'networks', 'demographics') for m in c2.get(key, []) if m.get('unit')} | {str(c2.get('unit'))})
    try:
        sb, tb = run_cfg(c2)
    except Exception as e:
        return (f'zoo `{name}` re-spelled ({variant}, unit names {names}): the documented unit names are rejected / crash '
                f'({type(e).__name__}: {str(e)[:160]}) although the canonical spelling runs')
    if ta != tb:
        d = {n: (ta.get(n), tb.get(n)) for n in sorted(set(ta) | set(tb)) if ta.get(n) != tb.get(n)}
        return (f'zoo `{name}` re-spelled ({variant}, unit names {names}): timelines in effect differ from the canonical spelling '
                f'(unit, dt, npts, start, stop): {d}')
    d = snap.diff(sa, sb)
    if d:
        return f'zoo `{name}` re-spelled ({variant}, unit names {names}): results / agent states / edges differ from the canonical spelling: {d}'
    return None


VARIANTS = ('sim-alias', 'module-alias', 'module-explicit-dt')


# ------------------------------------------------------------------------------------------------------------------------
# (2) one module of every kind x frame x name x route: the timeline in effect re-derived from the documented table

FRAMES = [
    dict(unit='year', dt=0.25, start=2000, dur=3),
    dict(unit='year', dt=0.5, dur=4),                       # default start
    dict(unit='day', dt=2, start='2020-01-01', dur=24),
    dict(unit='day', dt=3, start=0, dur=30),                # numeric start
    dict(unit='week', dt=0.5, start='2021-01-04', dur=8),
    dict(unit='week', dt=2, start='2021-01-04', dur=20),
    dict(unit='month', dt=0.5, start='2020-01-01', dur=6),
    dict(unit='year', dt=1.0, start=2000, dur=6),           # the default-looking frame
]
KINDS = ('sis', 'sir', 'random', 'births', 'deaths')
OWN_UNIT = ('births', 'deaths')      # classes whose define_pars declares unit='year'
ROUTES = ('kw', 'pars', 'posdict', 'spec')


def make_module(kind, route, targs):
    import starsim as ss
    cls, base, lst = dict(sis=(ss.SIS, dict(beta=ss.beta(0.3), init_prev=0.1), 'diseases'),
                          sir=(ss.SIR, dict(beta=ss.beta(0.3), init_prev=0.1, dur_inf=ss.dur(3)), 'diseases'),
                          random=(ss.RandomNet, dict(n_contacts=3, dur=ss.dur(2)), 'networks'),
                          births=(ss.Births, dict(birth_rate=40), 'demographics'),
                          deaths=(ss.Deaths, dict(death_rate=40), 'demographics'))[kind]
    if route == 'kw': m = cls(**base, **targs)
    elif route == 'pars': m = cls(pars=dict(base, **targs))
    elif route == 'posdict': m = cls(dict(base, **targs))
    else: m = dict(type={'random': 'random'}.get(kind, kind), **base, **targs)
    return lst, m


def run_module_time(kind, frame, route, targs, simunit_name=None):
    import starsim as ss
    lst, m = make_module(kind, route, targs)
    mods = dict(diseases=[ss.SIS(beta=ss.beta(0.3), init_prev=0.1, name='bg')], networks=[ss.RandomNet(n_contacts=3, name='bgnet')])
    mods.setdefault(lst, [])
    mods[lst] = [m] + mods[lst] if lst != 'demographics' else [m]
    fr = dict(frame)
    if simunit_name is not None: fr['unit'] = simunit_name
    np.random.seed(3)
    sim = ss.Sim(n_agents=150, rand_seed=5, verbose=0, **fr, **mods)
    sim.init(); sim.run()
    mod = getattr(sim, lst)[0]
    t = mod.t
    names = [x.name for x in sim.modules] + ['__people__', '__sim__']
    return dict(unit=t.unit, dt=float(t.dt), npts=int(t.npts), sim_npts=int(sim.t.npts), sim_unit=sim.t.unit, sim_dt=float(sim.t.dt),
                tvec=[repr(x) for x in np.asarray(t.tvec).tolist()], snap=snap.everything(sim, names))


def module_time_group(kind, fi, k):
    """ [(label, route, targs, simunit_name)] — spellings that must all build the same simulation; the first is the reference """
    frame = FRAMES[fi]; su = frame['unit']; dt = frame['dt']
    own = kind in OWN_UNIT          # the class declares a unit of its own: 'not given' is not 'inherit', every spelling carries the unit
    sp = [(f'unit={su!r}', 'kw', dict(unit=su), None)] if own else [('inherit', 'kw', {}, None), (f'unit={su!r}', 'kw', dict(unit=su), None)]
    names = [n for n in ALIASES[su] if n != su]
    for i, n in enumerate(names):
        sp.append((f'unit={n!r}', ROUTES[(i + k) % 4], dict(unit=n), None))
    sp.append((f'unit={names[k % len(names)]!r}+dt', ROUTES[(k + 1) % 4], dict(unit=names[k % len(names)], dt=dt), None))
    if not own:
        sp.append(('dt', ROUTES[(k + 2) % 4], dict(dt=dt), None))
        sp.append((f'sim-unit={names[(k + 1) % len(names)]!r}', 'kw', {}, names[(k + 1) % len(names)]))
    sp.append((f'sim-unit={names[k % len(names)]!r}+unit={names[(k + 2) % len(names)]!r}', ROUTES[k % 4], dict(unit=names[(k + 2) % len(names)]), names[k % len(names)]))
    return sp


def oracle_module_time(kind, fi, k):
    frame = FRAMES[fi]; su = frame['unit']
    data = dict(kind='module-time', mkind=kind, frame=fi, k=k)
    sig = dict(oracle='module-timeline-spelling')
    try:
        ref = None; out = []
        for label, route, targs, sun in module_time_group(kind, fi, k):
            tag = f'{kind} [{route}] {label} in Sim({", ".join(f"{a}={b!r}" for a, b in frame.items())})'
            try:
                r = run_module_time(kind, frame, route, targs, sun)
            except Exception as e:
                if ref is None: return None             # the reference itself does not run: not this oracle's business (other checks report crashes)
                return dict(signature=dict(sig, cause='rejected'), data=data,
                            what=f'{tag}: a documented spelling is rejected ({type(e).__name__}: {str(e)[:140]}) although `inherit` runs')
            # in effect, re-derived from the documented table
            want_u = DOC_CANON[targs['unit']] if 'unit' in targs else su
            want_dt = float(targs['dt']) if 'dt' in targs else float(frame['dt'])
            if r['sim_unit'] != su or r['sim_dt'] != float(frame['dt']):
                return dict(signature=dict(sig, cause='sim-timeline'), data=data,
                            what=f'{tag}: the sim runs with unit={r["sim_unit"]!r}, dt={r["sim_dt"]} instead of the supplied {su!r}, {frame["dt"]}')
            if r['unit'] != want_u or r['dt'] != want_dt:
                return dict(signature=dict(sig, cause='not-in-effect'), data=data,
                            what=(f'{tag}: the module runs with unit={r["unit"]!r}, dt={r["dt"]} ({r["npts"]} timepoints; the sim has {r["sim_npts"]}); '
                                  f'supplied / inherited: unit={want_u!r}, dt={want_dt}'))
            if r['npts'] != r['sim_npts']:
                return dict(signature=dict(sig, cause='not-in-effect'), data=data,
                            what=f'{tag}: same unit and dt as the sim but the module has {r["npts"]} timepoints, the sim {r["sim_npts"]}')
            if ref is None: ref = (tag, r); continue
            if r['tvec'] != ref[1]['tvec']:
                return dict(signature=dict(sig, cause='differs'), data=data, what=f'{tag}: module time vector differs from `{ref[0]}`')
            d = snap.diff(ref[1]['snap'], r['snap'])
            if d:
                return dict(signature=dict(sig, cause='differs'), data=data, what=f'{tag}: results differ from `{ref[0]}`: {d}')
    except Exception as e:
        return dict(signature=dict(sig, cause='oracle-exception'), data=data, what=f'oracle_module_time {kind} frame {fi}: {type(e).__name__}: {e}')
    return None



# ------------------------------------------------------------------------------------------------------------------------
# correspondence: the head of `Time.init(sim)` on real `ss.Time` objects vs `timeInit Gen.timeInitSteps` (driver op `modtime`)

def _rat(x):
    from fractions import Fraction
    f = Fraction(float(x)); return f'{f.numerator}/{f.denominator}'


def round6_cases(ctx, ask):
    import starsim as ss
    from harness.props.c17_timepar import NOT_UNITS
    frames = [('year', 0.25), ('year', 1.0), ('day', 2.0), ('week', 0.5), ('month', 0.5)]
    names = [None] + sorted(n for n in DOC_CANON if n not in ('unitless', 'none')) + NOT_UNITS[:6]
    for su, sdt in frames:
        try:
            sim = ss.Sim(n_agents=20, unit=su, dt=sdt, dur=4, start={'year': 2000}.get(su, '2020-01-01'), verbose=0); sim.init()
        except Exception as e:
            ctx.count('modtime_frame_exceptions'); continue
        for n in names:
            if isinstance(n, str) and (' ' in n or n == ''): continue
            for dt in (None, sdt, 3.0):
                t = None
                try:
                    t = ss.Time(unit=n, dt=dt, init=False); t.init(sim=sim)
                    impl = f'ok {t.unit if t.unit is not None else "-"} {_rat(t.dt)}'
                except Exception as e:
                    if type(e).__name__ == 'KeyNotFoundError': impl = 'E:KeyNotFound'
                    elif t is not None and t.dt is not None and t.start is not None:     # the TAIL of init (vectors; C07's part) refused this unit/dt: the head's result stands
                        impl = f'ok {t.unit if t.unit is not None else "-"} {_rat(t.dt)}'
                    else: impl = f'E:{type(e).__name__}'
                def cb(ml, impl=impl, n=n, dt=dt, su=su, sdt=sdt):
                    ok = ml[0] == impl or (ml[0].startswith('ok') and impl.startswith('ok') and ml[0].split()[1] == impl.split()[1]
                                           and _same_rat(ml[0].split()[2], impl.split()[2]))
                    ctx.case(('modtime', su, sdt, n, dt), ok, sample=dict(kind='module-timeline', unit=n, dt=dt, sim=[su, sdt], impl=impl))
                    if not ok:
                        ctx.broke('correspondence', 'C17.modtime', f'ss.Time(unit={n!r}, dt={dt!r}).init(sim with unit={su!r}, dt={sdt}): impl `{impl}` vs model `{ml[0]}`',
                                  data=dict(kind='module-time-head', unit=n, dt=dt, sim=[su, sdt]))
                ask([f'modtime {n if n is not None else "-"} {_rat(dt) if dt is not None else "-"} {su} {_rat(sdt)}'], cb)


def _same_rat(a, b):
    from fractions import Fraction
    try: return Fraction(a) == Fraction(b)
    except Exception: return a == b

# ------------------------------------------------------------------------------------------------------------------------

def search(ctx):
    from harness import zoo
    rot = ctx.rng.randint(0, 11)
    # (2) every kind x every frame, each quick run (k rotates the name/route pairing)
    for ki, kind in enumerate(KINDS):
        for fi in range(len(FRAMES)):
            if not ctx.budget(False, True) and kind != 'sis' and (ki + fi + rot) % 4 != 0:      # quick: SIS on every frame, the others on two (rotating)
                continue
            f = oracle_module_time(kind, fi, rot + ki + fi)
            ctx.count('oracle_module_time')
            if f: ctx.fail(f['signature'], f['what'], f['data'])
    # (1) the whole zoo: every entry under one variant per quick run (rotating, but entries with dt != 1 or an own timeline under ALL)
    cfgs = zoo.configs()
    n = 0
    for i, (name, cfg) in enumerate(cfgs):
        if cfg.get('own_people'): continue
        special = (cfg.get('dt', 1.0) not in (1, 1.0)) or any(any(k in m for k in impl.TIME_KEYS) for key in ('diseases', 'networks', 'demographics') for m in cfg.get(key, []))
        if ctx.budget(False, True): vs = VARIANTS
        elif special: vs = ('module-alias',) + ((('sim-alias', 'module-explicit-dt')[(i + rot) % 2],) if (i + rot) % 3 == 0 else ())   # quick: the module-level names always
        elif (i + rot) % 2: vs = (VARIANTS[(i + rot) % 3],)
        else: continue
        base = None
        for v in vs:
            if respell(cfg, v, rot + i) is None: continue
            if base is None:
                try: base = run_cfg(cfg)
                except Exception: ctx.count('zoo_units_base_exceptions'); break
            msg = oracle_zoo_units(name, cfg, v, rot + i, base)
            if msg == 'n/a': continue
            ctx.count('oracle_zoo_units'); n += 1
            if msg:
                ctx.fail(dict(oracle='sim-spellings-differ', group='unit-names'), msg, dict(kind='zoo-units', name=name, variant=v, k=rot + i))


def replay(ctx, data):
    k = data.get('kind')
    if k == 'zoo-units':
        from harness import zoo
        cfg = zoo.configs(names=[data['name']])[0][1]
        msg = oracle_zoo_units(data['name'], cfg, data['variant'], data['k'])
        if msg and msg != 'n/a': print('  ' + msg)
        return bool(msg) and msg != 'n/a'
    if k == 'module-time':
        f = oracle_module_time(data['mkind'], data['frame'], data['k'])
        if f: print('  ' + f['what'])
        return bool(f)
    return None
