"""
C19 — Ageing, parentage and pregnancy states stay mutually consistent.

correspond(): generated sims (scalar and age-specific fertility, gestation / post-partum parameters, maternal and
              neonatal death probabilities, several dt, with and without burn-in, with MaternalNet or Prenatal+PostnatalNet).
              `Pregnancy.do_step` (every burn-in call included) and `Pregnancy.finish_step` are wrapped: the complete
              state before the call (people + module arrays + maternal edges) and the observed random inputs (who
              conceived, post-partum durations, maternal-death flags, sexes, neonatal deaths) go to Model/Pregnancy.lean,
              which must predict the state after the call.  An analyzer probe sends the state of every step to the model,
              which evaluates its invariants.
search():     the invariants of the property evaluated directly on the real arrays at every step (no model), on the
              generated sims, the fixed families and EVERY entry of the shared scenario zoo (harness/zoo.py; search_zoo):
              ageing per step on all entries (ageing switched on where it is off by default), all pregnancy oracles on
              the entries with ss.Pregnancy (which correspond() also follows with the model).
"""
import math
import numpy as np
from fractions import Fraction

PROP = 'C19'
GENERATED = ['PregnancyFacts']
DRIVER = 'Drivers/C19.lean'
DRIVER_MODULES = ['StarsimModel.Model.Pregnancy', 'StarsimModel.Model.Fertility', 'StarsimModel.Model.Proto']
RULE = ('sim configurations drawn from VERIF_SEED: fertility scalar or age-specific table, dur_pregnancy and dur_postpartum, '
        'p_maternal_death / p_neonatal_death, dt in {1, 1/2, 1/4, 1/12}, burn-in on/off, MaternalNet or Prenatal+PostnatalNet, '
        'with or without Deaths; plus, on every run, histories of API operations on an INITIALISED sim (staged_families: gestation / age '
        'limits updated through sim.pars.<module>.update, module.pars.update, module.update_pars with a number, [number] or dict(v=number), '
        'right after init and in mid-run, the sim advanced by run_one_step / run(until) / run; 30% of the generated configurations carry '
        'such a script); one case = one do_step / finish_step call or one per-step snapshot replayed through the model; '
        'distinct = distinct canonical line; non-trivial = at least one woman is pregnant or post-partum')
TRUSTED = ['the wrappers of harness/props/c19.py read people / module arrays (raw storage up to uid.len_used) without writing']
ASSUMPTIONS = ['fertility rates, uniform draws (>= 0), post-partum durations, maternal-death flags, sexes, neonatal-death picks and '
               'deaths requested by other modules are arbitrary inputs of the model',
               'timers (float32 storage) are compared with relative tolerance 2e-6, ages (float accumulation) with 1e-4; the per-step '
               'age increment is compared with the step length in years (dt x unit / 365.25 days, from the configuration) within one '
               'float32 unit in the last place of the age']

TOL_T = 2e-6   # module timers are stored as float32
TOL_AGE = 1e-4


# ---------------------------------------------------------------------------
# configurations

def gen_cfg(rng, thorough=False):
    dt = rng.choice([1.0, 0.5, 0.25, 1 / 12])
    nsteps = rng.randint(5, 9 if not thorough else 20) if dt >= 0.25 else rng.randint(12, 20 if not thorough else 40)
    cfg = dict(n_agents=rng.choice([30, 60, 100]), rand_seed=rng.randint(0, 9999), dt=dt, start=2000, dur=round(dt * nsteps, 9))
    cfg['fertility'] = rng.choice([200, 500, 900, 'table'])
    cfg['dur_pregnancy'] = rng.choice([0.75, 0.75, 0.6, 1.0, 0.3])
    cfg['dur_postpartum'] = rng.choice([0.1, 0.5, 1.2])
    cfg['p_maternal_death'] = rng.choice([0, 0, 0.3])
    cfg['p_neonatal_death'] = rng.choice([0, 0.5, 1.0])
    cfg['burnin'] = rng.random() < 0.5
    cfg['nets'] = rng.choice(['maternal', 'prepost', 'prepost', 'none'])
    cfg['deaths'] = rng.choice([0, 60, 200])
    cfg['min_age'] = rng.choice([15, 20]); cfg['max_age'] = rng.choice([50, 35])
    if rng.random() < 0.3:      # a history of API operations, not only a configuration: parameters changed on the initialised sim
        cfg['script'] = [gen_action(rng, cfg, rng.choice([0, rng.randint(1, max(1, nsteps - 2))]))]
        cfg['run_mode'] = rng.choice(RUN_MODES)
    return cfg


# --- histories of API operations on an initialised sim -------------------------------------------------------------------
# cfg['script'] = [action]; an action = dict(at=k, via=..., form=..., set={parameter: new value}) is applied after sim.init()
# and after k complete sim steps (k = 0: before the first step, i.e. before the burn-in), through the documented parameter
# API.  cfg['run_mode']: how the sim is advanced to the change points (and to the end).
VIAS = ['sim-pars', 'module-pars', 'update-pars']      # sim.pars.<module>.update(..) / module.pars.update(..) / module.update_pars({..})
FORMS = ['number', 'list', 'dict']                     # Pars._update_timepar: a plain number, [number], dict(v=number)
RUN_MODES = ['one-step', 'until', 'run']               # sim.run_one_step() throughout / sim.run(until=..) in pieces / run_one_step to the last change, then sim.run()
TIME_KEYS = ('dur_pregnancy',)                         # the TimePar parameters (value in years: the unit is kept by the update)


def gen_action(rng, cfg, at):
    new = dict(dur_pregnancy=rng.choice([g for g in (0.3, 0.5, 0.6, 0.75, 1.0) if g != cfg['dur_pregnancy']]))
    r = rng.random()
    if r < 0.3: new['min_age'] = cfg['min_age'] + 5
    elif r < 0.6: new['max_age'] = cfg['max_age'] - 10
    return dict(at=int(at), via=rng.choice(VIAS), form=rng.choice(FORMS), set=new)


def staged_families(rng):
    """ Exercised on EVERY run (correspond and search): the sim is initialised first, then parameters are changed through
        the parameter API (right after init = before the burn-in, and in mid-run, shorter and longer gestation, narrower age
        limits), and the sim is advanced in pieces.  Everything derived from a parameter must follow the update: the
        expectations (`expected_pars`: a schedule) come from the script, not from the module. """
    seed = lambda: rng.randint(0, 9999)
    base = lambda **kw: dict(dict(n_agents=60, rand_seed=seed(), dt=0.25, start=2000, dur=6.0, fertility=900, dur_pregnancy=0.75,
                                  dur_postpartum=0.3, p_maternal_death=0, p_neonatal_death=0, burnin=True, nets='prepost', deaths=60,
                                  min_age=15, max_age=50), **kw)
    act = lambda at, new, **kw: dict(dict(at=at, via=rng.choice(VIAS), form=rng.choice(FORMS), set=new), **kw)
    out = []
    # every form of update (number / [number] / dict(v=number)) x {right after init (before the burn-in), mid-run} x {shorter, longer}
    # on every run; the access path rotates with the form, the run mode with the scenario
    for i, form in enumerate(FORMS):
        via = lambda k: VIAS[(i + k) % len(VIAS)]
        out += [(f'reparam-after-init-shorter-{form}', base(dt=1 / 12, dur=2.5, run_mode='run', script=[act(0, dict(dur_pregnancy=0.5), via=via(0), form=form)])),
                (f'reparam-after-init-longer-{form}', base(nets='maternal', run_mode='one-step', script=[act(0, dict(dur_pregnancy=1.0), via=via(1), form=form)])),
                (f'reparam-midrun-shorter-{form}', base(dt=1 / 12, dur=3.0, nets='maternal', run_mode='until',
                                                        script=[act(rng.randint(10, 16), dict(dur_pregnancy=0.5), via=via(2), form=form)])),
                (f'reparam-midrun-longer-narrower-{form}', base(burnin=False, run_mode='run',
                                                                script=[act(rng.randint(4, 7), dict(dur_pregnancy=1.25, min_age=20), via=via(0), form=form),
                                                                        act(rng.randint(10, 14), dict(dur_pregnancy=0.6, max_age=35), via=via(1), form=form)]))]
    out += [('reparam-each-form', base(dur=5.0, nets='none', run_mode='one-step',
                                       script=[act(2 + 5 * i, dict(dur_pregnancy=g), via=VIAS[i], form=FORMS[i]) for i, g in enumerate((0.5, 1.0, 0.3))])),
            ('stepwise-unchanged', base(run_mode='one-step', script=[])),
            ('until-unchanged', base(dt=0.5, dur=8.0, nets='maternal', run_mode='until', script=[act(5, {})]))]
    return out


# the staged families the model follows call by call in correspond() (search() runs all of them)
STAGED_CORRESPOND = ('reparam-after-init-shorter-number', 'reparam-after-init-longer-list', 'reparam-midrun-shorter-dict',
                     'reparam-midrun-longer-narrower-number', 'reparam-each-form', 'stepwise-unchanged', 'until-unchanged')


def apply_action(sim, act):
    pr = find_preg(sim)
    shape = dict(number=lambda v: v, list=lambda v: [v], dict=lambda v: dict(v=v))[act.get('form', 'number')]
    vals = {k: (shape(v) if k in TIME_KEYS else v) for k, v in act['set'].items()}
    if not vals: return
    via = act['via']
    if via == 'sim-pars': getattr(sim.pars, pr.name).update(**vals)
    elif via == 'module-pars': pr.pars.update(**vals)
    elif via == 'update-pars': pr.update_pars(dict(vals))
    else: raise ValueError(f'unknown update path {via}')


def run_scripted(sim, cfg):
    """ sim.init(), then the script of the configuration (no script and run_mode 'run': plain sim.run()) """
    sim.init()
    script = sorted(cfg.get('script') or [], key=lambda a: a['at'])
    mode = cfg.get('run_mode') or 'run'
    npts = int(sim.t.npts)
    def advance(k):      # until k sim steps are complete (never the last one: sim.run() below completes and finalizes)
        k = min(k, npts - 1)
        if mode == 'until' and int(sim.ti) < k:
            sim.run(until=sim.t.timevec[k - 1])      # the loop stops once the sim's clock has passed step k - 1
        while int(sim.ti) < k:
            sim.run_one_step()
        if int(sim.ti) != k: raise RuntimeError(f'harness: staged run is at step {int(sim.ti)}, wanted {k}')
    for a in script:
        if a['at'] >= npts - 1: continue
        advance(a['at'])
        apply_action(sim, a)
    if mode == 'one-step': advance(npts - 1)
    sim.run()      # the remaining steps and finalize()


def fixed_families(rng):
    """ Exercised on EVERY run: long histories with repeated pregnancies while older siblings and unborn children die
        (quarter-year and monthly steps), both layer layouts, burn-in on and off, scalar and age-specific fertility with
        age limits narrower than the table, maternal and neonatal deaths certain. """
    seed = lambda: rng.randint(0, 9999)
    base = lambda **kw: dict(dict(n_agents=60, rand_seed=seed(), dt=0.25, start=2000, dur=10.0, fertility=900, dur_pregnancy=0.75,
                                  dur_postpartum=0.1, p_maternal_death=0, p_neonatal_death=0, burnin=True, nets='prepost', deaths=150,
                                  min_age=15, max_age=50), **kw)
    return [('long-repeat-sibling-deaths', base()),
            ('long-repeat-maternal-layer', base(nets='maternal', burnin=False, deaths=250, p_neonatal_death=1.0, p_maternal_death=0.3)),
            ('table-narrow-age-limits', base(fertility='table', min_age=20, max_age=35, dur=6.0, deaths=0)),
            ('scalar-narrow-age-limits', base(fertility=900, min_age=20, max_age=35, dur=4.0, deaths=0, nets='none')),
            ('monthly-integer-gestation', base(dt=1 / 12, dur=2.5, dur_pregnancy=0.75, dur_postpartum=0.5, deaths=200, p_neonatal_death=0.5)),
            ('yearly-fractional-gestation', base(dt=1.0, dur=12.0, dur_pregnancy=0.75, dur_postpartum=1.2, deaths=60)),
            # a sim whose own time unit is not the year: ages are in years whatever the unit of the timeline
            ('day-unit-sim', base(unit='day', dt=30, start='2000-01-01', dur=900, dur_pregnancy=0.75, dur_postpartum=0.3, deaths=100)),
            ('week-unit-sim', base(unit='week', dt=4, start='2000-01-01', dur=120, dur_pregnancy=0.75, dur_postpartum=0.3, deaths=0, nets='maternal'))]


def build_sim(cfg, analyzer=None):
    import starsim as ss, pandas as pd
    fert = cfg['fertility']
    if fert == 'table':
        rows = []
        for year in (1990, 2030):
            for age, v in ((0, 0), (15, 300), (25, 700), (35, 400), (45, 50)):
                rows.append(dict(Time=year, AgeGrp=age, ASFR=v))
        fert = pd.DataFrame(rows)
    kw = dict(fertility_rate=fert, burnin=cfg['burnin'], dur_pregnancy=ss.years(cfg['dur_pregnancy']),
              dur_postpartum=ss.lognorm_ex(mean=ss.years(cfg['dur_postpartum']), std=ss.years(0.3 * cfg['dur_postpartum'])),
              min_age=cfg['min_age'], max_age=cfg['max_age'])
    if cfg.get('unit'): kw.update(unit=cfg['unit'], dt=cfg['dt'])   # the module on the sim's own timeline (its default unit is the year)
    if cfg['p_maternal_death']: kw['p_maternal_death'] = ss.bernoulli(cfg['p_maternal_death'])
    if cfg['p_neonatal_death']: kw['p_neonatal_death'] = ss.bernoulli(cfg['p_neonatal_death'])
    dem = [ss.Pregnancy(**kw)]
    if cfg['deaths']: dem.append(ss.Deaths(death_rate=cfg['deaths']))
    nets = [ss.RandomNet(n_contacts=2)]
    if cfg['nets'] == 'maternal': nets.append(ss.MaternalNet())
    if cfg['nets'] == 'prepost': nets += [ss.PrenatalNet(), ss.PostnatalNet()]
    pars = dict(n_agents=cfg['n_agents'], rand_seed=cfg['rand_seed'], dt=cfg['dt'], start=cfg['start'], dur=cfg['dur'],
                networks=nets, demographics=dem, diseases=[ss.SIS(beta=0.05, init_prev=0.05)], verbose=0)
    if cfg.get('unit'): pars['unit'] = cfg['unit']
    if analyzer is not None: pars['analyzers'] = [analyzer]
    return ss.Sim(**pars)


# ---------------------------------------------------------------------------
# snapshots

def find_preg(sim):
    import starsim as ss
    return [m for m in sim.demographics.values() if isinstance(m, ss.Pregnancy)][0]


def layers(sim):
    import starsim as ss
    pre = [n for n in sim.networks.values() if isinstance(n, ss.Network) and n.prenatal]
    post = [n for n in sim.networks.values() if isinstance(n, ss.Network) and n.postnatal]
    return (pre[0] if pre else None), (post[0] if post else None)


def edges_of(net):
    if net is None: return []
    e = net.edges
    return [(int(a), int(b), float(be), float(d), float(s), float(t)) for a, b, be, d, s, t in
            zip(e.p1, e.p2, e.beta, e.dur, e.start, e['end'])]


def snapshot(sim):
    ppl = sim.people; pr = find_preg(sim)
    n = int(ppl.uid.len_used)
    au = set(int(u) for u in ppl.auids)
    def raw(arr): return np.asarray(arr.raw[:n]).copy()
    pre, post = layers(sim)
    return dict(n=n, active=np.array([u in au for u in range(n)]), alive=raw(ppl.alive).astype(bool), female=raw(ppl.female).astype(bool),
                age=raw(ppl.age).astype(float), parent=raw(ppl.parent), ptd=raw(ppl.ti_dead).astype(float),
                fecund=raw(pr.fecund).astype(bool), pregnant=raw(pr.pregnant).astype(bool), postpartum=raw(pr.postpartum).astype(bool),
                child=raw(pr.child_uid).astype(float), tipreg=raw(pr.ti_pregnant).astype(float), tidel=raw(pr.ti_delivery).astype(float),
                tipp=raw(pr.ti_postpartum).astype(float), timd=raw(pr.ti_dead).astype(float), durpp=raw(pr.dur_postpartum).astype(float),
                pre=edges_of(pre), post=edges_of(post), has_pre=pre is not None, has_post=post is not None)


def pars_of(sim):
    pr = find_preg(sim)
    g = float(np.full(1, fill_value=pr.pars.dur_pregnancy)[0])
    gy = float(np.full(1, fill_value=pr.pars.dur_pregnancy.to('year'))[0])
    return dict(g=g, gy=gy, dty=float(sim.t.dt_year), minage=float(pr.pars.min_age), maxage=float(pr.pars.max_age))


def make_recorder():
    import starsim as ss

    class Probe(ss.Analyzer):
        def __init__(self):
            super().__init__()
            self.snaps = []
        def step(self):
            self.snaps.append((int(self.sim.ti), snapshot(self.sim)))
    return Probe()


class Recorder:
    def __init__(self): self.events = []

    def __enter__(self):
        import starsim as ss
        P = ss.Pregnancy; rec = self
        self.saved = [(P, 'do_step', P.do_step), (P, 'finish_step', P.finish_step), (P, 'make_pregnancies', P.make_pregnancies)]
        orig_do, orig_fin, orig_mp = P.do_step, P.finish_step, P.make_pregnancies
        cur = {}

        def mp(self):
            out = orig_mp(self)
            cur['conceive'] = [int(u) for u in out]
            return out

        def do_step(self):
            sim = self.sim
            pre = snapshot(sim); ti = int(self.ti); simti = int(sim.ti)
            cur['conceive'] = []
            err = None
            try:
                return orig_do(self)
            except ValueError as e:
                err = str(e); raise
            finally:
                rec.events.append(dict(op='dostep', ti=ti, simti=simti, pre=pre, post=snapshot(sim), conceive=list(cur['conceive']), err=err,
                                       pars=pars_of(sim)))

        def finish_step(self):
            sim = self.sim
            pre = snapshot(sim); ti = int(self.ti)
            out = orig_fin(self)
            rec.events.append(dict(op='finish', ti=ti, pre=pre, post=snapshot(sim), pars=pars_of(sim)))
            return out

        orig_fp = P.__dict__['make_fertility_prob_fn']
        self.saved.append((P, 'make_fertility_prob_fn', orig_fp))
        fp_func = orig_fp.__func__ if isinstance(orig_fp, staticmethod) else orig_fp

        def fert_prob(self, sim, uids):
            out = fp_func(self, sim, uids)
            try:
                import sciris as sc, starsim as ss
                frd = self.fertility_rate_data
                ppl = sim.people
                rec_ = dict(op='fertprob', ti=int(self.ti), ages=np.asarray(ppl.age[uids], dtype=float).copy(),
                            fecund=np.asarray(self.fecund[uids]).astype(bool).copy(),
                            iages=np.asarray(ppl.age[~self.fecund], dtype=float).copy() if (~self.fecund).any() else np.array([]),
                            units=float(self.pars.rate_units * self.pars.rel_fertility), minage=float(self.pars.min_age), maxage=float(self.pars.max_age),
                            out=np.asarray(out, dtype=float).copy())
                tf = float(ss.time_ratio(unit1=self.t.unit, dt1=self.t.dt, unit2='year', dt2=1.0))
                if sc.isnumber(frd):
                    rec_.update(kind='scalar', r=float(frd), tf=1.0 if isinstance(frd, ss.TimePar) else tf, target=0.0)
                else:
                    rec_.update(kind='table', bins=np.asarray(frd.columns.values, dtype=float), years=np.asarray(frd.index.values, dtype=float),
                                rows=np.asarray(frd.values, dtype=float), tf=tf,
                                target=float(self.t.now('year') - self.pars.dur_pregnancy.to('year')))
                rec.events.append(rec_)
            except Exception as e:
                rec.events.append(dict(op='fertprob-error', err=f'{type(e).__name__}: {e}'))
            return out

        P.do_step = do_step; P.finish_step = finish_step; P.make_pregnancies = mp
        P.make_fertility_prob_fn = staticmethod(fert_prob)
        return self

    def __exit__(self, *a):
        for cls, name, orig in self.saved: setattr(cls, name, orig)


def run_recorded(cfg, zoo=False):
    """ zoo=True: cfg is in harness/impl.py format (an entry of harness/zoo.py with an ss.Pregnancy module) """
    probe = make_recorder()
    with Recorder() as rec:
        if zoo:
            from harness import impl
            sim = impl.build_sim(cfg, extra_analyzers=[probe])
        else:
            sim = build_sim(cfg, probe)
        run_scripted(sim, cfg)
    return sim, rec.events, find_probe(sim).snaps


def find_probe(sim):
    return [a for a in sim.analyzers.values() if hasattr(a, 'snaps')][0]


# ---------------------------------------------------------------------------
# protocol

def frac(x):
    x = float(x)
    p, q = x.as_integer_ratio()
    return f'{p}/{q}' if q != 1 else str(p)


def ofrac(x):
    return 'x' if (x != x) else frac(x)


def onat(x):
    x = float(x)
    if x != x or x < 0 or x > 1e15: return 'x'   # IndexArr nan is a large negative integer / NaN
    return str(int(x))


def lst(xs, f):
    xs = list(xs)
    return ','.join(f(x) for x in xs) if xs else '-'


def b01(x): return '1' if x else '0'


def state_kv(s):
    e = lambda es: ';'.join(':'.join([str(a), str(b), frac(be), frac(d), frac(st), frac(sp)]) for a, b, be, d, st, sp in es) if es else '-'
    return ['active=' + lst(s['active'], b01), 'alive=' + lst(s['alive'], b01), 'female=' + lst(s['female'], b01), 'age=' + lst(s['age'], frac),
            'parent=' + lst(s['parent'], onat), 'ptd=' + lst(s['ptd'], ofrac), 'fecund=' + lst(s['fecund'], b01),
            'pregnant=' + lst(s['pregnant'], b01), 'postpartum=' + lst(s['postpartum'], b01), 'child=' + lst(s['child'], onat),
            'tipreg=' + lst(s['tipreg'], ofrac), 'tidel=' + lst(s['tidel'], ofrac), 'tipp=' + lst(s['tipp'], ofrac),
            'timd=' + lst(s['timd'], ofrac), 'durpp=' + lst(s['durpp'], ofrac), 'pre=' + e(s['pre']), 'post=' + e(s['post'])]


def pars_kv(p, s):
    return [f"g={frac(p['g'])}", f"gy={frac(p['gy'])}", f"dty={frac(p['dty'])}", f"minage={frac(p['minage'])}", f"maxage={frac(p['maxage'])}",
            f"prenatal={b01(s['has_pre'])}", f"postnatal={b01(s['has_post'])}"]


def parse_state(line):
    out = {}
    for p in line.split()[1:]:
        k, v = p.split('=', 1)
        out[k] = v
    return out


def cmp_list(mv, obs, kind, tol=0.0):
    """ compare one model list (string) with observed values; kind: bool / onat / orat / rat """
    ms = [] if mv == '-' else mv.split(',')
    obs = list(obs)
    if len(ms) != len(obs): return f'length {len(ms)} vs {len(obs)}'
    for i, (m, o) in enumerate(zip(ms, obs)):
        if kind == 'bool':
            if (m == '1') != bool(o): return f'uid {i}: model {m} observed {int(bool(o))}'
        elif kind == 'onat':
            if m != onat(o): return f'uid {i}: model {m} observed {onat(o)}'
        else:
            on = (o != o)
            if (m == 'x') != on: return f'uid {i}: model {m} observed {o}'
            if not on and abs(float(Fraction(m)) - float(o)) > tol * (1 + abs(float(o))): return f'uid {i}: model {float(Fraction(m))} observed {o}'
    return None


def cmp_edges(mv, obs):
    ms = [] if mv == '-' else [e.split(':') for e in mv.split(';')]
    if len(ms) != len(obs): return f'{len(ms)} edges vs {len(obs)} observed'
    for m, o in zip(ms, obs):
        if int(m[0]) != o[0] or int(m[1]) != o[1]: return f'edge {m[0]}-{m[1]} vs observed {o[0]}-{o[1]}'
        for j in (2, 3, 4, 5):
            if abs(float(Fraction(m[j])) - o[j]) > TOL_T * (1 + abs(o[j])): return f'edge {o[0]}-{o[1]}: field {j} model {float(Fraction(m[j]))} observed {o[j]}'
    return None


FIELDS = [('active', 'bool', 0), ('alive', 'bool', 0), ('female', 'bool', 0), ('age', 'rat', TOL_AGE), ('parent', 'onat', 0), ('ptd', 'orat', TOL_T),
          ('fecund', 'bool', 0), ('pregnant', 'bool', 0), ('postpartum', 'bool', 0), ('child', 'onat', 0), ('tipreg', 'orat', TOL_T),
          ('tidel', 'orat', TOL_T), ('tipp', 'orat', TOL_T), ('timd', 'orat', TOL_T), ('durpp', 'orat', TOL_T)]


def compare_state(ml, post):
    if not ml.startswith('ok '): return f'model answered {ml}'
    m = parse_state(ml)
    for k, kind, tol in FIELDS:
        d = cmp_list(m[k], post[k], kind, tol)
        if d: return f'{k}: {d}'
    for k in ('pre', 'post'):
        d = cmp_edges(m[k], post[k])
        if d: return f'{k}natal layer: {d}'
    return None


def fracinf(x):
    x = float(x)
    if x == float('inf'): return '1000000000000'
    if x == float('-inf'): return '-1000000000000'
    return frac(x)


def fert_line(ev):
    kv = ['fertprob', f"kind={ev['kind']}", f"target={frac(ev['target'])}", f"units={frac(ev['units'])}", f"tf={frac(ev['tf'])}",
          f"minage={frac(ev['minage'])}", f"maxage={frac(ev['maxage'])}", 'ages=' + lst(ev['ages'], frac), 'fecundl=' + lst(ev['fecund'], b01),
          'wages=' + lst(ev['ages'], frac), 'iages=' + lst(ev['iages'], frac)]
    if ev['kind'] == 'scalar':
        kv.append(f"r={frac(ev['r'])}")
    else:
        kv += ['bins=' + lst(ev['bins'], fracinf), 'years=' + lst(ev['years'], fracinf), 'rows=' + ';'.join(lst(r, frac) for r in ev['rows'])]
    return ' '.join(kv)


def fert_compare(ml, ev):
    if not ml.startswith('ok'): return f'model answered {ml[:100]}'
    ms = [] if ml.strip() in ('ok', 'ok -') else ml.split()[1].split(',')
    if len(ms) != len(ev['out']): return f"{len(ms)} probabilities vs {len(ev['out'])}"
    for i, (m, o) in enumerate(zip(ms, ev['out'])):
        if abs(float(Fraction(m)) - float(o)) > 2e-6 * (1 + abs(float(o))):   # the code computes in its float dtype (float32)
            return f"woman #{i} (age {ev['ages'][i]:.2f}, fecund={bool(ev['fecund'][i])}): model {float(Fraction(m)):.6g}, code {float(o):.6g}"
    return None


def event_line(ev):
    pre, post = ev['pre'], ev['post']
    if ev['op'] == 'dostep':
        con = ev['conceive']
        n0 = pre['n']
        new = list(range(n0, post['n']))
        girls = [bool(post['female'][u]) for u in new]
        # inputs read back from the arrays after the call
        cdur = [float(post['durpp'][m]) if post['durpp'][m] == post['durpp'][m] else 0.0 for m in con]
        md = [bool(post['timd'][m] == post['timd'][m] and not (pre['timd'][m] == pre['timd'][m] and pre['timd'][m] == post['timd'][m])) for m in con]
        # girls aligned with mothers in the order of conceive_uids (new uids are assigned in that order)
        return ' '.join(['dostep', f"ti={ev['ti']}", f"simti={ev['simti']}"] + pars_kv(ev['pars'], pre) + state_kv(pre) +
                        ['conceive=' + lst(con, str), 'cdurpp=' + lst(cdur, frac), 'matdead=' + lst(md, b01), 'girl=' + lst(girls, b01)])
    if ev['op'] == 'finish':
        n = pre['n']
        neo = [u for u in range(n) if (post['ptd'][u] == post['ptd'][u]) and not (pre['ptd'][u] == pre['ptd'][u])]
        # Module.finish_step has already incremented ti when the body runs: ev['ti'] is the step being finished
        return ' '.join(['finish', f"ti={ev['ti']}"] + state_kv(pre) + ['neo=' + lst(neo, str)])


# ---------------------------------------------------------------------------
# oracle on the real arrays

def oracle_snapshot(ti, s):
    fails = []
    n = s['n']
    tri = s['fecund'].astype(int) + s['pregnant'].astype(int) + s['postpartum'].astype(int)
    bad = [u for u in range(n) if tri[u] != 1]
    if bad:
        u = bad[0]
        fails.append((dict(oracle='exclusive'), f"ti={ti}: agent {u} has fecund={bool(s['fecund'][u])} pregnant={bool(s['pregnant'][u])} postpartum={bool(s['postpartum'][u])} ({len(bad)} agents not in exactly one state)"))
    for u in range(n):
        if s['pregnant'][u] and (not s['female'][u] or s['age'][u] < 0):
            fails.append((dict(oracle='pregnant-female-born'), f"ti={ti}: agent {u} is pregnant but {'male' if not s['female'][u] else 'unborn'}")); break
    for m in range(n):
        c = s['child'][m]
        if c == c:
            c = int(c)
            if c >= n or onat(s['parent'][c]) != str(m):
                fails.append((dict(oracle='links'), f"ti={ti}: child_uid[{m}] = {c} but parent[{c}] = {onat(s['parent'][c]) if c < n else 'out of range'}")); break
            if not (s['pregnant'][m] or s['postpartum'][m]):
                fails.append((dict(oracle='links-lifetime'), f"ti={ti}: agent {m} keeps child link {c} although neither pregnant nor post-partum")); break
        elif s['pregnant'][m] and s['active'][m]:
            fails.append((dict(oracle='links'), f"ti={ti}: agent {m} is pregnant without a child link")); break
    for c in range(n):
        if s['active'][c] and s['alive'][c] and s['age'][c] < -TOL_AGE:
            m = onat(s['parent'][c])
            if m == 'x':
                fails.append((dict(oracle='unborn-has-mother'), f"ti={ti}: unborn agent {c} (age {s['age'][c]:.3f}) has no parent")); break
            m = int(m)
            if s['active'][m] and s['alive'][m] and not (s['pregnant'][m] and onat(s['child'][m]) == str(c)):
                delivered = bool(s['postpartum'][m] and onat(s['child'][m]) == str(c))    # run_oracle relates it to the age at delivery
                fails.append((dict(oracle='unborn-has-pregnant-mother'),
                              f"ti={ti}: unborn agent {c} (age {s['age'][c]:.3f}) is alive but its living mother {m} is not pregnant with it (pregnant={bool(s['pregnant'][m])}, child_uid={onat(s['child'][m])})", dict(delivered_child=c) if delivered else None)); break
    if s['has_pre']:
        live = [(a, b) for (a, b, be, d, st, sp) in s['pre'] if be > 0]
        preg = sorted(int(u) for u in range(n) if s['pregnant'][u] and s['active'][u])
        exp = sorted((m, int(s['child'][m])) for m in preg if s['child'][m] == s['child'][m])
        if sorted(live) != exp:
            extra = sorted(set(live) - set(exp)); missing = sorted(set(exp) - set(live))
            dup = len(live) != len(set(live))
            fails.append((dict(oracle='prenatal-edges'), f"ti={ti}: prenatal edges with positive beta {sorted(live)[:6]} differ from the current pregnancies {exp[:6]} (extra {extra[:3]}, missing {missing[:3]}{', duplicated edges' if dup else ''})"))
    if s['has_post']:
        for (a, b, be, d, st, sp) in s['post']:
            if onat(s['parent'][b]) != str(a):
                fails.append((dict(oracle='postnatal-edges'), f"ti={ti}: postnatal edge {a}-{b} does not join a mother and her child")); break
            if s['pregnant'][a] and s['child'][a] == b:
                fails.append((dict(oracle='postnatal-edges'), f"ti={ti}: postnatal edge {a}-{b} although {a} is still pregnant with {b}")); break
    return fails


DAYS = dict(day=1.0, week=7.0, month=30.4375, year=365.25)   # starsim's documented unit lengths (a year is 365.25 days)


def step_years(cfg):
    """ the step length of the SIMULATION in years, from the configuration alone (own and impl.py format: unit, dt) """
    return float(cfg.get('dt', 1.0)) * DAYS[cfg.get('unit') or 'year'] / DAYS['year']


def age_tol(*ages):
    """ ages live in float32 storage: one addition rounds by at most half a unit in the last place of the result """
    return float(np.spacing(np.float32(max(abs(float(a)) for a in ages)))) + 1e-9


def ageing_fails(pti, ps, ti, s, dty):
    """ every agent alive at the analyzer call of step pti and of step ti = pti + 1 aged by the step length in years
        (ageing happens at the end of step pti, after the deaths of that step were resolved) """
    for u in range(ps['n']):
        if ps['alive'][u] and s['alive'][u] and ps['active'][u]:
            d = s['age'][u] - ps['age'][u]
            if abs(d - dty) > age_tol(s['age'][u], ps['age'][u]):
                return [(dict(oracle='ageing'), f"agent {u} aged {d:.7f} between ti={pti} and ti={ti}; the step is {dty:.7f} years")]
    return []


def pars_at(pars, simti):
    """ the expectations in force during sim step `simti`: the base values overridden by every script action applied before it """
    sched = pars.get('sched')
    if not sched: return pars
    out = dict(pars)
    for at, kv in sched:
        if at <= simti: out.update(kv)
    return out


def expected_pars(cfg, zoo, code, npts=None):
    """ step lengths, gestation and age limits re-derived from the configuration (not read back from the module) wherever
        the configuration determines them.  dty = step of the SIMULATION in years (the clock of ageing), dtm = step of the
        PREGNANCY MODULE in years (the clock that counts gestation, ti_pregnant / ti_delivery and the burn-in steps),
        gy = gestation in years, g = gestation in module steps.  Own-format configurations put the module on the simulation's
        timeline.  Zoo format: `dt` / `unit` of the pregnancy dict give the module's own timeline (ss.Pregnancy's unit defaults
        to the year), `dur_pregnancy=(value, unit)` the gestation (default ss.years(0.75)).  Where the module's step cannot be
        told from the configuration (non-year sim without an explicit module dt) the module's own report (`code`) is kept. """
    p = dict(code)
    p['dty'] = step_years(cfg); p['dtm'] = p['dty']
    if not zoo:
        gy, lo, hi = float(cfg['dur_pregnancy']), float(cfg['min_age']), float(cfg['max_age'])
        p.update(gy=gy, g=gy / p['dtm'], minage=lo, maxage=hi)
        sched = []
        for a in sorted(cfg.get('script') or [], key=lambda a: a['at']):
            if npts is not None and a['at'] >= npts - 1: continue        # run_scripted does not apply it either
            kv = {}
            for k, v in a['set'].items():
                if k == 'dur_pregnancy': kv.update(gy=float(v), g=float(v) / p['dtm'])     # a number keeps the unit of the parameter (years)
                elif k == 'min_age': kv['minage'] = float(v)
                elif k == 'max_age': kv['maxage'] = float(v)
            sched.append((int(a['at']), kv))
        if sched: p['sched'] = sched
        return p
    d = [x for x in cfg.get('demographics', []) if x.get('type') == 'pregnancy'][0]
    p.update(minage=15.0, maxage=50.0)          # the documented defaults
    gy = 0.75
    if 'dur_pregnancy' in d:
        v, u = d['dur_pregnancy']; gy = float(v) * DAYS[u] / DAYS['year']
    munit = d.get('unit') or 'year'
    if d.get('dt') is not None: mdt = float(d['dt'])
    elif munit == (cfg.get('unit') or 'year'): mdt = float(cfg.get('dt', 1.0))
    else:
        p['dtm'] = code['gy'] / code['g'] if code['g'] else p['dty']      # as the module reports it
        return p
    p['dtm'] = mdt * DAYS[munit] / DAYS['year']
    p.update(gy=gy, g=gy / p['dtm'])
    return p


OWN_CLOCK = 'pregnancy-dt-differs-from-sim-dt'
SIG_BURNIN_SHIFT = dict(oracle='newborn-age', timeline=OWN_CLOCK, asis='burn-in-shift-by-sim-dt')
SIG_LUMPED_AGEING = dict(oracle='age-at-delivery', timeline=OWN_CLOCK, asis='embryo-aged-once-per-sim-step')


def oracle_history(cfg, events, snaps, pars):
    fails = []
    dty = pars['dty']; dtm = pars.get('dtm', dty)
    base_pars = pars
    own_clock = abs(dtm - dty) > 1e-12          # the module steps on a timeline of its own
    created = {}                                # child -> (module step of conception, sim.ti at that call)
    # the module's clock at every analyzer call: the last module step executed so far (ev['ti'] counts module steps, the
    # snapshots are taken once per SIMULATION step)
    dosteps = [(ev['simti'], ev['ti']) for ev in events if ev['op'] == 'dostep']
    def mti_at(simti):
        l = [t for st, t in dosteps if st <= simti]
        return max(l) if l else simti
    # conception eligibility (state before the call that conceived)
    for ev in events:
        if ev['op'] != 'dostep' or ev.get('err'): continue
        pre = ev['pre']
        pars = pars_at(base_pars, ev['simti'])        # the parameters in force at this call (changed by the script of the configuration)
        # update_states runs first inside do_step: evaluate eligibility on the flags after update_states = post flags of non-conceivers;
        # fecund-before is judged leniently: a woman delivering/ending post-partum in this very call is excluded below
        for m in ev['conceive']:
            why = None
            if m >= pre['n'] or not pre['active'][m]: why = 'not an active agent'
            elif not pre['female'][m]: why = 'male'
            elif not pre['alive'][m]: why = 'dead'
            elif pre['age'][m] < pars['minage'] - TOL_AGE or pre['age'][m] > pars['maxage'] + TOL_AGE: why = f"aged {pre['age'][m]:.2f}, outside [{pars['minage']:g}, {pars['maxage']:g}]"
            elif pre['pregnant'][m] and not (pre['tidel'][m] <= ev['ti']): why = 'already pregnant'
            elif pre['postpartum'][m] and not (pre['tipp'][m] <= ev['ti']): why = 'post-partum (not fecund)'
            elif pre['pregnant'][m] and pre['tidel'][m] <= ev['ti'] and not (pre['tipp'][m] <= ev['ti']): why = 'delivering in this step (post-partum)'
            if why:
                fails.append((dict(oracle='conception-eligible'), f"do_step ti={ev['ti']}: agent {m} conceived although {why}")); break
        # one mother per new agent
        post = ev['post']
        new = list(range(pre['n'], post['n']))
        if len(new) != len(ev['conceive']):
            fails.append((dict(oracle='one-child-per-conception'), f"do_step ti={ev['ti']}: {len(ev['conceive'])} conceptions but {len(new)} new agents"))
        for c, m in zip(new, ev['conceive']):
            if onat(post['parent'][c]) != str(m) or onat(post['child'][m]) != str(c):
                fails.append((dict(oracle='links'), f"do_step ti={ev['ti']}: new agent {c}: parent {onat(post['parent'][c])}, mother {m} has child_uid {onat(post['child'][m])}")); break
            created[c] = (ev['ti'], ev['simti'])
            # a burn-in conception at module step ti < 0 happened |ti| MODULE steps before the start
            exp_age = -pars['gy'] + (-ev['ti'] * dtm if ev['ti'] < 0 else 0)
            if abs(post['age'][c] - exp_age) > TOL_AGE:
                asis = -pars['gy'] + (-ev['ti'] * dty if ev['ti'] < 0 else 0)     # demographics.py make_embryos: -ti * sim.t.dt_year
                sig = dict(SIG_BURNIN_SHIFT) if (own_clock and ev['ti'] < 0 and abs(post['age'][c] - asis) <= TOL_AGE) else dict(oracle='newborn-age')
                fails.append((sig, f"do_step ti={ev['ti']}: embryo {c} has age {post['age'][c]:.4f}, expected {exp_age:.4f} (-gestation"
                                   f"{f' + {-ev[chr(116)+chr(105)]} module steps of {dtm:.4f} years before the start' if ev['ti'] < 0 else ''})")); break
    # delivery time, age at delivery, ageing, postnatal lifetime
    prev = None; conc = {}; post_live = {}
    pars = base_pars
    known_children = pars.setdefault('_lumped_children', set())
    for ti, s in snaps:
        n = s['n']
        for m in range(n):
            if s['pregnant'][m] and s['tipreg'][m] == s['tipreg'][m]:
                conc[m] = s['tipreg'][m]
        if prev is not None:
            pti, ps = prev
            for m in range(ps['n']):
                if ps['pregnant'][m] and not s['pregnant'][m] and s['postpartum'][m] and s['active'][m]:
                    tc = conc.get(m)
                    if tc is not None:
                        # the gestation in force when this pregnancy was conceived (a script only occurs on the sim's own clock,
                        # where module step = sim step; burn-in conceptions at tc < 0 happen during sim step 0)
                        g = pars_at(base_pars, max(int(math.floor(tc + 1e-6)), 0))['g']
                        # gestation is counted on the module's clock: the delivery step lies among the module steps executed
                        # since the previous analyzer call (same timeline: exactly the step ti)
                        exp = max(math.ceil(tc + g - 1e-9), 0); lo, hi = mti_at(pti), mti_at(ti)
                        if not (lo < exp <= hi):
                            fails.append((dict(oracle='delivery-time'), f"agent {m} conceived at ti={tc} with gestation {g:.4f} steps delivered at "
                                          f"{f'ti={ti}' if (lo, hi) == (pti, ti) else f'a module step in ({lo}, {hi}] (sim ti={ti})'}, expected {exp}"))
                        c = s['child'][m]
                        if c == c:
                            c = int(c); age = s['age'][c]
                            # delivery = gestation rounded up to a module step; seen at the next analyzer call: below one step of either clock
                            bound = max(dty, dtm)
                            if not (-TOL_AGE <= age < bound + TOL_AGE):
                                sig = dict(oracle='age-at-delivery')
                                if own_clock and c in created:
                                    # what the code does: embryo at -gestation (+ |ti| SIM steps in burn-in), then one sim step of age per
                                    # simulation step, whatever happened on the module's finer clock in between
                                    tcm, st0 = created[c]
                                    asis = -pars['gy'] + (-tcm * dty if tcm < 0 else 0) + dty * (ti - st0)
                                    if abs(age - asis) <= TOL_AGE: sig = dict(SIG_LUMPED_AGEING); known_children.add(c)
                                fails.append((sig, f"child {c} of {m} is {age:.4f} years old at delivery (ti={ti}); expected within one step ({bound:.4f}) of 0"))
                if ps['pregnant'][m] and ps['active'][m] and s['active'][m] and ps['tidel'][m] == ps['tidel'][m] and ps['tidel'][m] <= pti - 1e-9 and False:
                    pass
            fails += ageing_fails(pti, ps, ti, s, dty)
        # overdue pregnancies: pregnant with ti_delivery <= ti after the step's update_states
        for m in range(n):
            if s['pregnant'][m] and s['active'][m] and s['tidel'][m] == s['tidel'][m] and s['tidel'][m] <= mti_at(ti) - 1e-9:
                fails.append((dict(oracle='delivery-time'), f"ti={ti}: agent {m} is still pregnant although ti_delivery = {s['tidel'][m]:.3f}")); break
        for (a, b, be, d, st, sp) in s['post']:
            if be > 0: post_live[(a, b)] = post_live.get((a, b), []) + [(ti, d)]
        prev = (ti, s)
    for (a, b), l in post_live.items():
        d = l[0][1]
        if len(l) >= d + 1 + 1e-9:
            fails.append((dict(oracle='postnatal-lifetime'), f"postnatal edge {a}-{b} had positive beta during {len(l)} steps; its duration is {d:.3f} steps (must be < duration + 1)")); break
    return fails


def run_oracle(cfg, zoo=False):
    sim, events, snaps = run_recorded(cfg, zoo=zoo)
    pars = expected_pars(cfg, zoo, pars_of(sim), npts=int(sim.t.npts))
    hist = oracle_history(cfg, events, snaps, pars)
    fails = []
    for ti, s in snaps:
        for f in oracle_snapshot(ti, s):
            sig, what, extra = (tuple(f) + (None,))[:3]
            # a child already delivered (mother post-partum, link intact) that still has a negative age is the age-at-delivery
            # violation seen from the child's side; where that delivery was attributed to the module-clock finding, so is this
            if extra and extra.get('delivered_child') in pars.get('_lumped_children', ()):
                continue      # reported once, by oracle_history, with the module-clock signature
            fails.append((sig, what))
    fails += hist
    out = []; seen = set()
    for sig, what in fails:
        k = tuple(sorted(sig.items()))
        if k in seen: continue
        seen.add(k); out.append((sig, what))
    return out


# ---------------------------------------------------------------------------
# the shared scenario zoo (harness/zoo.py, harness/impl.py configuration format)

def has_pregnancy(cfg):
    return any(d.get('type') == 'pregnancy' for d in cfg.get('demographics', []))


def zoo_entries():
    """ [(name, cfg)]: every entry of the zoo, with ageing enabled.  Entries with a demographics module age by default and
        run unchanged; the others (ageing is off by default without demographics) run with the documented sim parameter
        use_aging=True, so that the ageing clause is evaluated for every unit / dt / start / own-timeline combination
        of the zoo (a sim with ageing off is outside the property: "with ageing enabled"). """
    from harness import zoo
    out = []
    for name, cfg in zoo.configs():
        if not cfg.get('demographics') and cfg.get('use_aging') is None:
            cfg['use_aging'] = True
        out.append((name, cfg))
    return out


def people_snapshot(sim):
    ppl = sim.people
    n = int(ppl.uid.len_used)
    au = set(int(u) for u in ppl.auids)
    return dict(n=n, active=np.array([u in au for u in range(n)]), alive=np.asarray(ppl.alive.raw[:n]).astype(bool),
                age=np.asarray(ppl.age.raw[:n]).astype(float), parent=np.asarray(ppl.parent.raw[:n]).copy())


def run_zoo_plain(cfg):
    """ an entry WITHOUT ss.Pregnancy: ageing per step of every living agent, and agents created during the run (Births)
        enter at age zero.  -> (fails, aged: ageing was on) """
    import starsim as ss
    from harness import impl

    class AgeProbe(ss.Analyzer):
        def __init__(self):
            super().__init__()
            self.snaps = []
        def step(self):
            self.snaps.append((int(self.sim.ti), people_snapshot(self.sim)))

    sim = impl.build_sim(cfg, extra_analyzers=[AgeProbe()])
    sim.init()
    if not sim.pars.use_aging: return [], False
    n0 = int(sim.people.uid.len_used)
    sim.run()
    snaps = find_probe(sim).snaps
    dty = step_years(cfg)
    fails = []; prev = None; known = n0
    for ti, s in snaps:
        if prev is not None:
            fails += ageing_fails(prev[0], prev[1], ti, s, dty)
        for u in range(known, s['n']):      # created in this step, seen before the end-of-step ageing
            if s['alive'][u] and s['active'][u] and abs(s['age'][u]) > 1e-9:
                fails.append((dict(oracle='newborn-age'), f"ti={ti}: agent {u} created by a birth in this step has age {s['age'][u]:.5f}, expected 0")); break
        known = s['n']; prev = (ti, s)
    out = []; seen = set()
    for sig, what in fails:
        k = tuple(sorted(sig.items()))
        if k not in seen: seen.add(k); out.append((sig, what))
    return out, True


def harness_exception(e):
    """ was the exception raised by this module's own code (not by the simulation under test)? """
    tb = e.__traceback__; last = None
    while tb is not None: last = tb; tb = tb.tb_next
    import os
    here = os.path.dirname(os.path.dirname(os.path.abspath(__file__)))      # .../harness
    return last is not None and os.path.abspath(last.tb_frame.f_code.co_filename).startswith(here)


def run_zoo(cfg):
    if has_pregnancy(cfg): return run_oracle(cfg, zoo=True)
    return run_zoo_plain(cfg)[0]


def search_zoo(ctx):
    """ every zoo entry, one run each: the ageing clause for all; all pregnancy oracles (exclusive states, links, conception
        eligibility, delivery timing, ages, prenatal / postnatal edges) for the entries with ss.Pregnancy """
    for name, cfg in zoo_entries():
        data = dict(kind='zoo', name=name, cfg=cfg)
        try:
            if has_pregnancy(cfg):
                fails = run_oracle(cfg, zoo=True); ctx.count('zoo_pregnancy_runs')
            else:
                fails, aged = run_zoo_plain(cfg)
                if not aged: ctx.count('zoo_ageing_off'); continue
        except Exception as e:
            if has_pregnancy(cfg) and not harness_exception(e):
                # the unchanged zoo runs to completion; ss.Pregnancy raises when its own book-keeping is inconsistent
                ctx.fail(dict(oracle='sim-raises', error=type(e).__name__), f'[zoo:{name}] sim raised {type(e).__name__}: {str(e)[:300]}', data)
            else:
                ctx.count('zoo_exceptions'); ctx.notes['last_zoo_exception'] = f'{name}: {type(e).__name__}: {e}'
            continue
        ctx.count('zoo_runs')
        for sig, what in fails:
            ctx.fail(sig, f'[zoo:{name}] ' + what, data)


# ---------------------------------------------------------------------------

def correspond(ctx):
    nsims = ctx.budget(10, 70)
    max_lines = ctx.budget(1100, 6000) + 160      # + the pregnancy entries of the zoo
    lines = []; meta = []
    staged = [(nm, c) for nm, c in staged_families(ctx.rng) if nm in STAGED_CORRESPOND]
    max_lines += 90 * len(staged)
    fam = fixed_families(ctx.rng) + staged
    ctx.notes['fixed_families'] = [nm for nm, _ in fam]
    cfgs = [(None, c) for _, c in fam]
    # the zoo entries the model can follow (those with ss.Pregnancy): every do_step / finish_step call and every step's state
    zoo_preg = [(nm, c) for nm, c in zoo_entries() if has_pregnancy(c)]
    ctx.notes['zoo_correspond'] = [nm for nm, _ in zoo_preg]
    cfgs += zoo_preg
    for i in range(nsims):
        cfg = gen_cfg(ctx.rng, ctx.thorough)
        if i < 4:   # make sure both burn-in settings and both layer layouts occur
            cfg['burnin'] = bool(i % 2); cfg['nets'] = ['prepost', 'maternal'][i // 2]
        cfgs.append((None, cfg))
    for zname, cfg in cfgs:
        sim_data = dict(kind='zoo', name=zname, cfg=cfg) if zname else dict(kind='sim', cfg=cfg)
        tag = f'[zoo:{zname}] ' if zname else ''
        try:
            sim, events, snaps = run_recorded(cfg, zoo=bool(zname))
        except Exception as e:
            if zname and harness_exception(e):
                ctx.count('zoo_exceptions'); ctx.notes['last_zoo_exception'] = f'{zname}: {type(e).__name__}: {e}'; continue
            ctx.broke('correspondence', 'C19.run', f'{tag}generated sim raised {type(e).__name__}: {e}', data=sim_data)
            continue
        burnin = bool(find_preg(sim).pars.burnin)
        ctx.count('sims'); ctx.count('burnin_sims', int(burnin))
        if zname: ctx.count('zoo_runs')
        # burn-in step list
        pr = find_preg(sim); p = pars_of(sim)
        first = [ev for ev in events if ev['op'] == 'dostep']
        if first: p = first[0]['pars']          # the burn-in runs inside the first step, with the parameters in force then
        # the parameters the model is run with are tied to the configuration: what the module reports at every do_step
        # (gestation in steps as set_prognoses / the prenatal edges read it, gestation in years as make_embryos reads it, age
        # limits) = the configuration's value in force at that step (the script's schedule), and the two views of the
        # gestation agree (Pars.coherent, the hypothesis of C19_gestation_coherent)
        exp0 = expected_pars(cfg, bool(zname), pars_of(sim), npts=int(sim.t.npts))
        for ev in first:
            ex = pars_at(exp0, ev['simti']); got = ev['pars']
            bad = [f"{k}: module {got[k]:.6g}, configuration {ex[k]:.6g}" for k in ('g', 'gy', 'minage', 'maxage', 'dty')
                   if abs(got[k] - ex[k]) > 1e-6 * (1 + abs(ex[k]))]
            dtm = ex.get('dtm', ex['dty'])
            if abs(got['g'] * dtm - got['gy']) > 1e-6 * (1 + abs(got['gy'])):
                bad.append(f"gestation {got['g']:.6g} steps of {dtm:.6g} y = {got['g'] * dtm:.6g} y, but {got['gy']:.6g} y as a duration in years")
            ctx.count('pars_ties')
            if bad:
                ctx.broke('correspondence', 'C19.pars', f"{tag}do_step at sim step {ev['simti']} (module ti={ev['ti']}): parameters reported by the module differ from the configuration in force: {'; '.join(bad)}", data=sim_data)
                break
        if burnin:
            exp = list(np.arange(np.ceil(-1 * p['g']), 0, 1).astype(int))
            got = [ev['ti'] for ev in events if ev['op'] == 'dostep' and ev['simti'] == 0 and ev['ti'] < 0]
            lines.append(' '.join(['burnsteps'] + pars_kv(p, snaps[0][1]))); meta.append(('burn', got, sim_data))
        items = []
        nf = 0
        for ev in events:
            if ev['op'] == 'fertprob-error':
                ctx.broke('correspondence', 'C19.fertprob', f"{tag}could not record make_fertility_prob_fn: {ev['err']}", data=sim_data); continue
            if ev['op'] == 'fertprob':
                nf += 1
                if nf <= 6 and len(ev['ages']) <= 400:
                    items.append((fert_line(ev), ('fert', ev), dict(sim_data, op='fertprob', ti=ev['ti'])))
                continue
            if ev['pre']['n'] > 400: continue
            if ev.get('err'):
                continue
            items.append((event_line(ev), ('ev', ev), dict(sim_data, op=ev['op'], ti=ev['ti'])))
        for ti, s in snaps:
            if s['n'] > 400: continue
            items.append((' '.join(['check'] + state_kv(s)), ('snap', ti, s), dict(sim_data, op='check', ti=ti)))
        # bound the driver input: keep every event of the first 12 steps, then every second
        for j, it in enumerate(items):
            if len(lines) >= max_lines: break
            if j < 60 or j % 2 == 0:
                lines.append(it[0]); meta.append(it[1:])
    out = ctx.drive(DRIVER, lines)
    if len(out) != len(lines):
        ctx.broke('correspondence', 'driver', f'driver returned {len(out)} lines for {len(lines)} operations'); return
    for line, ml, m in zip(lines, out, meta):
        op = line.split(' ', 1)[0]
        ctx.count('op_' + op)
        if ml == 'bad-op':
            ctx.broke('correspondence', 'C19.' + op, 'model rejected the operation line', data=dict(line=line[:1500]))
            continue
        ztag = lambda d: f"[zoo:{d['name']}] " if isinstance(d, dict) and d.get('kind') == 'zoo' else ''
        if m[0] == 'burn':
            got = m[1]
            mg = [] if ml == 'ok -' else [int(x) for x in ml.split()[1].split(',')]
            ctx.case(line, True)
            if mg != got:
                ctx.broke('correspondence', 'C19.burnin', f'{ztag(m[2])}burn-in steps: model {mg}, code ran do_step at {got}', data=m[2])
            continue
        kind, data = m[0], m[1]
        if kind[0] == 'fert':
            ev = kind[1]
            ctx.case(line, bool(len(ev['ages'])))
            d = fert_compare(ml, ev)
            if d:
                ctx.broke('correspondence', 'C19.fertprob', f"{ztag(data)}make_fertility_prob_fn ({ev['kind']} fertility) at ti={ev['ti']}: {d}", data=data)
            continue
        if kind[0] == 'ev':
            ev = kind[1]
            nontrivial = bool(ev['pre']['pregnant'].any() or ev['pre']['postpartum'].any() or ev.get('conceive'))
            ctx.case(line, nontrivial, sample=dict(op=op, ti=ev['ti'], conceive=ev.get('conceive'), n=int(ev['pre']['n'])))
            d = compare_state(ml, ev['post'])
            if d:
                ctx.broke('correspondence', 'C19.' + op, f"{ztag(data)}Pregnancy.{'do_step' if op == 'dostep' else 'finish_step'} at ti={ev['ti']}: state after the call differs from the model: {d}", data=data)
        else:
            ti, s = kind[1], kind[2]
            nontrivial = bool(s['pregnant'].any() or s['postpartum'].any())
            ctx.case(line, nontrivial)
            bits = dict(p.split('=') for p in ml.split()[1:])
            bad = [k for k, v in bits.items() if v != '1' and not (k == 'prenatal' and not s['has_pre']) and not (k == 'postnatal' and not s['has_post'])]
            if bad:
                ctx.broke('correspondence', 'C19.invariant', f"{ztag(data)}ti={ti}: the model's invariant check fails on the observed state: {bad}", data=data)


def search(ctx):
    n = ctx.budget(12, 80)
    cfgs = [c for _, c in fixed_families(ctx.rng)] + [c for _, c in staged_families(ctx.rng)]
    for i in range(n):
        cfg = gen_cfg(ctx.rng, ctx.thorough)
        if i < 4:
            cfg['burnin'] = bool(i % 2); cfg['nets'] = ['prepost', 'maternal'][i // 2]
        cfgs.append(cfg)
    for cfg in cfgs:
        try:
            fails = run_oracle(cfg)
        except Exception as e:
            ctx.fail(dict(oracle='sim-raises', error=type(e).__name__), f'generated sim raised {type(e).__name__}: {str(e)[:300]}', dict(kind='sim', cfg=cfg))
            continue
        ctx.count('oracle_sims')
        for sig, what in fails:
            ctx.fail(sig, what, dict(kind='sim', cfg=cfg))
    search_zoo(ctx)


def replay(ctx, data):
    try:
        fails = run_zoo(data['cfg']) if data.get('kind') == 'zoo' else run_oracle(data['cfg'])
    except Exception as e:
        print('  sim raises', type(e).__name__, str(e)[:300]); return True
    for sig, what in fails[:6]:
        print('  ', sig, what)
    return bool(fails)
