"""
C17 round 3 — helper module of harness/props/c17.py.

Two families the earlier rounds never exercised:

(A) NAME-KEYED parameters that are resolved against the rest of the sim at init time (per-network `beta` dicts of every
    Infection class; `MixingPool(diseases=[names])`): an entry takes effect only if some module of the sim reads it, so
    "applied or rejected" has to be judged AFTER `sim.init()` / a short run, not on `module.pars`.
(B) VALUE OBJECTS owned by the caller (spec dicts with / without `type`, lists) that configure more than one parameter,
    module or sim: every use must see the same specification and the object must be left as it was.

correspondence: driver ops `betamap` / `stdkey` / `usetwice` / `argmutated` (Model/ParsRefs.lean + Generated/ParsRefs.lean)
vs the live package.   oracles: model-free, on the real code only, replayable.
"""
import copy
import numpy as np


def _B():
    from harness.props import c17 as B
    return B


def norm_key(k):
    """ the documented normalisation of network names (lower case, optional `net` suffix) — re-derived here, not imported """
    k = k.lower()
    return k[:-3] if k.endswith('net') and len(k) >= 3 else k


ROUTES = ['kwarg', 'pars', 'spec', 'update']     # keyword, pars= dict, dict specification inside ss.Sim, module.pars.update before init
NET_POOL = ['random', 'erdosrenyi', 'disk', 'mf', 'maternal', 'msm']
BEHAVIOUR_NETS = ('random', 'erdosrenyi')            # dense enough that a high beta certainly transmits
KEY_SPELLINGS = [lambda n: n, lambda n: n + 'net', lambda n: n.upper(), lambda n: n.capitalize() + 'Net']


def infection_classes():
    import starsim as ss
    B = _B()
    out = []
    for name, cls in ss.find_modules()['diseases'].items():
        if isinstance(cls, type) and issubclass(cls, ss.Infection) and cls not in out:
            try:
                m = cls()
                if 'beta' in m.pars: out.append(cls)
            except Exception:
                pass
    return out


# ---------------------------------------------------------------------------
# beta specifications (JSON-able):  ['scalar', form, tok] | ['dict', [[key, form, tok, tok2], ...]] | ['bad']
#   form: 'beta' = ss.beta(x), 'num' = plain float, 'pair' = [ss.beta(a), ss.beta(b)], 'hot' = ss.beta(0.95), 'zero' = ss.beta(0)

def entry_value(form, tok, tok2=None):
    import starsim as ss
    B = _B()
    if form == 'beta': return ss.beta(B.sentinel(tok))
    if form == 'num': return B.sentinel(tok)
    if form == 'pair': return [ss.beta(B.sentinel(tok)), ss.beta(B.sentinel(tok2))]
    if form == 'hot': return ss.beta(0.95)
    if form == 'zero': return ss.beta(0.0)
    raise ValueError(form)


def beta_value(spec):
    if spec[0] == 'scalar': return entry_value(spec[1], spec[2])
    if spec[0] == 'bad': return 'not-a-beta'
    return {it[0]: entry_value(*it[1:]) for it in spec[1]}


def beta_model_arg(spec):
    if spec[0] == 'scalar': return f'scalar:{spec[2]}'
    if spec[0] == 'bad': return 'bad'
    if not spec[1]: return 'dict:-'
    return 'dict:' + ';'.join(f'{it[0]}=p={it[2]}={it[3]}' if it[1] == 'pair' else f'{it[0]}=s={it[2]}' for it in spec[1])


def build_sim(dis_name, nets, beta, route, n_agents=60, dur=2, seed=1, init_prev=0.3):
    """ a small sim with one Infection class whose beta is supplied through `route` """
    import starsim as ss
    cls = {c.__name__: c for c in infection_classes()}[dis_name]
    name = dis_name.lower()
    if route == 'kwarg': dis = cls(beta=beta, init_prev=init_prev)
    elif route == 'pars': dis = cls(pars=dict(beta=beta, init_prev=init_prev))
    elif route == 'spec': dis = dict(type=name, beta=beta, init_prev=init_prev)
    elif route == 'update':
        dis = cls(init_prev=init_prev); dis.pars.update(beta=beta)
    else: raise ValueError(route)
    sim = ss.Sim(n_agents=n_agents, dur=dur, verbose=0, rand_seed=seed, diseases=dis, networks=[dict(type=n) for n in nets])
    return sim


def tok_of(x):
    """ the token of a sentinel-carrying beta value (None if it carries none) """
    import starsim as ss
    B = _B()
    v = x.v if isinstance(x, ss.TimePar) else x
    try:
        t = round((float(v) - 2.0 ** -34 - 0.1328125) * 4096.0)
    except Exception:
        return None
    return t if (t >= 0 and B.sentinel(t) == float(v)) else None


def live_betamap(dis_name, nets, spec, route='kwarg'):
    """ ('ok', 'key:a/b,...' in network order) as `infect()` reads it, or (error kind, message) """
    import starsim as ss
    B = _B()
    B.quiet()
    try:
        sim = build_sim(dis_name, nets, beta_value(spec), route); sim.init()
    except Exception as e:
        try:        # is the configuration itself (this class on these networks) unusable, whatever the beta?
            build_sim(dis_name, nets, ss.beta(0.1), 'kwarg').init()
        except Exception:
            return 'skip', f'{dis_name} on {nets} does not initialise even with a scalar beta'
        return B.err_kind(e), f'{type(e).__name__}: {str(e)[:100]}'
    dis = sim.diseases[0]
    bm = dis.validate_beta()
    out = []
    for nkey in sim.networks.keys():
        k = ss.standardize_netkey(nkey)
        ent = bm.get(k)
        if ent is None: out.append(f'{k}:none'); continue
        out.append(f'{k}:{tok_of(ent[0])}/{tok_of(ent[1])}')
    return 'ok', (','.join(out) if out else '-')


def gen_beta_case(rng, tokbase):
    """ (nets, spec, family) — exact / spelled / missing / extra (foreign network class, typo, junk) / alias / scalar / bad """
    n = rng.choice([1, 1, 2, 2, 3])
    nets = rng.sample(NET_POOL, n)
    fam = rng.choice(['exact', 'exact', 'spelled', 'missing', 'extra-foreign', 'extra-typo', 'extra-junk', 'alias', 'scalar', 'bad', 'empty'])
    t = [tokbase]

    def ent(key):
        t[0] += 2
        if rng.random() < 0.35: return [key, 'pair', t[0], t[0] + 1]
        return [key, rng.choice(['beta', 'beta', 'num']), t[0], None]
    keys = list(nets)
    if fam == 'spelled': keys = [rng.choice(KEY_SPELLINGS)(k) for k in keys]
    items = [ent(k) for k in keys]
    if fam == 'missing': items = items[:-1]
    if fam == 'extra-foreign':
        other = [x for x in NET_POOL + ['static', 'embedding', 'null'] if x not in nets]
        items.insert(rng.randint(0, len(items)), ent(rng.choice(other)))
    if fam == 'extra-typo': items.insert(rng.randint(0, len(items)), ent(rng.choice(nets) + rng.choice(['m', 's', '_', 'x'])))
    if fam == 'extra-junk': items.append(ent(rng.choice(['zz_nonet', 'all', 'default', 'net'])))
    if fam == 'alias':
        k = rng.choice(nets); items.insert(rng.randint(0, len(items)), ent(k + 'net'))
    if fam == 'scalar': return nets, ['scalar', rng.choice(['beta', 'num']), tokbase + 1], fam
    if fam == 'bad': return nets, ['bad'], fam
    if fam == 'empty': return nets, ['dict', []], fam
    rng.shuffle(items)
    return nets, ['dict', items], fam


# ---------------------------------------------------------------------------
# correspondence

def round3_cases(ctx, ask):
    import starsim as ss
    B = _B()
    B.quiet()
    facts = (ctx.extracted.get('ParsRefs') or {}).get('facts') or {}

    def brk(name, msg, data=None):
        if len([b for b in ctx.broken if b['name'] == name]) < 6:
            ctx.broke('correspondence', name, msg, data=data)

    # (a) ss.standardize_netkey vs the regenerated stdKey
    names = ['RandomNet', 'random', 'MFNet', 'mfnet', 'net', 'Internet', 'NETnet', 'Maternal', 'msm', 'randomnetnet', 'Net_', 'x']
    def cb_std(ml):
        for nm, m in zip(names, ml):
            live = ss.standardize_netkey(nm)
            ctx.case(('stdkey', nm), True); ctx.count('r3_stdkey')
            if m != f'ok {live}' and not (live == '' and m.strip() == 'ok'):
                brk('C17.refs', f'standardize_netkey({nm!r}): impl={live!r} model={m!r}')
            if live != norm_key(nm):
                brk('C17.refs', f'standardize_netkey({nm!r}) = {live!r} is not the documented normalisation {norm_key(nm)!r}')
    ask([f'stdkey {nm}' for nm in names], cb_std)

    # (b) the beta map that infect() reads, for every Infection class x generated (networks, beta) cases
    classes = infection_classes()
    ctx.notes['infection_classes'] = [c.__name__ for c in classes]
    n_per = ctx.budget(5, 40)
    fams = set()
    for cls in classes:
        for i in range(n_per):
            nets, spec, fam = gen_beta_case(ctx.rng, 10 + ctx.rng.randint(0, 800))
            route = ctx.rng.choice(ROUTES)
            impl = live_betamap(cls.__name__, nets, spec, route)
            fams.add(fam)

            def cb(ml, impl=impl, cls=cls, nets=nets, spec=spec, fam=fam, route=route):
                mo = ml[0]
                ctx.case(('betamap', cls.__name__, tuple(nets), repr(spec), route), True,
                         sample=dict(kind='betamap', cls=cls.__name__, nets=nets, family=fam, route=route, impl=str(impl)[:80], model=mo[:80]) if ctx.rng.random() < 0.03 else None)
                if impl[0] == 'skip':
                    ctx.count('r3_betamap_skipped'); return
                ctx.count('r3_betamap_' + fam)
                got = f'ok {impl[1]}' if impl[0] == 'ok' else impl[0]
                if got != mo:
                    brk('C17.betamap', f'{cls.__name__}(beta={beta_model_arg(spec)}) [{route}] with networks {nets}: impl={got} ({impl[1][:80]}) model={mo}',
                        dict(kind='netkeyed', dis=cls.__name__, nets=nets, spec=spec, route=route))
            # the model sees the network names the sim gives its networks
            netnames = [ss.find_modules()['networks'][n_]().name for n_ in nets]
            ask([f"betamap {','.join(netnames)} {beta_model_arg(spec)}"], cb)
    ctx.notes['betamap_families'] = sorted(fams)

    # (c) ownership table vs live behaviour: call every function of the table with a dict, compare the dict before / after
    def live_mutations():
        out = {}
        d = dict(type='normal', loc=1.5, scale=2.0); b = B.canon(d); ss.make_dist(d); out['make_dist'] = B.canon(d) != b
        d = dict(dur_inf=3.5, beta=0.25, name='abc'); b = B.canon(d); ss.SIR().update_pars(d); out['Module.update_pars'] = B.canon(d) != b
        d = dict(dt=0.5, unit='day', start=0); b = B.canon(d); ss.Time().update(pars=d); out['Time.update'] = B.canon(d) != b
        inner = dict(type='normal', loc=2.5); d = dict(a=2.0, b=inner); b = B.canon(d)
        ss.Pars(a=1.0, b=ss.lognorm_ex(1.0, 1.0)).update(d); out['Pars.update'] = B.canon(d) != b
        muts = []
        for new in (dict(type='normal', loc=2.5, scale=1.0), dict(mean=2.0), dict(type='bernoulli', p=0.5)):
            b = B.canon(new); p_ = ss.Pars(x=ss.lognorm_ex(1.0, 1.0))
            try: p_.update(x=new)
            except Exception: pass
            muts.append(B.canon(new) != b)
        out['Pars._update_dist'] = any(muts)
        muts = []
        for old, new in ((ss.dur(3.0), dict(v=4.0)), (ss.beta(0.1), dict(random=0.2))):
            b = B.canon(new); p_ = ss.Pars(x=old)
            try: p_.update(x=new)
            except Exception: pass
            muts.append(B.canon(new) != b)
        out['Pars._update_timepar'] = any(muts)
        return out
    try:
        live = live_mutations()
    except Exception as e:
        live = {}; brk('C17.ownership', f'harness raised {type(e).__name__}: {e}')
    fnames = list(live.keys())

    def cb_own(ml):
        for fn, m in zip(fnames, ml):
            ctx.case(('ownership', fn), True); ctx.count('r3_ownership')
            if m == 'bad-op':
                brk('C17.ownership', f'{fn} is not in the regenerated ownership table'); continue
            if (m == 'ok 1') != live[fn] and live[fn]:
                brk('C17.ownership', f'{fn}: the caller\'s dict IS changed by the live function; regenerated fact says it cannot be', dict(kind='ownership', func=fn))
            if m == 'ok 1' and not live[fn]:
                ctx.count('r3_ownership_conservative')      # the static analysis is conservative: flagged, not observed
    ask([f'argmutated {fn}' for fn in fnames], cb_own)
    if facts and sorted(o['func'] for o in facts.get('ownership', [])) != sorted(fnames):
        brk('C17.ownership', f"ownership table {[o['func'] for o in facts.get('ownership', [])]} and the harness's live calls {fnames} differ")

    # (d) one spec object configuring two parameters: model `useTwice` vs two live updates with the SAME dict
    for has_type in (True, False):
        for tname, keys in (('normal', ['loc', 'scale']), ('lognorm_im', ['mean', 'sigma']), ('uniform', ['low', 'high']), ('expon', ['scale'])):
            toks = {k: 10 + ctx.rng.randint(0, 800) for k in keys}
            if not has_type and tname != 'normal': continue
            spec = dict(type=tname, **{k: B.sentinel(t) for k, t in toks.items()}) if has_type else {'mean': B.sentinel(toks['loc'])}
            mtoks = dict(toks) if has_type else {'mean': toks['loc']}
            before = B.canon(spec)
            p_ = ss.Pars(a=ss.lognorm_ex(1.0, 1.0), b=ss.lognorm_ex(1.0, 1.0))

            def describe(d):
                if type(d).__name__ == tname and has_type:
                    return 'made:7:' + (','.join(f'{k}={mtoks[k]}' for k in d.pars.keys() if k in mtoks and d.pars[k] == B.sentinel(mtoks[k])) or '-')
                if type(d).__name__ == 'lognorm_ex':
                    return 'oldSet:' + (','.join(f'{k}={mtoks[k]}' for k in d.pars.keys() if k in mtoks and d.pars[k] == B.sentinel(mtoks[k])) or '-')
                return f'other:{type(d).__name__}'
            try:
                p_.update(a=spec); p_.update(b=spec)
                impl = f"ok {describe(p_.a)} {describe(p_.b)} {'unchanged' if B.canon(spec) == before else 'changed'}"
            except Exception as e:
                impl = B.err_kind(e)
            line = 'usetwice ' + ','.join((['type:7'] if has_type else []) + [f'{k}:{t}' for k, t in mtoks.items()])

            def cb(ml, impl=impl, line=line, tname=tname, has_type=has_type):
                ctx.case(('usetwice', tname, has_type), True); ctx.count('r3_usetwice')
                if ml[0] != impl:
                    brk('C17.usetwice', f'one spec dict ({line[9:]}; type={tname if has_type else None}) used for two parameters: impl={impl} model={ml[0]}',
                        dict(kind='value-reuse', cls='C17Probe', probe=True, par='p_dist', nk='dictTypeDist', tok=11, route='direct'))
            ask([line], cb)


# ---------------------------------------------------------------------------
# oracles (real code only)

def _fail(sig, what, data):
    return dict(signature=sig, what=what, data=data)


def oracle_netkeyed(dis_name, nets, spec, route, seed=1):
    """ a per-network beta dict: the sim refuses to initialise, or EVERY supplied entry names a network of the sim and every
        network of the sim has an entry (so `infect()` can read it).  Judged without looking at validate_beta. """
    B = _B()
    B.quiet()
    data = dict(kind='netkeyed', dis=dis_name, nets=nets, spec=spec, route=route, seed=seed)
    if spec[0] != 'dict': return None
    try:
        sim = build_sim(dis_name, nets, beta_value(spec), route, seed=seed); sim.init()
    except Exception:
        return None
    simnets = [norm_key(k) for k in sim.networks.keys()]
    keys = [it[0] for it in spec[1]]
    unknown = [k for k in keys if norm_key(k) not in simnets]
    if unknown:
        return _fail(dict(oracle='xref-unknown-name-accepted', par='beta', route=route),
                     f"{dis_name}(beta=<dict with keys {keys}>) [{route}] initialised in a sim whose networks are {list(sim.networks.keys())}: the entries {unknown} name "
                     f"no network of the sim, can never take effect and were not rejected", data)
    try:
        sim.run()
    except Exception:
        return None           # rejected late, but rejected
    unserved = [n for n in simnets if n not in [norm_key(k) for k in keys]]
    if unserved:
        return _fail(dict(oracle='xref-network-without-entry', par='beta', route=route),
                     f"{dis_name}(beta=<dict with keys {keys}>) [{route}] ran in a sim with networks {list(sim.networks.keys())}: networks {unserved} have no beta and nothing was raised", data)
    dup = [k for k in keys if [norm_key(x) for x in keys].count(norm_key(k)) > 1]
    if dup:
        return _fail(dict(oracle='beta-entry-dropped', cause='alias-keys'),
                     f"{dis_name}(beta=<dict with keys {keys}>) [{route}] ran: the keys {dup} are two spellings of one network; only one of the entries can be in effect and nothing was raised", data)
    return None


def new_infections(dis_name, nets, beta, route, seed):
    """ (cumulative infections at the end incl. the initial seeds, flat results) of a short run """
    sim = build_sim(dis_name, nets, beta, route, n_agents=80, dur=3, seed=seed, init_prev=0.1)
    sim.run()
    r = sim.results[sim.diseases[0].name]
    return int(np.asarray(r['cum_infections'], dtype=float)[-1]), B_flat(sim)


def B_flat(sim):
    return _B().flat_results(sim)


def oracle_beta_behaviour(dis_name, hot, cold, route, seed):
    """ entries are IN EFFECT, judged by behaviour: transmission happens exactly on the networks whose entry is non-zero """
    B = _B()
    B.quiet()
    import starsim as ss
    nets = [hot, cold]
    data = dict(kind='beta-behaviour', dis=dis_name, hot=hot, cold=cold, route=route, seed=seed)
    try:
        n_hot, _ = new_infections(dis_name, nets, {hot: ss.beta(0.95), cold: ss.beta(0.0)}, route, seed)
        n_none, f_none = new_infections(dis_name, nets, {hot: ss.beta(0.0), cold: ss.beta(0.0)}, route, seed)
        n_dir, _ = new_infections(dis_name, nets, {hot + 'net': [ss.beta(0.95), ss.beta(0.95)], cold.upper(): [ss.beta(0.0), ss.beta(0.0)]}, route, seed)
        n_zero, f_zero = new_infections(dis_name, nets, ss.beta(0.0), route, seed)
    except Exception as e:
        return _fail(dict(oracle='beta-dict-rejected'), f'{dis_name}: a beta dict with exactly the networks {nets} failed: {type(e).__name__}: {str(e)[:80]}', data)
    if f_none != f_zero:
        return _fail(dict(oracle='beta-entry-not-in-effect', which='zero'), f'{dis_name} with beta 0 on every network ({nets}, {n_none} infections) differs from the scalar beta 0 ({n_zero})', data)
    if n_hot <= n_none:
        return _fail(dict(oracle='beta-entry-not-in-effect', which='hot'), f'{dis_name} with beta={{{hot}: 0.95, {cold}: 0}} had no transmission beyond the {n_none} initial cases: the entry for {hot} is not in effect', data)
    if n_dir != n_hot:
        return _fail(dict(oracle='beta-spelling-differs'), f'{dis_name}: beta={{{hot}: 0.95, {cold}: 0}} and the same written with `{hot}net` / `{cold.upper()}` and [v, v] pairs differ ({n_hot} vs {n_dir} infections)', data)
    return None


def oracle_beta_spellings(dis_name, nets, tok, seed):
    """ scalar v  ==  {every network: v}  ==  {every network: [v, v]}  ==  other spellings of the network names: identical results """
    B = _B()
    B.quiet()
    import starsim as ss
    v = lambda: ss.beta(0.05 + B.sentinel(tok))
    forms = {'scalar': v(), 'dict': {n: v() for n in nets}, 'pairs': {n: [v(), v()] for n in nets},
             'netsuffix': {n + 'net': v() for n in nets}, 'upper': {n.upper(): v() for n in reversed(nets)}}
    res = {}
    for tag, beta in forms.items():
        route = 'kwarg' if tag in ('scalar', 'dict') else 'spec' if tag == 'pairs' else 'pars'
        try:
            res[tag] = new_infections(dis_name, nets, beta, route, seed)[1]
        except Exception as e:
            res[tag] = f'{type(e).__name__}: {str(e)[:80]}'
    for tag in list(forms)[1:]:
        if res[tag] != res['scalar']:
            why = res[tag] if isinstance(res[tag], str) else res['scalar'] if isinstance(res['scalar'], str) else [k for k in res[tag] if res[tag][k] != res['scalar'].get(k)][:4]
            return _fail(dict(oracle='spelling-results-differ', kind='beta-dict'), f'{dis_name} on {nets}: beta written as `scalar` and as `{tag}` gives different results ({why})',
                         dict(kind='beta-spellings', dis=dis_name, nets=nets, tok=tok, seed=seed))
    return None


def oracle_name_refs(case):
    """ other parameters that NAME modules of the sim: unknown names must be rejected by init, known ones must be in effect """
    import starsim as ss
    B = _B()
    B.quiet()
    data = dict(kind='name-refs', case=case)
    if case not in NAME_REF_CASES: raise ValueError(case)
    def sim_with(mp): return ss.Sim(n_agents=50, dur=2, verbose=0, diseases=['sir', 'sis'], networks=mp)
    try:
        if case == 'mixingpool-unknown':
            sim_with(ss.MixingPool(diseases=['zz_nodisease'], beta=ss.beta(0.1))).init()
        elif case == 'mixingpool-known+unknown':
            sim_with(ss.MixingPool(diseases=['sir', 'zz_nodisease'], beta=ss.beta(0.1))).init()
        elif case == 'mixingpool-known':
            s_ = sim_with(ss.MixingPool(diseases='sis', beta=ss.beta(0.1))); s_.init()
            got = [d.name for d in s_.networks[0].diseases]
            if got != ['sis']:
                return _fail(dict(oracle='dropped', route='init', target='name-list', newkind='str'), f"MixingPool(diseases='sis') initialised but acts on {got}", data)
            return None
        elif case == 'mixingpool-spec-unknown':
            sim_with(dict(type='mixingpool', diseases=['zz_nodisease'])).init()
    except Exception:
        return None
    return _fail(dict(oracle='xref-unknown-name-accepted', par='diseases', route=case), f'{case}: a disease name that is not in the sim was accepted by init()', data)


NAME_REF_CASES = ['mixingpool-unknown', 'mixingpool-known+unknown', 'mixingpool-known', 'mixingpool-spec-unknown']

REUSE_KINDS = ['list', 'dictNoType', 'dictTypeBern', 'dictTypeDist']
REUSE_ROUTES = ['direct', 'ctor', 'ctor-pars']


def oracle_value_reuse(cls, par, nk, tok, route, probe=False):
    """ ONE value object (spec dict / list) configures the parameter twice: it is left as it was, and both uses — and a fresh
        equal literal — give the same parameter """
    B = _B()
    B.quiet()
    def fresh_module(): return cls() if probe else B.construct(cls)
    try:
        target = fresh_module().pars[par]
    except Exception:
        return None
    mk_val = lambda: B.make_new(nk, tok, target)
    v = mk_val(); before = B.canon(v)
    data = dict(kind='value-reuse', cls=cls.__name__, probe=probe, par=par, nk=nk, tok=tok, route=route)

    def use(val):
        if route == 'direct':
            m = fresh_module(); m.pars.update({par: val}); return m
        if route == 'ctor-pars':
            return cls(pars={par: val}) if probe else B.construct(cls, pars={par: val})
        return cls(**{par: val}) if probe else B.construct(cls, **{par: val})
    try:
        m1 = use(v)
    except Exception:
        if B.canon(v) != before:
            return _fail(dict(oracle='input-value-mutated', newkind=nk), f'{cls.__name__}({par}=<{nk}>) [{route}] raised AND changed the caller\'s value object: {before} -> {B.canon(v)}', data)
        return None
    mid = B.canon(v)
    try:
        m2 = use(v)
    except Exception as e:
        return _fail(dict(oracle='value-reuse-differs', newkind=nk),
                     f'{cls.__name__}({par}=v) [{route}] with v=<{nk}> works once; the second use of the SAME object fails ({type(e).__name__}: {str(e)[:60]}); v is now {str(v)[:80]}', data)
    if mid != before or B.canon(v) != before:
        return _fail(dict(oracle='input-value-mutated', newkind=nk),
                     f'{cls.__name__}({par}=v) [{route}] changed the caller\'s value object v=<{nk}>: now {str(v)[:100]}', data)
    m3 = use(mk_val())
    c1, c2, c3 = (B.canon(m.pars[par]) for m in (m1, m2, m3))
    if not (c1 == c2 == c3):
        return _fail(dict(oracle='value-reuse-differs', newkind=nk),
                     f'{cls.__name__}: {par} configured twice from one <{nk}> object and once from an equal literal differ: {str(c1)[:70]} / {str(c2)[:70]} / {str(c3)[:70]}', data)
    return None


def oracle_aliased_spec(seed, tname='lognorm_im'):
    """ one spec dict referenced from two module specs inside ONE pars dict (deepcopy keeps the aliasing) == two equal dicts """
    import starsim as ss
    B = _B()
    B.quiet()
    s_ = B.sentinel(20 + seed % 700)
    mk = {'lognorm_im': lambda: dict(type='lognorm_im', mean=1.0 + s_, sigma=0.5), 'normal': lambda: dict(type='normal', loc=6.0 + s_, scale=1.0),
          'uniform': lambda: dict(type='uniform', low=2.0 + s_, high=9.0), 'notype': lambda: dict(mean=5.0 + s_)}[tname]
    mkp = lambda: dict(type='bernoulli', p=0.05 + s_)
    data = dict(kind='aliased-spec', seed=seed, tname=tname)

    def run(shared):
        a, b = (lambda x: (x, x))(mk()) if shared else (mk(), mk())
        pa, pb = (lambda x: (x, x))(mkp()) if shared else (mkp(), mkp())
        pars = dict(n_agents=150, dur=8, verbose=0, rand_seed=1 + seed % 40, networks=dict(type='random', n_contacts=5),
                    diseases=[dict(type='sir', beta=0.1, init_prev=pa, dur_inf=a), dict(type='sis', beta=0.1, init_prev=pb, dur_inf=b)])
        before = B.canon(pars)
        sim = ss.Sim(pars); sim.run()
        return sim, B.canon(pars) == before
    try:
        sh, same_sh = run(True)
    except Exception as e:
        try: run(False)
        except Exception: return None          # the configuration itself is invalid
        return _fail(dict(oracle='aliased-spec-differs'), f'a pars dict in which two diseases share one {tname} spec dict fails ({type(e).__name__}: {str(e)[:80]}) while two equal dicts work', data)
    sep, same_sep = run(False)
    if not same_sh or not same_sep:
        return _fail(dict(oracle='input-dict-mutated'), 'the pars dict passed to ss.Sim (copy_inputs default) was changed', data)
    for name in ('sir', 'sis'):
        for par in ('dur_inf', 'init_prev'):
            ca, cb = B.canon(sh.diseases[name].pars[par].pars), B.canon(sep.diseases[name].pars[par].pars)
            ta, tb = type(sh.diseases[name].pars[par]).__name__, type(sep.diseases[name].pars[par]).__name__
            if (ta, [k for k, _ in ca[2]]) != (tb, [k for k, _ in cb[2]]):
                return _fail(dict(oracle='aliased-spec-differs'), f'{name}.{par}: shared spec dict gives {ta}{[k for k, _ in ca[2]]}, two equal dicts give {tb}{[k for k, _ in cb[2]]}', data)
    if B.flat_results(sh) != B.flat_results(sep):
        return _fail(dict(oracle='aliased-spec-differs'), f'equivalent configurations (one shared {tname} spec dict vs two equal dicts) give different results', data)
    return None


def round3_search(ctx, targets):
    import starsim as ss
    B = _B()
    B.quiet()

    def report(f):
        if f: ctx.fail(f['signature'], f['what'], f['data'])
    # (B) value objects reused: every Dist / TimePar parameter of every class x container kinds, route by rotation
    i = 0
    for cls, probe in targets:
        try: m0 = cls() if probe else B.construct(cls)
        except Exception: continue
        upd = B.uses_update_pars(cls, probe)
        for par in m0.pars.keys():
            tk = B.okind_of(m0.pars[par])
            if not tk.startswith(('dist', 'bern', 'timepar', 'beta')): continue
            for nk in REUSE_KINDS:
                if tk.startswith('bern') and nk == 'dictTypeDist': continue
                routes = ['direct'] + (['ctor', 'ctor-pars'] if upd and par not in ('name', 'label', 'start', 'stop', 'dt', 'unit') else [])
                for route in (routes if (ctx.thorough or ctx.broken) else [routes[i % len(routes)]]):
                    report(oracle_value_reuse(cls, par, nk, 10 + ctx.rng.randint(0, 800), route, probe)); ctx.count('oracle_value_reuse')
                i += 1
    tn = ['lognorm_im', 'normal', 'uniform', 'notype']
    for tname in (tn if (ctx.thorough or ctx.broken) else [tn[0], ctx.rng.choice(tn[1:])]):
        report(oracle_aliased_spec(ctx.rng.randint(0, 10**6), tname)); ctx.count('oracle_aliased_spec')
    # (A) name-keyed parameters
    classes = [c.__name__ for c in infection_classes()]
    always = [c for c in ('SIR', 'SIS') if c in classes]
    others = [c for c in classes if c not in always]
    ctx.rng.shuffle(others)
    for dis in always + others[:ctx.budget(2, len(others))]:
        for route in ROUTES:
            for fam_i in range(ctx.budget(3, 12)):
                nets, spec, fam = gen_beta_case(ctx.rng, 10 + ctx.rng.randint(0, 800))
                if spec[0] != 'dict' or fam == 'alias': continue
                report(oracle_netkeyed(dis, nets, spec, route, ctx.rng.randint(1, 40))); ctx.count('oracle_netkeyed_' + fam)
            # every route sees at least one entry for a network that is not there, and one missing network
            nets = ctx.rng.sample(NET_POOL, ctx.rng.choice([1, 2]))
            foreign = ctx.rng.choice([x for x in NET_POOL if x not in nets])
            spec = ['dict', [[n, 'beta', 30 + j, None] for j, n in enumerate(nets)] + [[foreign, ctx.rng.choice(['beta', 'pair', 'num']), 50, 51]]]
            report(oracle_netkeyed(dis, nets, spec, route)); ctx.count('oracle_netkeyed_extra-foreign')
            two = ctx.rng.sample(NET_POOL, 2)
            report(oracle_netkeyed(dis, two, ['dict', [[two[0], 'beta', 33, None]]], route)); ctx.count('oracle_netkeyed_missing')
    # the known witness (two spellings of one network), always
    report(oracle_netkeyed('SIR', ['random'], ['dict', [['random', 'beta', 40, None], ['randomnet', 'beta', 41, None]]], 'kwarg'))
    for dis in always:
        hot, cold = ctx.rng.sample(list(BEHAVIOUR_NETS), 2)
        report(oracle_beta_behaviour(dis, hot, cold, ctx.rng.choice(['kwarg', 'pars', 'spec']), ctx.rng.randint(1, 40))); ctx.count('oracle_beta_behaviour')
        nets = ctx.rng.sample(NET_POOL[:4], 2)
        report(oracle_beta_spellings(dis, nets, 10 + ctx.rng.randint(0, 800), ctx.rng.randint(1, 40))); ctx.count('oracle_beta_spellings')
    for case in NAME_REF_CASES:
        report(oracle_name_refs(case)); ctx.count('oracle_name_refs')


def replay(ctx, data):
    """ -> True / False for the round-3 kinds, None if the kind is not ours """
    B = _B()
    k = data.get('kind')
    if k == 'netkeyed':
        return bool(oracle_netkeyed(data['dis'], data['nets'], data['spec'], data['route'], data.get('seed', 1)))
    if k == 'beta-behaviour':
        return bool(oracle_beta_behaviour(data['dis'], data['hot'], data['cold'], data['route'], data['seed']))
    if k == 'beta-spellings':
        return bool(oracle_beta_spellings(data['dis'], data['nets'], data['tok'], data['seed']))
    if k == 'name-refs':
        return bool(oracle_name_refs(data['case']))
    if k == 'value-reuse':
        return bool(oracle_value_reuse(B.resolve_cls(data['cls'], data.get('probe')), data['par'], data['nk'], data['tok'], data['route'], data.get('probe', False)))
    if k == 'aliased-spec':
        return bool(oracle_aliased_spec(data['seed'], data.get('tname', 'lognorm_im')))
    if k == 'ownership':
        return False
    return None
