"""
C17 round 4 — helper module of harness/props/c17.py: equivalent spellings at the SIM level.

Sim-level parameters that are SHORTCUTS for modules (`birth_rate=`, `death_rate=`, `demographics=True`) or are DERIVED from
the rest of the configuration (`use_aging` from the demographics, `total_pop` <-> `pop_scale`, `stop` <-> `dur`, default
`start` / `unit`, `n_agents` from a People object) were never compared against their explicit spelling: the earlier rounds
compared spellings of ONE module inside a fixed sim-level frame.

correspondence: driver op `demog` (Model/ParsSim.lean interpreting the regenerated statement order of
  `SimPars.validate_demographics`) vs `SimPars(...).validate()` for the full grid of demographics forms x rates x use_aging.
oracles (model-free, real code, replayable):
  oracle_sim_spellings   groups of sim-level spellings that must build the SAME simulation: validated settings (incl. derived
                         ones), module parameters, final ages and bit-identical results
  oracle_derived         the derived settings re-derived from the observed, initialised sim — for every group member and every
                         zoo configuration: agents age iff use_aging; default use_aging iff the sim has demographics modules;
                         total_pop = pop_scale * n_agents; stop = start + dur
  oracle_zoo_shortcut    every zoo configuration whose demographics are plain Births / Deaths re-spelled with the sim-level
                         rate shortcuts: same settings, same results
"""
import copy
import numpy as np


def _B():
    from harness.props import c17 as B
    return B


# ---------------------------------------------------------------------------
# correspondence: validate_demographics

DEMOG_FORMS = ['empty', 'true', 'births-inst', 'deaths-dict', 'both-inst', 'both-str', 'pregnancy-str', 'births+pregnancy', 'emptylist']


def demog_form(form, tb, td):
    """ -> (value for `demographics=` or None for 'not supplied', model string) """
    import starsim as ss
    if form == 'empty': return None, 'empty'
    if form == 'true': return True, 'true'
    if form == 'births-inst': return ss.Births(birth_rate=tb), f'mods:b={tb}'
    if form == 'deaths-dict': return dict(type='deaths', death_rate=td), f'mods:d={td}'
    if form == 'both-inst': return [ss.Births(birth_rate=tb), ss.Deaths(death_rate=td)], f'mods:b={tb},d={td}'
    if form == 'both-str': return ['births', 'deaths'], 'mods:b=none,d=none'
    if form == 'pregnancy-str': return 'pregnancy', 'mods:o=1'
    if form == 'births+pregnancy': return [dict(type='births', birth_rate=tb), ss.Pregnancy()], f'mods:b={tb},o=1'
    if form == 'emptylist': return [], 'mods:-'
    raise ValueError(form)


def show_mod(m):
    import starsim as ss
    if isinstance(m, ss.Births):
        v = m.pars.birth_rate; v = getattr(v, 'v', v)
        return 'b=none' if v == getattr(ss.Births().pars.birth_rate, 'v', None) else f'b={int(v) if float(v).is_integer() else v}'
    if isinstance(m, ss.Deaths):
        v = getattr(m, 'death_rate_data', None); v = getattr(v, 'v', v)
        d0 = getattr(getattr(ss.Deaths(), 'death_rate_data', None), 'v', None)
        return 'd=none' if v == d0 else f'd={int(v) if float(v).is_integer() else v}'
    return 'o=1'


def live_validate(kw):
    import starsim as ss
    B = _B()
    try:
        sp = ss.SimPars(**kw); sp.validate()
    except Exception as e:
        return B.err_kind(e), f'{type(e).__name__}: {str(e)[:80]}'
    mods = ','.join(show_mod(m) for m in sp.demographics.values()) or '-'
    ag = '-' if sp.use_aging is None else ('1' if sp.use_aging else '0')
    return 'ok', f'{mods} {ag}'


def round4_cases(ctx, ask):
    B = _B()
    B.quiet()
    facts = (ctx.extracted.get('ParsSimLevel') or {}).get('facts') or {}
    ctx.notes['validate_demographics_steps'] = facts.get('steps')
    for form in DEMOG_FORMS:
        for hb in (False, True):
            for hd in (False, True):
                for ag in (None, False, True):
                    tb, td = 31 + ctx.rng.randint(0, 40), 73 + ctx.rng.randint(0, 40)      # never the class defaults (20 / 10)
                    sb, sd = tb + 100, td + 100                                              # the sim-level rates
                    dem, mstr = demog_form(form, tb, td)
                    kw = {}
                    if dem is not None: kw['demographics'] = dem
                    if hb: kw['birth_rate'] = sb
                    if hd: kw['death_rate'] = sd
                    if ag is not None: kw['use_aging'] = ag
                    impl = live_validate(kw)
                    line = f"demog {mstr} {sb if hb else 'none'} {sd if hd else 'none'} {'-' if ag is None else int(ag)}"

                    def cb(ml, impl=impl, line=line, form=form, hb=hb, hd=hd, ag=ag):
                        ctx.case(('demog', form, hb, hd, ag), True,
                                 sample=dict(kind='sim-level-demog', form=form, birth=hb, death=hd, use_aging=ag, impl=str(impl), model=ml[0]) if ctx.rng.random() < 0.03 else None)
                        ctx.count('r4_demog')
                        got = f'ok {impl[1]}' if impl[0] == 'ok' else impl[0]
                        if got != ml[0] and len([b for b in ctx.broken if b['name'] == 'C17.simlevel']) < 6:
                            ctx.broke('correspondence', 'C17.simlevel', f'SimPars({line[6:]}).validate(): impl={got} ({impl[1][:60]}) model={ml[0]}',
                                      data=dict(kind='sim-spellings', group='vital-both' if (hb and hd) else 'vital-births' if hb else 'vital-deaths' if hd else 'demog-true', seed=1))
                    ask([line], cb)


# ---------------------------------------------------------------------------
# oracles

def _fail(sig, what, data):
    return dict(signature=sig, what=what, data=data)


COMMON = dict(n_agents=200, dur=6, verbose=0, networks=dict(type='random', n_contacts=4), diseases=dict(type='sir', beta=0.1, init_prev=0.05))


def spelling_group(group, seed):
    """ {tag: callable -> ss.Sim}: sim-level spellings that are documented to build the same simulation """
    import starsim as ss
    r = np.random.RandomState(seed)
    b, d = int(15 + r.randint(0, 30)), int(5 + r.randint(0, 25))
    base = dict(COMMON, rand_seed=1 + seed % 30)
    S = ss.Sim

    def fresh(**kw): return dict(copy.deepcopy(base), **kw)
    if group in ('vital-both', 'vital-births', 'vital-deaths', 'vital-aging-false', 'vital-aging-true'):
        hb = group != 'vital-deaths'; hd = group != 'vital-births'
        ag = {'vital-aging-false': dict(use_aging=False), 'vital-aging-true': dict(use_aging=True)}.get(group, {})
        short = dict(**(dict(birth_rate=b) if hb else {}), **(dict(death_rate=d) if hd else {}), **ag)
        def insts(): return ([ss.Births(birth_rate=b)] if hb else []) + ([ss.Deaths(death_rate=d)] if hd else [])
        def dicts(): return ([dict(type='births', birth_rate=b)] if hb else []) + ([dict(type='deaths', death_rate=d)] if hd else [])
        return {'rate-keywords': lambda: S(**fresh(**short)), 'rates-in-pars-dict': lambda: S(pars=fresh(**short)), 'rates-positional-dict': lambda: S(fresh(**short)),
                'pars+keywords': lambda: S(pars=fresh(), **short),
                'module-instances': lambda: S(**fresh(demographics=insts(), **ag)), 'module-dicts': lambda: S(pars=fresh(demographics=dicts(), **ag))}
    if group == 'demog-true':
        return {'True': lambda: S(**fresh(demographics=True)), 'instances': lambda: S(**fresh(demographics=[ss.Births(), ss.Deaths()])),
                'strings': lambda: S(pars=fresh(demographics=['births', 'deaths'])), 'dicts': lambda: S(fresh(demographics=[dict(type='births'), dict(type='deaths')]))}
    if group == 'aging-only':
        return {'keyword': lambda: S(**fresh(use_aging=True)), 'pars-dict': lambda: S(pars=fresh(use_aging=True)), 'pars+keyword': lambda: S(pars=fresh(), use_aging=True)}
    if group == 'no-demog':
        return {'omitted': lambda: S(**fresh()), 'empty-list': lambda: S(**fresh(demographics=[])), 'aging-false': lambda: S(**fresh(use_aging=False))}
    if group == 'pop-scale':
        k = int(2 + r.randint(0, 6))
        return {'total_pop': lambda: S(**fresh(total_pop=200 * k, death_rate=d)), 'pop_scale': lambda: S(**fresh(pop_scale=float(k), death_rate=d)),
                'pop_scale-int-in-pars': lambda: S(pars=fresh(pop_scale=k), death_rate=d)}
    if group == 'time':
        start = ss.time.default_start['year']; unit = ss.time.default_unit
        return {'dur': lambda: S(**fresh()), 'stop': lambda: S(**{k: v for k, v in fresh(stop=start + 6).items() if k != 'dur'}),
                'explicit-start-unit': lambda: S(**fresh(start=start, unit=unit)), 'start+stop': lambda: S(pars={k: v for k, v in fresh(start=start, stop=start + 6).items() if k != 'dur'})}
    if group == 'agents':
        return {'int': lambda: S(**fresh()), 'float': lambda: S(**fresh(n_agents=200.0)), 'people': lambda: S(**{k: v for k, v in fresh(people=ss.People(200)).items() if k != 'n_agents'})}
    raise ValueError(group)


SPELLING_GROUPS = ['vital-both', 'vital-births', 'vital-deaths', 'vital-aging-false', 'vital-aging-true', 'demog-true', 'aging-only', 'no-demog', 'pop-scale', 'time', 'agents']
SETTINGS = ['use_aging', 'n_agents', 'total_pop', 'pop_scale', 'unit', 'start', 'stop', 'dur', 'dt', 'rand_seed']


def fingerprint(sim):
    """ validated settings (incl. derived), module parameters, final ages, flat results — of a sim that has run """
    B = _B()
    def num(v):      # 1000 and 1000.0 are the same setting
        import numbers
        return ('num', float(v)) if isinstance(v, numbers.Number) and not isinstance(v, bool) else B.canon(v)
    st = {k: num(sim.pars[k]) for k in SETTINGS}
    mods = {mk: [(type(m).__name__, m.name, B.canon(m.pars)) for m in getattr(sim, mk).values()] for mk in B.MODKEYS}
    ages = np.asarray(sim.people.age.raw[:len(sim.people.uid.raw)], dtype=float).tobytes()
    return dict(settings=st, modules=mods, ages=ages, results=B.flat_results(sim))


def diff_fp(a, b):
    out = []
    for k in a['settings']:
        if a['settings'][k] != b['settings'][k]: out.append(f"pars.{k}: {a['settings'][k][-1]} vs {b['settings'][k][-1]}")
    for mk in a['modules']:
        if a['modules'][mk] != b['modules'][mk]:
            out.append(f"{mk}: {[(t, n) for t, n, _ in a['modules'][mk]]} vs {[(t, n) for t, n, _ in b['modules'][mk]]}" + (' (parameters differ)' if [(t, n) for t, n, _ in a['modules'][mk]] == [(t, n) for t, n, _ in b['modules'][mk]] else ''))
    if a['ages'] != b['ages']: out.append('final ages of the agents differ')
    if a['results'] != b['results']:
        ks = [k for k in a['results'] if a['results'][k] != b['results'].get(k)][:4]
        out.append(f'results differ ({ks})')
    return out


def oracle_derived(sim, supplied_aging, t_steps, where):
    """ derived settings re-derived from an initialised+run sim -> list of messages """
    import starsim as ss
    msgs = []
    p = sim.pars
    n_dem = len(sim.demographics)
    if supplied_aging is None:
        if bool(p.use_aging) != (n_dem > 0):
            msgs.append(f'{where}: use_aging was not supplied and the sim has {n_dem} demographics module(s) {list(sim.demographics.keys())}, but pars.use_aging={p.use_aging} (documented: agents age iff births and/or deaths are included)')
    elif bool(p.use_aging) != bool(supplied_aging):
        msgs.append(f'{where}: use_aging={supplied_aging} was supplied but pars.use_aging={p.use_aging}')
    try:
        if abs(float(p.total_pop) - float(p.pop_scale) * float(p.n_agents)) > 1e-9 * max(1.0, float(p.total_pop)):
            msgs.append(f'{where}: total_pop={p.total_pop} != pop_scale*n_agents={p.pop_scale}*{p.n_agents}')
    except Exception:
        pass
    return msgs


def aging_behaviour(sim_builder):
    """ does the age of the agents advance?  (init, remember ages, run, compare the survivors that were there from the start) """
    sim = sim_builder(); sim.init()
    n0 = len(sim.people.uid.raw)
    age0 = np.array(sim.people.age.raw[:n0], dtype=float)
    sim.run()
    alive = np.asarray(sim.people.alive.raw[:n0], dtype=bool)
    age1 = np.array(sim.people.age.raw[:n0], dtype=float)
    moved = bool(np.any(age1[alive] > age0[alive] + 1e-12)) if alive.any() else None
    return sim, moved


def oracle_sim_spellings(group, seed):
    B = _B()
    B.quiet()
    data = dict(kind='sim-spellings', group=group, seed=seed)
    sp = spelling_group(group, seed)
    fps = {}; errs = {}
    supplied = {'vital-aging-false': False, 'vital-aging-true': True, 'aging-only': True}.get(group)
    for tag, mk in sp.items():
        try:
            sim, moved = aging_behaviour(mk)
            fps[tag] = fingerprint(sim)
            sup = False if (group == 'no-demog' and tag == 'aging-false') else supplied
            msgs = oracle_derived(sim, sup, None, f'{group}/{tag}')
            if moved is not None and moved != bool(sim.pars.use_aging):
                msgs.append(f'{group}/{tag}: pars.use_aging={sim.pars.use_aging} but the agents\' ages {"advance" if moved else "do not advance"}')
            if msgs:
                return _fail(dict(oracle='derived-setting-wrong', setting='use_aging' if 'use_aging' in msgs[0] else 'pop'), msgs[0], data)
        except Exception as e:
            errs[tag] = f'{type(e).__name__}: {str(e)[:80]}'
    if errs and fps:
        t = list(errs)[0]
        return _fail(dict(oracle='sim-spelling-rejected'), f'{group}: spelling `{t}` fails ({errs[t]}) while `{list(fps)[0]}` builds and runs', data)
    ref = None
    for tag, fp in fps.items():
        if ref is None: ref = (tag, fp); continue
        d = diff_fp(ref[1], fp)
        if d:
            return _fail(dict(oracle='sim-spellings-differ', group=group.split('-')[0]),
                         f'{group}: sim-level spellings `{ref[0]}` and `{tag}` of one configuration build different simulations: ' + '; '.join(d[:4]), data)
    return None


def zoo_shortcut_candidates():
    """ zoo configurations whose demographics are plain Births / Deaths (rate only): they have a sim-level shortcut spelling """
    from harness import zoo
    out = []
    for name, cfg in zoo.configs():
        dem = cfg.get('demographics', [])
        if not dem or cfg.get('own_people'): continue
        if any(set(d.keys()) - {'type', 'birth_rate', 'death_rate'} for d in dem): continue
        types = [d['type'] for d in dem]
        if any(t not in ('births', 'deaths') for t in types) or len(set(types)) != len(types): continue
        out.append(name)
    return out


def oracle_zoo_shortcut(name):
    """ the zoo configuration `name` with its Births/Deaths modules vs the same written with sim-level birth_rate / death_rate """
    from harness import zoo, impl
    B = _B()
    B.quiet()
    data = dict(kind='zoo-shortcut', name=name)
    cfg = zoo.configs(names=[name])[0][1]
    dem = sorted(cfg['demographics'], key=lambda d: d['type'])          # the shortcut order: births, then deaths
    explicit = dict(cfg, demographics=dem)
    short = dict(cfg, demographics=[])
    over = {}
    for d in dem:
        if d['type'] == 'births': over['birth_rate'] = d.get('birth_rate', 20)
        else: over['death_rate'] = d.get('death_rate', 10)
    try:
        a, moved_a = aging_behaviour(lambda: impl.build_sim(explicit))
    except Exception:
        return None
    try:
        b, moved_b = aging_behaviour(lambda: impl.build_sim(short, **over))
    except Exception as e:
        return _fail(dict(oracle='sim-spelling-rejected'), f'zoo `{name}`: the sim-level shortcut spelling {over} fails ({type(e).__name__}: {str(e)[:80]}) while the module spelling runs', data)
    d = diff_fp(fingerprint(a), fingerprint(b))
    if d:
        return _fail(dict(oracle='sim-spellings-differ', group='vital'), f'zoo `{name}`: explicit Births/Deaths modules and the sim-level shortcut {over} build different simulations: ' + '; '.join(d[:4]), data)
    return None


def oracle_zoo_derived(name):
    from harness import zoo, impl
    B = _B()
    B.quiet()
    cfg = zoo.configs(names=[name])[0][1]
    try:
        sim = impl.build_sim(cfg); sim.init()
    except Exception:
        return None
    msgs = oracle_derived(sim, cfg.get('use_aging'), None, f'zoo `{name}`')
    if msgs:
        return _fail(dict(oracle='derived-setting-wrong', setting='use_aging' if 'use_aging' in msgs[0] else 'pop'), msgs[0], dict(kind='zoo-derived', name=name))
    return None


def round4_search(ctx):
    from harness import zoo
    B = _B()
    B.quiet()

    def report(f):
        if f: ctx.fail(f['signature'], f['what'], f['data'])
    for group in SPELLING_GROUPS:
        report(oracle_sim_spellings(group, ctx.rng.randint(0, 10**6))); ctx.count('oracle_sim_spellings')
    cands = zoo_shortcut_candidates()
    ctx.notes['zoo_shortcut_candidates'] = cands
    ctx.rng.shuffle(cands)
    for name in cands[:ctx.budget(4, len(cands))]:
        report(oracle_zoo_shortcut(name)); ctx.count('oracle_zoo_shortcut')
    for name, _ in zoo.configs():
        report(oracle_zoo_derived(name)); ctx.count('oracle_zoo_derived')


def replay(ctx, data):
    k = data.get('kind')
    if k == 'sim-spellings': return bool(oracle_sim_spellings(data['group'], data['seed']))
    if k == 'zoo-shortcut': return bool(oracle_zoo_shortcut(data['name']))
    if k == 'zoo-derived': return bool(oracle_zoo_derived(data['name']))
    return None
