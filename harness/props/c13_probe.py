"""
C13 instrumentation of the REAL starsim (no source hooks): class-level wrappers around the disease methods
step_state / set_prognoses / step_die, the Bernoulli `filter` / `Dist.rvs` calls made inside them (identified by their
call path = source line of every frame between the wrapped method and the call), plus sim builders for every
built-in compartmental disease.
"""
import os, sys, numpy as np
from harness import impl

METHODS = ('step_state', 'set_prognoses', 'step_die')
DISEASES = ['sir', 'sis', 'measles', 'ebola', 'cholera', 'gonorrhea', 'hiv', 'syphilis']
DAY_DISEASES = {'measles', 'ebola', 'cholera', 'gonorrhea'}


def cls_of(name):
    import starsim as ss
    return dict(sir=ss.SIR, sis=ss.SIS, measles=ss.Measles, ebola=ss.Ebola, cholera=ss.Cholera, gonorrhea=ss.Gonorrhea,
                hiv=ss.HIV, syphilis=ss.Syphilis)[name]


def name_of(disease):
    for n in DISEASES:
        if type(disease) is cls_of(n):
            return n
    return None


# ---------------------------------------------------------------------------
# sim configurations (JSON-able; built by impl.build_sim)

def gen_cfg(rng, disease, demog, second=None, small=True):
    """ One sim configuration for `disease` (optionally with a co-circulating `second` disease) """
    n_agents = rng.choice([80, 120, 160] if small else [300, 500])
    cfg = dict(n_agents=n_agents, rand_seed=rng.randint(0, 10_000))
    if disease in DAY_DISEASES:
        cfg.update(unit='day', dt=rng.choice([1, 1, 2]), start='2020-01-01')
        cfg['dur'] = cfg['dt'] * rng.randint(25, 40)
    elif disease == 'syphilis':
        cfg.update(unit='year', dt=1.0, start=2000, dur=rng.randint(22, 32))
    else:
        dt = rng.choice([1.0, 0.5, 0.25])
        cfg.update(unit='year', dt=dt, start=2000, dur=round(dt * rng.randint(10, 16), 6))
    cfg['diseases'] = [disease_cfg(rng, disease)]
    if second:
        cfg['diseases'].append(disease_cfg(rng, second))
    nets = [dict(type='random', n_contacts=rng.choice([2, 4, 6]), dur=0)]
    if rng.random() < 0.3:
        nets.append(dict(type='mf', duration=rng.choice([1, 3])))
    cfg['networks'] = nets
    dem = []
    if demog:
        dem.append(dict(type='deaths', death_rate=rng.choice([20, 60, 150])))
        vertical = disease in ('syphilis', 'hiv') or second in ('syphilis', 'hiv')    # congenital outcomes need births + a maternal network
        if vertical or rng.random() < 0.6:
            dem.append(dict(type='pregnancy', fertility_rate=rng.choice([150, 300]) if vertical else rng.choice([60, 150]), burnin=True))
            if vertical or rng.random() < 0.5:
                cfg['networks'].append(dict(type='maternal'))
    cfg['demographics'] = dem
    return cfg


def disease_cfg(rng, d):
    c = dict(type=d, init_prev=rng.choice([0.1, 0.2, 0.3]))
    if d == 'sir':
        c.update(beta=rng.choice([0.1, 0.3, 0.8]), dur_inf=rng.choice([1, 2, 4]), p_death=rng.choice([0, 0.1, 0.3]))
    elif d == 'sis':
        c.update(beta=rng.choice([0.1, 0.3, 0.8]), dur_inf=rng.choice([1, 2, 4]))
    elif d in ('measles', 'ebola', 'cholera'):
        c.update(beta=rng.choice([0.1, 0.3]))
        if d != 'ebola':
            c['p_death'] = rng.choice([0.005, 0.1, 0.3])
    elif d == 'gonorrhea':
        c.update(beta=rng.choice([0.3, 0.6]), p_clear=rng.choice([0.2, 0.6, 0.9]))
    elif d == 'hiv':
        c.update(beta=rng.choice([0.1, 0.3]))
        # non-default CD4 range (the default cd4_max equals the default CD4 count of an uninfected agent: a coincidence the
        # model must not rely on), either side of the default
        c.update(cd4_max=rng.choice([500, 800, 350]), cd4_min=rng.choice([100, 50]))
    elif d == 'syphilis':
        c.update(beta=rng.choice([0.3, 0.6]))
    return c


def clock_of(disease):
    """ 'inherited' when the module steps with the simulation (its index `disease.ti` IS `sim.ti`), else 'own-timestep' """
    try:
        t, st = disease.t, disease.sim.t
        same = float(t.dt) == float(st.dt) and str(t.unit) == str(st.unit)
        if same:    # same step, but a later start / earlier stop shifts the module's index against the simulation's
            same = np.array_equal(np.asarray(t.yearvec, dtype=float), np.asarray(st.yearvec, dtype=float))
    except Exception:
        same = True
    return 'inherited' if same else 'own-timestep'


def all_active(sim):
    return sim.people.auids


class Cohort:
    """ eligibility = the active agents of an explicit uid range (a fixed enrolled group, whatever their infection status) """
    def __init__(self, lo, hi): self.lo = lo; self.hi = hi
    def __call__(self, sim):
        import starsim as ss
        a = np.asarray(sim.people.auids)
        return ss.uids(a[(a >= self.lo) & (a < self.hi)])


def make_treatment(t):
    """ JSON-able treatment spec -> intervention (eligibility is deliberately WIDER than the product's pre-treatment states) """
    import starsim as ss, pandas as pd
    kind = t['kind']
    if kind == 'tx':      # generic ss.Tx product + capacity-limited queue
        df = pd.DataFrame([dict(name='cure', disease=r[0], state=r[1], efficacy=r[3], post_state=r[2]) for r in t['rows']])
        elig = Cohort(*t['cohort']) if t.get('cohort') else all_active
        return ss.treat_num(product=ss.Tx(df), prob=t.get('prob', 0.5), max_capacity=t.get('max_capacity'), eligibility=elig)
    if kind == 'syph':
        return ss.syph_treatment(product='bpg', prob=t.get('prob', 0.5), max_capacity=t.get('max_capacity'), eligibility=all_active)
    raise ValueError(kind)


def make_disease(d):
    """ impl._disease, plus the module's OWN timestep (`dt` / `unit` given to the disease, not the sim): impl's builders for
        sir / sis pass a fixed list of keywords, so the two timeline keywords are added here (impl.py is shared, not edited) """
    import starsim as ss
    d = dict(d)
    if hasattr(impl, '_own_time'):      # impl._disease passes the module's own dt / unit / start / stop through by now
        return impl._disease(d)
    own = {k: d.pop(k) for k in ('dt', 'unit') if k in d}
    if not own:
        return impl._disease(d)
    if d['type'] in ('sir', 'sis'):
        kw = {k: d[k] for k in ('beta', 'init_prev', 'dur_inf', 'p_death', 'waning', 'name') if k in d}
        return dict(sir=ss.SIR, sis=ss.SIS)[d['type']](**kw, **own)
    return impl._disease(dict(d, **own))


def build(cfg, extra_interventions=None, **kw):
    """ impl.build_sim plus the treatment interventions named in cfg['treatments'] and diseases on their own timestep """
    intv = list(extra_interventions or []) + [make_treatment(t) for t in cfg.get('treatments', [])]
    if any('dt' in d or 'unit' in d for d in cfg.get('diseases', [])):
        kw = dict(kw, diseases=[make_disease(d) for d in cfg['diseases']])
    sim = impl.build_sim(cfg, extra_interventions=intv or None, **kw)
    return sim


def own_timestep_cfgs(rng, reps=1):
    """
    Scenario family "the disease module runs on its own timestep" (round 3): `dt` (and `unit`) are given to the DISEASE, so
    the module's step index `self.ti` and the simulation's `sim.ti` are different clocks.  Every built-in disease is run
    with a FINER step than the simulation (the module index runs ahead of the sim's) and with a COARSER one (it lags), long
    enough that the gap between the two indices exceeds the sampled durations; plus co-circulating diseases on different
    clocks in one sim.  Both the correspondence and the oracle run all of them on every run.
    """
    out = []
    for _ in range(reps):
        for d in DISEASES:
            for mode in ('finer', 'coarser'):
                cfg = dict(n_agents=rng.choice([100, 140]), rand_seed=rng.randint(0, 10_000))
                dc = disease_cfg(rng, d)
                if d in DAY_DISEASES:
                    if mode == 'finer':
                        sdt = rng.choice([2, 4]); mdt = rng.choice([1, sdt // 2]); nstep = rng.randint(24, 32)
                    else:
                        sdt = 1; mdt = rng.choice([2, 3]); nstep = rng.randint(36, 48)
                    cfg.update(unit='day', dt=sdt, start='2020-01-01', dur=sdt * nstep)
                    dc.update(unit='day', dt=mdt)
                else:
                    if mode == 'finer':
                        sdt = rng.choice([1.0, 0.5]); mdt = sdt * rng.choice([0.5, 0.25]); nstep = rng.randint(24, 32)
                    else:
                        sdt = rng.choice([0.5, 0.25]); mdt = sdt * rng.choice([2, 3]); nstep = rng.randint(36, 48)
                    cfg.update(unit='year', dt=sdt, start=2000, dur=round(sdt * nstep, 6))
                    dc.update(unit='year', dt=mdt)
                if d == 'sir': dc['p_death'] = rng.choice([0.1, 0.3])
                cfg['diseases'] = [dc]
                cfg['networks'] = [dict(type='random', n_contacts=rng.choice([2, 4]), dur=0)]
                dem = []
                if rng.random() < 0.6 or d in ('hiv', 'syphilis'):
                    dem.append(dict(type='deaths', death_rate=rng.choice([20, 60])))
                    if d in ('hiv', 'syphilis'):
                        dem.append(dict(type='pregnancy', fertility_rate=150, burnin=True))
                        cfg['networks'].append(dict(type='maternal'))
                cfg['demographics'] = dem
                cfg['family'] = f'own-timestep/{mode}'
                out.append(cfg)
        # co-circulating diseases on different clocks in one sim (one inherits the sim's step, one is finer, one coarser)
        out.append(dict(n_agents=150, rand_seed=rng.randint(0, 10_000), unit='year', dt=1.0, start=2000, dur=20, family='own-timestep/mixed',
                        diseases=[dict(type='sir', beta=0.3, init_prev=0.2, dur_inf=4, p_death=0.2),
                                  dict(type='sis', beta=0.3, init_prev=0.2, dur_inf=2, dt=0.5, unit='year'),
                                  dict(type='hiv', beta=0.3, init_prev=0.1, dt=2.0, unit='year')],
                        networks=[dict(type='random', n_contacts=4, dur=0)], demographics=[dict(type='deaths', death_rate=40)]))
        out.append(dict(n_agents=150, rand_seed=rng.randint(0, 10_000), unit='day', dt=2, start='2020-01-01', dur=60, family='own-timestep/mixed',
                        diseases=[dict(type='sis', beta=0.3, init_prev=0.2, dur_inf=6, dt=1, unit='day'),
                                  dict(type='gonorrhea', beta=0.6, init_prev=0.3, p_clear=0.8),
                                  dict(type='measles', beta=0.3, init_prev=0.2, p_death=0.1, dt=4, unit='day')],
                        networks=[dict(type='random', n_contacts=4, dur=0)], demographics=[]))
    return out


def scenario_cfgs(rng):
    """ Fixed scenario families that every run exercises (next to the random per-disease configurations) """
    out = []
    base = lambda **k: dict(dict(n_agents=150, rand_seed=rng.randint(0, 10_000), unit='year', dt=1.0, start=2000,
                                 networks=[dict(type='random', n_contacts=4, dur=0)], demographics=[]), **k)
    # treatment product with a capacity-limited queue, acceptance < 1, eligibility wider than the treated state
    out.append(base(dur=18, diseases=[dict(type='sir', beta=0.3, init_prev=0.2, dur_inf=8, p_death=0.05)],
                    demographics=[dict(type='deaths', death_rate=40)],
                    treatments=[dict(kind='tx', rows=[['sir', 'infected', 'recovered', 0.9]], prob=0.5, max_capacity=rng.choice([8, 15]))]))
    # a small explicit-uid cohort signing up faster than the clinic's capacity: long-lived backlog, repeated sign-ups
    out.append(base(n_agents=200, unit='day', dt=1, start='2020-01-01', dur=60,
                    diseases=[dict(type='sir', beta=0.05, init_prev=0.05, dur_inf=20, p_death=0.2)],
                    demographics=[dict(type='deaths', death_rate=100)],
                    treatments=[dict(kind='tx', rows=[['sir', 'infected', 'recovered', 1.0]], prob=rng.choice([0.3, 0.4]),
                                     max_capacity=rng.choice([8, 10]), cohort=[100, 140])]))
    out.append(base(dur=20, diseases=[dict(type='sis', beta=0.3, init_prev=0.3, dur_inf=6)],
                    treatments=[dict(kind='tx', rows=[['sis', 'infected', 'susceptible', 0.8]], prob=0.6, max_capacity=rng.choice([10, 20]))]))
    # one product covering two co-circulating diseases that share a state name but differ in the post-treatment state
    out.append(base(dur=20, diseases=[dict(type='sir', beta=0.3, init_prev=0.2, dur_inf=8, p_death=0.0),
                                      dict(type='sis', beta=0.3, init_prev=0.2, dur_inf=6)],
                    treatments=[dict(kind='tx', rows=[['sir', 'infected', 'recovered', 0.9], ['sis', 'infected', 'susceptible', 0.9]],
                                     prob=0.5, max_capacity=rng.choice([12, 30]))]))
    # syphilis with the built-in treatment product (long history: stages up to latent/tertiary are reached and treated)
    out.append(base(n_agents=200, dur=32, diseases=[dict(type='syphilis', beta=0.5, init_prev=0.3)],
                    treatments=[dict(kind='syph', prob=0.3, max_capacity=rng.choice([10, 25]))]))
    # two instances of one class in one sim
    out.append(base(dur=12, diseases=[dict(type='sir', name='sir_a', beta=0.3, init_prev=0.2, dur_inf=3, p_death=0.2),
                                      dict(type='sir', name='sir_b', beta=0.1, init_prev=0.1, dur_inf=6, p_death=0.0)],
                    demographics=[dict(type='deaths', death_rate=60)]))
    # long reinfection histories
    out.append(base(unit='day', dt=1, start='2020-01-01', dur=70, diseases=[dict(type='gonorrhea', beta=0.6, init_prev=0.3, p_clear=0.8)]))
    out.append(base(dur=60, dt=0.5, diseases=[dict(type='sis', beta=0.5, init_prev=0.2, dur_inf=2)],
                    demographics=[dict(type='deaths', death_rate=30)]))
    # boundary values: nobody / everybody infected at the start, certain death
    out.append(base(dur=8, diseases=[dict(type='sir', beta=0.3, init_prev=0.0, dur_inf=3, p_death=0.0)]))
    out.append(base(dur=8, diseases=[dict(type='sir', beta=0.3, init_prev=1.0, dur_inf=2, p_death=1.0)]))
    return out


# ---------------------------------------------------------------------------
# recording

class Call:
    """ one recorded invocation of a disease method """
    # `ti` = the step index of the MODULE (`disease.ti`; what the disease code calls `self.ti`), `sim_ti` = the simulation's
    __slots__ = ('disease', 'name', 'method', 'ti', 'sim_ti', 'auids', 'before', 'after', 'args', 'dist_calls', 'entry', 'exit', 'seq', 'extra')


class Recorder:
    """
    with Recorder(facts, on_call) as rec:  run a sim; `on_call(call)` is invoked after every top-level disease-method call.
    `facts`: {disease name: extractor facts}; used for the flag order and to know which atoms to evaluate.
    """
    def __init__(self, facts, on_call, eval_atoms=True, on_entry=None, on_outside=None):
        self.facts = facts; self.on_call = on_call; self.eval_atoms = eval_atoms; self.on_entry = on_entry
        self.on_outside = on_outside
        self.depth = {}         # id(disease) -> nesting depth of wrapped calls
        self.cur = None         # the Call being recorded
        self.ddepth = 0
        self.patched = []
        self.seq = 0
        self.errors = []

    # -- patching ----------------------------------------------------------
    def __enter__(self):
        import starsim as ss
        rec = self
        for n in DISEASES:
            C = cls_of(n)
            for m in METHODS:
                had = m in C.__dict__
                orig = getattr(C, m)
                setattr(C, m, self._wrap(C, n, m, orig))
                self.patched.append((C, m, had, orig))
        # distribution calls
        D = ss.Dist; B = ss.bernoulli
        self._orig_rvs = D.rvs; self._orig_filter = B.filter

        def rvs_w(dist, *a, **kw):
            if rec.cur is None or rec.ddepth > 0:
                return rec._orig_rvs(dist, *a, **kw)
            rec.ddepth += 1
            try:
                out = rec._orig_rvs(dist, *a, **kw)
            finally:
                rec.ddepth -= 1
            try:
                if isinstance(dist, B) and a and isinstance(a[0], np.ndarray) and not isinstance(a[0], ss.BoolArr):
                    inp = np.asarray(a[0]); o = np.asarray(out)
                    if o.dtype == bool and o.shape == inp.shape:
                        rec.cur.dist_calls.append((rec._path(sys._getframe(1)), 'rvs', inp.copy(), inp[o].copy()))
            except Exception as e:
                rec.errors.append(f'rvs probe: {e}')
            return out

        def filter_w(dist, *a, **kw):
            if rec.cur is None or rec.ddepth > 0:
                return rec._orig_filter(dist, *a, **kw)
            rec.ddepth += 1
            try:
                out = rec._orig_filter(dist, *a, **kw)
            finally:
                rec.ddepth -= 1
            try:
                arg = a[0] if a else kw.get('uids')
                if arg is not None and not kw.get('both', False):
                    inp = np.asarray(arg.uids if isinstance(arg, (ss.BoolArr, ss.IndexArr)) else arg)
                    rec.cur.dist_calls.append((rec._path(sys._getframe(1)), 'filter', inp.copy(), np.asarray(out).copy()))
            except Exception as e:
                rec.errors.append(f'filter probe: {e}')
            return out
        D.rvs = rvs_w; B.filter = filter_w
        # flag writers outside the disease classes
        self.outside = []
        self.odepth = 0
        for label, C, m in [('Tx.administer', ss.Tx, 'administer'), ('syph_treatment.step', ss.syph_treatment, 'step'),
                            ('ART.step', ss.ART, 'step'), ('Syphilis.set_congenital', ss.Syphilis, 'set_congenital'),
                            ('Vx.administer', ss.Vx, 'administer'), ('Dx.administer', ss.Dx, 'administer')]:
            had = m in C.__dict__
            orig = getattr(C, m)
            setattr(C, m, self._wrap_outside(label, orig))
            self.outside.append((C, m, had, orig))
        return self

    def __exit__(self, *exc):
        import starsim as ss
        for C, m, had, orig in reversed(self.patched):
            if had: setattr(C, m, orig)
            else: delattr(C, m)
        for C, m, had, orig in reversed(self.outside):
            if had: setattr(C, m, orig)
            else: delattr(C, m)
        ss.Dist.rvs = self._orig_rvs; ss.bernoulli.filter = self._orig_filter
        self.patched = []
        return False

    @staticmethod
    def _path(frame):
        """ (file, line) of every starsim-disease frame from the wrapped method's own frame down to `frame` """
        out = []
        f = frame
        while f is not None:
            if f.f_code.co_name == '_c13_top_wrapper':
                break
            fn = f.f_code.co_filename
            if os.sep + 'starsim' + os.sep in fn:
                out.append((os.path.basename(fn), f.f_lineno))
            f = f.f_back
        return tuple(reversed(out))

    def _snap(self, sim, au):
        out = {}
        for nm, dis in sim.diseases.items():
            dn = name_of(dis)
            if dn is None or dn not in self.facts: continue
            fl = self.facts[dn]['flags']
            out[nm] = (dis, dn, np.stack([np.asarray(getattr(dis, f).raw[au], dtype=bool) for f in fl], axis=1))
        return out

    def _wrap_outside(self, label, orig):
        rec = self

        def _c13_outside(obj, *a, **kw):
            sim = getattr(obj, 'sim', None)
            if rec.odepth > 0 and label == 'Tx.administer':
                rec.last_tx_uids = np.asarray(a[0] if a else kw.get('uids')).copy()     # who the enclosing intervention treats
            if rec.odepth > 0 or rec.cur is not None or sim is None or rec.on_outside is None:
                return orig(obj, *a, **kw)
            rec.last_tx_uids = None
            rec.odepth += 1
            au = np.asarray(sim.people.auids).copy()
            before = rec._snap(sim, au)
            seq0 = rec.seq
            try:
                out = orig(obj, *a, **kw)
            finally:
                rec.odepth -= 1
            after = rec._snap(sim, au)
            rec.on_outside(dict(label=label, obj=obj, args=(a, kw), result=out, auids=au, before=before, after=after, tx_uids=rec.last_tx_uids,
                                ti=int(sim.ti), mixed=rec.seq != seq0))
            return out
        return _c13_outside

    def _wrap(self, C, dname, meth, orig):
        rec = self

        def _c13_top_wrapper(self, *a, **kw):
            key = id(self)
            if type(self) is not C or rec.depth.get(key, 0) > 0 or rec.cur is not None:
                return orig(self, *a, **kw)      # a super() call reaching a patched parent, or a nested call
            rec.depth[key] = 1
            call = Call()
            call.disease = self; call.name = dname; call.method = meth
            call.sim_ti = int(self.sim.ti); call.ti = int(self.ti) if self.ti is not None else call.sim_ti; call.args = (a, kw); call.dist_calls = []
            flags = rec.facts[dname]['flags']
            au = np.asarray(self.sim.people.auids).copy()
            call.auids = au
            call.before = np.stack([np.asarray(getattr(self, f).raw[au], dtype=bool) for f in flags], axis=1) if len(flags) else None
            call.entry = rec._eval(self, dname, meth, 'entry', au) if rec.eval_atoms else {}
            rec.seq += 1; call.seq = rec.seq; call.extra = None
            if rec.on_entry is not None: rec.on_entry(call)
            rec.cur = call
            try:
                out = orig(self, *a, **kw)
            finally:
                rec.cur = None
                rec.depth[key] = 0
            au2 = np.asarray(self.sim.people.auids)
            if len(au2) != len(au) or not np.array_equal(au2, au):
                rec.errors.append(f'{dname}.{meth}: active agents changed inside the method')
            call.after = np.stack([np.asarray(getattr(self, f).raw[au], dtype=bool) for f in flags], axis=1)
            call.exit = rec._eval(self, dname, meth, 'exit', au) if rec.eval_atoms else {}
            rec.on_call(call)
            return out
        return _c13_top_wrapper

    def _eval(self, disease, dname, meth, when, au):
        """ evaluate the comparison / external / configuration atoms observable at `when` on the live arrays """
        import starsim as ss
        out = {}
        for a in self.facts[dname]['methods'][meth]['atoms']:
            kind = a['kind']
            if kind == 'cmp' and a.get('observe') != when: continue
            if kind in ('ext', 'cfg') and when != 'entry': continue
            if kind not in ('cmp', 'ext', 'cfg'): continue
            try:
                v = eval(a['text'], {'np': np, 'ss': ss}, {'self': disease})
                if isinstance(v, ss.Arr):
                    v = np.asarray(v.raw[au])
                v = np.asarray(v)
                if v.ndim == 0:
                    v = np.full(len(au), bool(v))
                elif v.shape != (len(au),):
                    raise ValueError(f'shape {v.shape}')
                out[a['field']] = v.astype(bool)
            except Exception as e:
                self.errors.append(f'{dname}.{meth}: cannot evaluate atom {a["field"]} `{a["text"]}`: {type(e).__name__}: {e}')
        return out


def guard_matrix(call, facts):
    """ (values, known) bool matrices [n_agents x n_atoms] for the call's method; plus the uid argument (or None) """
    import starsim as ss
    atoms = facts[call.name]['methods'][call.method]['atoms']
    au = call.auids; n = len(au)
    vals = np.zeros((n, len(atoms)), dtype=bool); known = np.zeros((n, len(atoms)), dtype=bool)
    a, kw = call.args
    argnames = ['uids', 'sources']
    uid_arg = None
    seen_paths = {}
    for j, at in enumerate(atoms):
        k = at['kind']
        if k in ('cmp', 'ext', 'cfg'):
            src = call.entry if at['field'] in call.entry else call.exit
            if at['field'] in src:
                vals[:, j] = src[at['field']]; known[:, j] = True
        elif k == 'param':
            pos = argnames.index(at['text']) if at['text'] in argnames else None
            arg = None
            if pos is not None and pos < len(a): arg = a[pos]
            elif kw:
                # keyword by any name: take the pos-th declared parameter name is unknown here; accept the common names
                for nm in (at['text'], 'uids', 'source_uids', 'sources'):
                    if nm in kw: arg = kw[nm]; break
            if arg is not None:
                if isinstance(arg, (ss.BoolArr, ss.IndexArr)): arg = arg.uids
                arr = np.asarray(arg)
                if arr.dtype == bool and arr.shape == (n,):
                    vals[:, j] = arr
                else:
                    vals[:, j] = np.isin(au, arr)
                known[:, j] = True
                if at['text'] == 'uids': uid_arg = vals[:, j].copy()
        elif k == 'filter':
            spath = [tuple(p) for p in at['path']]
            idx = seen_paths.get(tuple(map(tuple, spath)), 0)
            seen_paths[tuple(map(tuple, spath))] = idx + 1
            hits = [dc for dc in call.dist_calls if dc[1] == at['call'] and path_match(spath, dc[0])]
            if idx < len(hits):
                _, _, inp, tru = hits[idx]
                inset = np.isin(au, inp)
                vals[:, j] = np.isin(au, tru)
                known[:, j] = True      # for agents outside the input the atom is irrelevant (conjoined with the base mask): 0
                vals[~inset, j] = False
        # 'len' atoms stay unknown
    return vals, known, uid_arg


def path_match(static, dynamic):
    if len(static) != len(dynamic): return False
    for (f, lo, hi), (g, ln) in zip(static, dynamic):
        if f != g or not (lo <= ln <= hi): return False
    return True


def bits(row):
    return ''.join('1' if b else '0' for b in row)
