"""
C13 — Disease compartments partition the living and follow allowed moves.

prove:       Props/C13.lean over Generated/Disease_<name>.lean (regenerated from starsim/diseases/*.py on every run by
             harness/extractors/diseases.py) and the hand-written Model/Compartments.lean.
correspond:  every built-in disease, with and without demographics (and two co-circulating pairs): every call of
             step_state / set_prognoses / step_die of the real classes is wrapped; per-agent flag vectors before and after
             plus the observed guard atoms (timer comparisons evaluated on the live arrays, membership in the `uids`
             argument, Bernoulli filter outcomes caught at their call path) go to the Lean driver, whose generated
             per-agent function must reproduce the after-vector for every agent and call.  The hypotheses used by the
             theorems are checked on every observed agent-step, and so is the frame condition (nothing but the modelled
             methods writes disease flags between calls).
search:      the property on the real code only: per-step partition, dead-hold-none, whole-step arrows, exit timers not
             before infection, new/cum_infections = number of infection events (= distinct agents where immunity is permanent).
"""
import json
import numpy as np
from harness.props import c13_probe as P
from harness.props import c13_simcore

PROP = 'C13'
GENERATED = ['Disease_' + n for n in P.DISEASES] + ['Treat_syphilis', 'PhaseOrder']
DRIVER = 'Drivers/C13.lean'
DRIVER_MODULES = ['StarsimModel.Generated.Disease_' + n for n in P.DISEASES] + ['StarsimModel.Generated.Treat_syphilis', 'StarsimModel.Model.Proto', 'StarsimModel.Model.SimCore']
RULE = ('generated sims for each of the 8 built-in compartmental diseases, with and without demographics (Deaths, Pregnancy), plus '
        'co-circulating pairs; one case = one distinct (disease, method, flag vector before, observed guard valuation) of a real '
        'method call, compared with the generated Lean per-agent function; non-trivial = the method changed at least one flag of that agent')
TRUSTED = ['harness/extractors/diseases.py: the AST translator of the mask-assignment vocabulary (fails closed on anything else); '
           'its output is compared agent-by-agent with the real methods on every run',
           'NumPy/starsim array indexing semantics as used by `Arr.__setitem__` with uid / BoolArr keys (active agents only)']
ASSUMPTIONS = ['timer comparisons and Bernoulli outcomes are free Boolean guards in the theorems (sound over-approximation); relations '
               'between timers that a theorem needs are explicit hypotheses, checked on every observed agent-step',
               'set_prognoses is only called on susceptible agents (C12); checked on every observed call',
               'flag writers outside step_state/set_prognoses/step_die (treatment interventions, set_congenital) are outside the '
               'theorems; the frame check reports any such write in the generated sims; the oracle sees their effect']

# hypotheses of the theorems, checked on every observed agent-step: (disease, method) -> [(name, fn(before, G) -> bool array of violations)]
def _hyp_measles(before, G):
    return (before['exposed'] | before['infected']) & G['c_ti_recovered_le'] & ~G['c_ti_infected_le']

def _hyp_syph(before, G):
    return G['c_ti_congenital_eq'] & ~before['susceptible']

HYPOTHESES = {
    ('measles', 'step_state'): [('recovery-due-implies-infection-due', _hyp_measles)],
    ('syphilis', 'step_state'): [('congenital-due-only-for-susceptible', _hyp_syph)],
}


def locked_drive(ctx, lines):
    """
    Drive the generated model.  (Round 1 took the project lock and re-extracted here because concurrent checks could swap
    Generated/*.lean between the prove step and the correspondence; the framework now serialises extract+build itself,
    gives scratch-tree runs a private copy of the Lean project and locks inside `ctx.drive`, so nothing is needed here -
    and taking the lock here would deadlock with `ctx.drive`.)
    """
    return ctx.drive(DRIVER, lines)


HYP_SIGNATURE = {
    'infect-only-susceptible': lambda n, clock: dict(oracle='infect-nonsusceptible', disease=n),
    'recovery-due-implies-infection-due': lambda n, clock: dict(oracle='timer', disease=n, timer='ti_recovered', kind='due-before-onset'),
    'congenital-due-only-for-susceptible': lambda n, clock: dict(oracle='timer', disease=n, timer='ti_congenital', kind='due-for-non-susceptible', clock=clock),
}


def get_facts(ctx):
    facts = {}
    for n in P.DISEASES:
        e = ctx.extracted.get('Disease_' + n)
        if e and e.get('facts'):
            facts[n] = e['facts']
    return facts


def plan(ctx, per_disease_quick, per_disease_thorough, small=True):
    cfgs = P.scenario_cfgs(ctx.rng)      # families every run exercises: treatment products, two instances, long histories, boundaries
    # every disease on its OWN timestep, finer and coarser than the simulation's (module clock != sim clock), and mixed clocks in one sim
    cfgs += P.own_timestep_cfgs(ctx.rng, reps=ctx.budget(1, 2))
    k = ctx.budget(per_disease_quick, per_disease_thorough)
    for d in P.DISEASES:
        for i in range(k):
            cfgs.append(P.gen_cfg(ctx.rng, d, demog=bool(i % 2), small=small))
    for a, b in [('sir', 'sis'), ('hiv', 'syphilis'), ('measles', 'sir')][:ctx.budget(2, 3)]:
        cfgs.append(P.gen_cfg(ctx.rng, a, demog=True, second=b, small=small))
    # vertical transmission (syphilis congenital outcomes are rare): one larger, high-fertility, high-prevalence run
    for i in range(ctx.budget(1, 4)):
        cfgs.append(dict(n_agents=250, rand_seed=ctx.rng.randint(0, 10_000), unit='year', dt=1.0, start=2000, dur=30,
                         diseases=[dict(type='syphilis', beta=0.9, init_prev=0.5)],
                         networks=[dict(type='random', n_contacts=4, dur=0), dict(type='maternal')],
                         demographics=[dict(type='pregnancy', fertility_rate=300, burnin=True), dict(type='deaths', death_rate=20)]))
    return cfgs


# ---------------------------------------------------------------------------
# correspondence

def correspond(ctx):
    c13_simcore.correspond(ctx)      # whole runs of the composed step model (Model/SimCore.lean)
    facts = get_facts(ctx)
    missing = [n for n in P.DISEASES if n not in facts]
    if missing:
        ctx.notes['diseases_without_model'] = missing
    if not facts:
        return
    # the driver's view of the generated records must be the extractor's
    q = []
    for n in facts:
        q.append(f'names {n}')
        for m in P.METHODS: q.append(f'guards {n} {m}')
    ans = locked_drive(ctx, q)
    it = iter(ans)
    for n in facts:
        a = next(it)
        if a != 'ok ' + ','.join(facts[n]['flags']):
            ctx.broke('correspondence', f'C13.names.{n}', f'driver flag order `{a}` differs from the extractor facts {facts[n]["flags"]}')
        for m in P.METHODS:
            a = next(it)
            if a != f'ok {len(facts[n]["methods"][m]["atoms"])}':
                ctx.broke('correspondence', f'C13.guards.{n}.{m}', f'driver says `{a}`, extractor has {len(facts[n]["methods"][m]["atoms"])} atoms')
    if ctx.broken and any(b['name'].startswith('C13.names') or b['name'].startswith('C13.guards') for b in ctx.broken):
        return

    table = {}      # (disease, method, before bits, guard string) -> {after bits: [count, example]}
    hyp_checks = {}; hyp_viol = {}
    frame = dict(checked=0, violations=[])
    unknown_atoms = {}
    state = dict(cfg=None, last={})
    atom_seen = {}
    ti_now = {}     # disease -> [infections recorded at the current step, recorded at another time]

    clock_obs = {}  # ('finer', r, sim index) -> module indices seen;  ('coarser', c, module index) -> sim indices seen

    def on_call(call):
        n = call.name
        if n not in facts: return
        fl = facts[n]['flags']
        # the two-clock model (Model/TimerOps.lean) against the real loop: module index vs simulation index at this call
        try:
            dis = call.disease
            if P.clock_of(dis) == 'own-timestep' and str(dis.t.unit) == str(dis.sim.t.unit):
                a, b = float(dis.sim.t.dt), float(dis.t.dt)
                if a / b >= 2 and float(a / b).is_integer():
                    clock_obs.setdefault(('finer', int(a / b), call.sim_ti), set()).add(call.ti)
                elif b / a >= 2 and float(b / a).is_integer():
                    # step_die is called on the simulation's clock (People.step_die); the other methods on the module's own
                    clock_obs.setdefault(('coarser', int(b / a), call.ti), set()).add((call.sim_ti, call.method == 'step_die'))
        except Exception as e:
            ctx.broke('correspondence', 'C13.clock', f'cannot read the timelines of {n}: {type(e).__name__}: {e}')
        vals, known, uid_arg = P.guard_matrix(call, facts)
        atoms = facts[n]['methods'][call.method]['atoms']
        au = call.auids
        # frame condition
        key = id(call.disease)
        if key in state['last']:
            pau, paf = state['last'][key]
            common, i0, i1 = np.intersect1d(pau, au, assume_unique=True, return_indices=True)
            diff = (paf[i0] != call.before[i1]).any(axis=1)
            frame['checked'] += len(common)
            if diff.any() and len(frame['violations']) < 5:
                j = int(np.flatnonzero(diff)[0])
                frame['violations'].append(dict(disease=n, ti=call.ti, before_method=call.method, uid=int(common[j]),
                                                was=P.bits(paf[i0][j]), now=P.bits(call.before[i1][j]), cfg=state['cfg']))
            new = ~np.isin(au, pau)
        else:
            new = np.zeros(len(au), dtype=bool)
        if new.any():   # agents that appeared since the last call must carry the default flags (susceptible only)
            default = np.array([f == 'susceptible' for f in fl])
            bad = new & (call.before != default).any(axis=1)
            if bad.any() and len(frame['violations']) < 5:
                j = int(np.flatnonzero(bad)[0])
                frame['violations'].append(dict(disease=n, ti=call.ti, before_method=call.method, uid=int(au[j]), was='new agent',
                                                now=P.bits(call.before[j]), cfg=state['cfg']))
        state['last'][key] = (au, call.after)
        # hypotheses
        bd = {f: call.before[:, i] for i, f in enumerate(fl)}
        G = {a['field']: vals[:, j] for j, a in enumerate(atoms)}
        if call.method == 'set_prognoses' and uid_arg is not None:
            hyp_checks['infect-only-susceptible'] = hyp_checks.get('infect-only-susceptible', 0) + int(uid_arg.sum())
            v = uid_arg & ~bd['susceptible']
            if v.any():
                hyp_viol.setdefault((n, 'infect-only-susceptible', P.clock_of(call.disease)), dict(n=0, ti=call.ti, uid=int(au[np.flatnonzero(v)[0]]), cfg=state['cfg']))['n'] += int(v.sum())
        if call.method == 'set_prognoses' and uid_arg is not None and uid_arg.any():
            tinf = np.asarray(call.disease.ti_infected.raw[au[uid_arg]], dtype=float)
            c = ti_now.setdefault(n, [0, 0])
            c[0] += int((tinf == call.ti).sum()); c[1] += int((tinf != call.ti).sum())
        for hname, fn in HYPOTHESES.get((n, call.method), []):
            try:
                v = fn(bd, G)
            except KeyError as e:
                ctx.broke('correspondence', f'C13.hypothesis.{hname}', f'atom {e} named by the hypothesis is not in the generated guards of {n}.{call.method}')
                continue
            hyp_checks[hname] = hyp_checks.get(hname, 0) + len(au)
            if v.any():
                hyp_viol.setdefault((n, hname, P.clock_of(call.disease)), dict(n=0, ti=call.ti, uid=int(au[np.flatnonzero(v)[0]]), cfg=state['cfg']))['n'] += int(v.sum())
        # distinct rows
        if len(au) == 0: return
        nf = len(fl); ng = len(atoms)
        code = np.zeros(len(au), dtype=object)
        rows = np.concatenate([call.before, vals & known, known, call.after], axis=1)
        uniq, idx, cnt = np.unique(rows, axis=0, return_index=True, return_counts=True)
        for r, i, c in zip(uniq, idx, cnt):
            b = P.bits(r[:nf]); g = ''.join(('1' if r[nf + j] else '0') if r[nf + ng + j] else '?' for j in range(ng)) or '-'
            a = P.bits(r[nf + 2 * ng:])
            slot = table.setdefault((n, call.method, b, g), {})
            e = slot.setdefault(a, [0, dict(ti=call.ti, uid=int(au[i]), cfg=state['cfg'])])
            e[0] += int(c)
        for j, a in enumerate(atoms):
            sv = atom_seen.setdefault(f'{n}.{call.method}.{a["field"]}', set())
            kn = known[:, j]
            if kn.any():
                if vals[kn, j].any(): sv.add(1)
                if (~vals[kn, j]).any(): sv.add(0)
            if not known[:, j].all():
                unknown_atoms[(n, call.method, a['field'])] = unknown_atoms.get((n, call.method, a['field']), 0) + int((~known[:, j]).sum())

    treat_rows = {}     # (before bits, guard string) -> {after bits: [count, example]}   for syph_treatment.step / bpg
    out_viol = []
    out_checked = {}

    def tx_reachable(row, fl, rows, dname):
        """ flag vectors a treated agent can end with: apply, in order, any subset of the product rows whose pre-state it holds """
        outs = {tuple(row)}
        for dis, pre, post, eff in rows:
            if dis != dname: continue
            new = set()
            for r in outs:
                new.add(r)
                if r[fl.index(pre)] and float(eff) > 0:
                    r2 = list(r); r2[fl.index(pre)] = False; r2[fl.index(post)] = True
                    new.add(tuple(r2))
            outs = new
        return outs

    def on_outside(ev):
        label = ev['label']; au = ev['auids']
        for nm, (dis, dn, bef) in ev['before'].items():
            aft = ev['after'][nm][2]
            fl = facts[dn]['flags']
            key = id(dis)
            # the frame check continues from the state after this writer
            if key in state['last']:
                pau, paf = state['last'][key]
                common, i0, i1 = np.intersect1d(pau, au, assume_unique=True, return_indices=True)
                diff = (paf[i0] != bef[i1]).any(axis=1)
                frame['checked'] += len(common)
                if diff.any() and len(frame['violations']) < 5:
                    j = int(np.flatnonzero(diff)[0])
                    frame['violations'].append(dict(disease=dn, ti=ev['ti'], before_method=label, uid=int(common[j]),
                                                    was=P.bits(paf[i0][j]), now=P.bits(bef[i1][j]), cfg=state['cfg']))
            state['last'][key] = (au, aft)
            out_checked[label] = out_checked.get(label, 0) + len(au)
            if ev['mixed']:
                continue
            changed = (bef != aft).any(axis=1)
            if label == 'syph_treatment.step' and dn == 'syphilis':
                res = ev['tx_uids']       # the uids the intervention handed to Tx.administer (= treat_inds; none if nobody was treated)
                treated = np.isin(au, np.asarray(res)) if res is not None else np.zeros(len(au), dtype=bool)
                ng = len(treat_facts['atoms'])
                rows = np.concatenate([bef, treated[:, None], aft], axis=1)
                uniq, idx, cnt = np.unique(rows, axis=0, return_index=True, return_counts=True)
                nf = len(fl)
                for r, i, c in zip(uniq, idx, cnt):
                    g = ('1' if r[nf] else '0') + '?' * (ng - 1)
                    slot = treat_rows.setdefault((P.bits(r[:nf]), g), {})
                    e = slot.setdefault(P.bits(r[nf + 1:]), [0, dict(ti=ev['ti'], uid=int(au[i]), cfg=state['cfg'])])
                    e[0] += int(c)
            elif label == 'Tx.administer':
                a, kw = ev['args']
                arg = a[0] if a else kw.get('uids')
                treated = np.isin(au, np.asarray(arg))
                rows = [tuple(r) for r in ev['obj'].df[['disease', 'state', 'post_state', 'efficacy']].values.tolist()]
                bad = changed & ~treated
                for j in np.flatnonzero(changed & treated):
                    if tuple(aft[j]) not in tx_reachable(bef[j], fl, rows, dis.name):
                        bad[j] = True
                if bad.any() and len(out_viol) < 6:
                    j = int(np.flatnonzero(bad)[0])
                    out_viol.append(dict(label=label, disease=dn, ti=ev['ti'], uid=int(au[j]), treated=bool(treated[j]),
                                         was=dict(zip(fl, map(int, bef[j]))), now=dict(zip(fl, map(int, aft[j]))), cfg=state['cfg']))
            elif label == 'ART.step' and dn == 'hiv':
                k = fl.index('on_art')
                other = np.delete(bef != aft, k, axis=1).any(axis=1)
                bad = other | (bef[:, k] & ~aft[:, k]) | (~bef[:, k] & aft[:, k] & ~bef[:, fl.index('infected')])
                if bad.any() and len(out_viol) < 6:
                    j = int(np.flatnonzero(bad)[0])
                    out_viol.append(dict(label=label, disease=dn, ti=ev['ti'], uid=int(au[j]), was=P.bits(bef[j]), now=P.bits(aft[j]), cfg=state['cfg']))
            elif changed.any() and len(out_viol) < 6:      # every other outside writer must leave disease flags alone
                j = int(np.flatnonzero(changed)[0])
                out_viol.append(dict(label=label, disease=dn, ti=ev['ti'], uid=int(au[j]), was=P.bits(bef[j]), now=P.bits(aft[j]), cfg=state['cfg']))

    treat_facts = ((ctx.extracted.get('Treat_syphilis') or {}).get('facts') or {}).get('products', {}).get('bpg')
    cfgs = plan(ctx, 2, 8, small=not ctx.thorough)
    # the shared scenario zoo: the recorder and the per-agent model follow any run of the eight diseases (entries with another
    # disease type - `ncd` - or with none have no modelled method call to compare)
    zoo_names = {}
    for zname, zcfg in zoo_entries(ctx):
        zoo_names[id(zcfg)] = zname; cfgs.append(zcfg)
    nrun = 0
    for cfg in cfgs:
        ds = [d['type'] for d in cfg['diseases']]
        if not all(d in facts for d in ds):
            continue
        state['cfg'] = cfg; state['last'] = {}
        try:
            if any(t['kind'] == 'syph' for t in cfg.get('treatments', [])) and not treat_facts:
                continue
            with P.Recorder(facts, on_call, on_outside=on_outside) as rec:
                sim = P.build(cfg); sim.init(); sim.run()
            if rec.errors:
                ctx.broke('correspondence', 'C13.probe', '; '.join(sorted(set(rec.errors))[:4]), data=dict(cfg=cfg))
        except Exception as e:
            import traceback
            if id(cfg) in zoo_names:      # a harness exception on a zoo entry does not fail the check
                ctx.count('zoo_exceptions'); ctx.notes['last_zoo_exception'] = f'correspond {zoo_names[id(cfg)]}: {type(e).__name__}: {e}'
                continue
            ctx.broke('correspondence', 'C13.run', f'recorded run raised {type(e).__name__}: {e}\n{traceback.format_exc()[-1500:]}', data=dict(cfg=cfg))
            continue
        nrun += 1
        ctx.count('corr_sims')
        if id(cfg) in zoo_names: ctx.count('zoo_corr_runs')
    # compare with the model
    keys = sorted(table)
    lines = [f'{n} {m} {b} {g}' for n, m, b, g in keys]
    out = locked_drive(ctx, lines) if lines else []
    ndiv = 0
    for k, ln, o in zip(keys, lines, out):
        n, m, b, g = k
        obs = table[k]
        total = sum(v[0] for v in obs.values())
        ctx.count('agent_method_calls', total); ctx.count(f'calls_{n}', total)
        changed = any(a != b for a in obs)
        ctx.case(ln, nontrivial=changed, sample=dict(line=ln, model=o, observed={a: v[0] for a, v in obs.items()}) if changed else None)
        if not o.startswith('ok '):
            ctx.broke('correspondence', f'C13.{n}.{m}', f'driver rejected `{ln}`: {o}')
            continue
        model = set(o[3:].split('|'))
        for a, (cnt, ex) in obs.items():
            if a not in model:
                ndiv += 1
                fl = facts[n]['flags']
                ctx.broke('correspondence', f'C13.{n}.{m}',
                          f'{n}.{m}: real code took flags {dict(zip(fl, b))} to {dict(zip(fl, a))} under guards {g} '
                          f'({[x["field"] for x in facts[n]["methods"][m]["atoms"]]}); generated model gives {sorted(model)} ({cnt} agent-steps)',
                          data=dict(example=ex, line=ln, model=o))
        if '?' not in g and len(obs) > 1:
            ctx.broke('correspondence', f'C13.{n}.{m}', f'real code is not a function of (flags, observed guards) at `{ln}`: {list(obs)}',
                      data=dict(line=ln))
    # module index vs simulation index against the two-clock model
    ckeys = sorted(clock_obs)
    cout = locked_drive(ctx, [f'{k[0]} {k[1]} {k[2]}' for k in ckeys]) if ckeys else []
    for k, o in zip(ckeys, cout):
        seen = sorted(clock_obs[k])
        ln = f'{k[0]} {k[1]} {k[2]}'
        ctx.case(ln, nontrivial=k[2] >= 2)
        ctx.count('clock_cases')
        try:
            nums = [int(x) for x in o.split()[1:]] if o.startswith('ok ') else None
        except ValueError:
            nums = None
        if nums is None or len(nums) != (2 if k[0] == 'finer' else 3):
            ctx.broke('correspondence', 'C13.clock', f'driver rejected `{ln}`: {o}')
        elif k[0] == 'finer' and not (nums[0] <= seen[0] and seen[-1] <= nums[1]):
            ctx.broke('correspondence', 'C13.clock', f'a module {k[1]}x finer than the sim ran its steps {seen} while sim.ti={k[2]}; the two-clock model says {nums[0]}..{nums[1]}')
        elif k[0] == 'coarser' and (any(x != nums[0] for x, die in seen if not die) or any(not (nums[1] <= x <= nums[2]) for x, die in seen if die)):
            ctx.broke('correspondence', 'C13.clock', f'a module {k[1]}x coarser than the sim, index {k[2]}: (sim.ti, is step_die) seen {seen}; the two-clock '
                                                     f'model says own steps at sim.ti={nums[0]}, index read during {nums[1]}..{nums[2]}')
    # treatment rounds against the generated treatment model
    tkeys = sorted(treat_rows)
    tlines = [f'treat bpg {b} {g}' for b, g in tkeys]
    tout = locked_drive(ctx, tlines) if tlines else []
    for k, ln, o in zip(tkeys, tlines, tout):
        obs = treat_rows[k]
        ctx.count('treatment_agent_rounds', sum(v[0] for v in obs.values()))
        ctx.case(ln, nontrivial=any(a != k[0] for a in obs))
        model = set(o[3:].split('|')) if o.startswith('ok ') else set()
        for a, (cnt, ex) in obs.items():
            if a not in model:
                fl = facts['syphilis']['flags']
                ctx.broke('correspondence', 'C13.treat.bpg',
                          f'syph_treatment.step took flags {dict(zip(fl, k[0]))} to {dict(zip(fl, a))} (treated={k[1][0]}); '
                          f'generated treatBpg allows {sorted(model)[:6]} ({cnt} agent-rounds)', data=dict(example=ex, line=ln, model=o))
    for v in out_viol:
        ctx.broke('correspondence', f'C13.frame.{v["label"]}',
                  f'{v["label"]} changed {v["disease"]} flags of uid {v["uid"]} at ti={v["ti"]} in a way its model does not allow: {v["was"]} -> {v["now"]}',
                  data=v)
    ctx.notes['outside_writer_agent_checks'] = out_checked
    for (n, hname, clock), v in hyp_viol.items():
        # a theorem hypothesis failing on the real arrays is itself a violation of the property on the real code (same
        # signature as the oracle's check of that relation; replay = oracle_run on the stored configuration)
        sig = HYP_SIGNATURE[hname](n, clock)
        ctx.fail(sig, f'{n}: the relation `{hname}` assumed by the C13 theorems fails on the real arrays for {v["n"]} agent-step(s) '
                      f'(first: ti={v["ti"]} uid={v["uid"]})', dict(kind='sim', cfg=v['cfg'], signature=sig, where=dict(ti=v['ti'], uid=v['uid'])))
    for n, (now, other) in ti_now.items():   # the regenerated fact `infectionTimeIsNow` against the live arrays
        fact = facts[n].get('infection_time_is_now')
        if (fact and other) or (fact is False and now and not other):
            ctx.broke('correspondence', f'C13.infection-time.{n}',
                      f'{n}: generated infectionTimeIsNow={fact} but after set_prognoses {now} infections carry ti_infected == ti and {other} do not')
    ctx.notes['infection_time_observed'] = {n: dict(now=v[0], other=v[1], generated_fact=facts[n].get('infection_time_is_now')) for n, v in ti_now.items()}
    for fv in frame['violations']:
        ctx.broke('correspondence', 'C13.frame',
                  f'{fv["disease"]}: flags of uid {fv["uid"]} changed outside step_state/set_prognoses/step_die before {fv["before_method"]} at ti={fv["ti"]}: {fv["was"]} -> {fv["now"]}',
                  data=fv)
    ctx.notes['hypothesis_checks'] = hyp_checks
    ctx.notes['frame_agent_checks'] = frame['checked']
    ctx.notes['unobserved_guard_atoms'] = {f'{n}.{m}.{f}': c for (n, m, f), c in unknown_atoms.items()}
    ctx.notes['distinct_model_lines'] = len(lines)
    ctx.notes['guard_atoms_seen_values'] = {k: sorted(v) for k, v in sorted(atom_seen.items())}


# ---------------------------------------------------------------------------
# oracle on the real code

S, I, R, E = 'susceptible', 'infected', 'recovered', 'exposed'
SYPH_STAGES = ['exposed', 'primary', 'secondary', 'latent_temp', 'latent_long', 'tertiary']
SPEC = dict(
    sir=dict(comps=[S, I, R], sub={}, deaths=True, permanent=True,
             arrows={(S, S), (S, I), (I, I), (I, R), (R, R)}, timers=['ti_recovered', 'ti_dead']),
    sis=dict(comps=[S, I], sub={}, deaths=False, permanent=False,
             arrows={(S, S), (S, I), (I, I), (I, S)}, timers=['ti_recovered']),
    measles=dict(comps=[S, E, I, R], sub={}, deaths=True, permanent=True,
                 arrows={(S, S), (S, E), (E, E), (E, I), (E, R), (I, I), (I, R), (R, R)}, timers=['ti_recovered', 'ti_dead', 'ti_infected']),
    ebola=dict(comps=[S, E, I, R], sub={'severe': I}, deaths=True, permanent=True, clear=[S, E, I, 'severe', R],
               arrows={(S, S), (S, E), (E, E), (E, I), (E, R), (I, I), (I, R), (R, R)}, timers=['ti_recovered', 'ti_dead', 'ti_infected', 'ti_severe', 'ti_buried']),
    cholera=dict(comps=[S, E, I, R], sub={'symptomatic': I}, deaths=True, permanent=True, clear=[S, E, I, 'symptomatic', R],
                 arrows={(S, S), (S, E), (E, E), (E, I), (E, R), (I, I), (I, R), (R, R)}, timers=['ti_recovered', 'ti_dead', 'ti_infected', 'ti_symptomatic']),
    gonorrhea=dict(comps=[S, I], sub={'symptomatic': I}, deaths=False, permanent=False,
                   arrows={(S, S), (S, I), (I, I), (I, S)}, timers=['ti_clearance']),
    hiv=dict(comps=[S, I], sub={}, deaths=True, permanent=True, arrows={(S, S), (S, I), (I, I)}, timers=[]),
    syphilis=dict(comps=[S] + SYPH_STAGES + ['congenital'], sub={}, deaths=True, permanent=True, clear=[S, I] + SYPH_STAGES + ['congenital'],
                  arrows=None, timers=['ti_primary', 'ti_secondary']),
)
_SY = dict(S=0, exposed=1, primary=2, secondary=3, latent_temp=4, latent_long=5, tertiary=6, congenital=7)


def syph_arrow(a, b):
    if a == b: return True
    if a == S: return b in ('exposed', 'congenital')
    reach = dict(exposed={'primary', 'secondary', 'latent_temp', 'latent_long', 'tertiary'},
                 primary={'secondary', 'latent_temp', 'latent_long', 'tertiary'},
                 secondary={'latent_temp', 'latent_long', 'tertiary'},
                 latent_temp={'secondary', 'latent_long', 'tertiary'},
                 latent_long={'tertiary'}, tertiary=set(), congenital=set())
    return b in reach.get(a, set())


def live_facts():
    """ flag names from the live classes (the oracle does not use the extractor) """
    out = {}
    for n in P.DISEASES:
        obj = P.cls_of(n)()
        out[n] = dict(flags=[s.name for s in obj._disease_states], methods={m: dict(atoms=[]) for m in P.METHODS})
    return out


def oracle_run(cfg, max_fail=40):
    """ Run one generated sim of the REAL code with per-step snapshots and infection-event counting; return failures """
    import starsim as ss
    facts = live_facts()
    fails = []
    sigs = set()

    def fail(sig, what, **loc):
        key = tuple(sorted(sig.items()))
        if key in sigs or len(fails) >= max_fail: return
        sigs.add(key)
        fails.append(dict(signature=sig, what=what, where=loc))

    events = {}      # disease name -> {ti: count}
    ever = {}        # disease name -> list of uid arrays
    not_now = {}     # disease name -> infections whose ti_infected was not the current step when set_prognoses returned

    def arg_uids(call):
        a, kw = call.args
        arg = a[0] if a else kw.get('uids')
        if arg is None: return None
        return np.asarray(arg.uids if isinstance(arg, (ss.BoolArr, ss.IndexArr)) else arg)

    def check_partition(dn, fl, alive, auids, ti, when=''):
        """ the living hold exactly one compartment; sub-states imply their compartment; syphilis infected <=> in a stage """
        spec = SPEC[dn]; comps = spec['comps']
        cnt = np.stack([fl[c] for c in comps], axis=1).sum(axis=1)
        bad = alive & (cnt != 1)
        for j in np.flatnonzero(bad)[:50]:
            hs = sorted(c for c in comps if fl[c][j])
            held = '+'.join(hs) or 'none'
            if dn == 'syphilis' and int(auids[j]) in cong_nonsus and len(hs) == 2 and 'congenital' in hs and (set(hs) & set(SYPH_STAGES)):
                # attributed: this agent's congenital outcome was seen falling due while it was already in a stage
                fail(dict(oracle='partition', disease=dn, flags='congenital+stage', cause='congenital-outcome-due-for-infected-agent'),
                     f'{dn}: living agent {int(auids[j])} at ti={ti}{when} holds compartments {{{held}}}: its congenital outcome fell due after it '
                     f'had been infected through set_prognoses', ti=ti, uid=int(auids[j]))
                continue
            fail(dict(oracle='partition', disease=dn, flags=held),
                 f'{dn}: living agent {int(auids[j])} at ti={ti}{when} holds compartments {{{held}}} instead of exactly one of {comps}',
                 ti=ti, uid=int(auids[j]))
        for sub, sup in spec['sub'].items():
            b2 = alive & fl[sub] & ~fl[sup]
            if b2.any():
                j = int(np.flatnonzero(b2)[0])
                fail(dict(oracle='partition', disease=dn, flags=f'{sub}-without-{sup}'),
                     f'{dn}: living agent {int(auids[j])} at ti={ti}{when} is {sub} but not {sup}', ti=ti, uid=int(auids[j]))
        if dn == 'syphilis':
            stage = np.stack([fl[c] for c in SYPH_STAGES], axis=1).any(axis=1)
            b3 = alive & (fl[I] != stage)
            if b3.any():
                j = int(np.flatnonzero(b3)[0])
                fail(dict(oracle='partition', disease=dn, flags='infected-vs-stage'),
                     f'syphilis: living agent {int(auids[j])} at ti={ti}{when}: infected={bool(fl[I][j])} but in a stage={bool(stage[j])}',
                     ti=ti, uid=int(auids[j]))

    cong_nonsus = set()  # syphilis: agents whose congenital outcome was observed falling due while they were not susceptible
    module_steps = {}    # disease instance name -> step_state calls (= module steps) since the last per-sim-step snapshot

    def on_entry(call):
        dis = call.disease
        if call.method == 'step_state':
            au = call.auids
            module_steps[dis.name] = module_steps.get(dis.name, 0) + 1
            # "at every step": a module on a finer timestep than the sim steps several times between two analyzer snapshots;
            # the state it starts each of ITS steps from must be partitioned too
            fl = {f: call.before[:, i] for i, f in enumerate(facts[call.name]['flags'])}
            check_partition(call.name, fl, np.asarray(dis.sim.people.alive.raw[au], dtype=bool), au, call.ti,
                            when=f' (start of module step; sim.ti={call.sim_ti})' if call.ti != call.sim_ti else '')
            if call.name == 'measles':
                # recovery falls due while the agent has not even become infectious yet (scheduled recovery precedes onset)
                ei = np.asarray(dis.exposed.raw[au], dtype=bool) | np.asarray(dis.infected.raw[au], dtype=bool)
                rec = np.asarray(dis.ti_recovered.raw[au], dtype=float) <= call.ti
                inf = np.asarray(dis.ti_infected.raw[au], dtype=float) <= call.ti
                bad = ei & rec & ~inf
                if bad.any():
                    j = int(np.flatnonzero(bad)[0])
                    fail(dict(oracle='timer', disease='measles', timer='ti_recovered', kind='due-before-onset'),
                         f'measles: agent {int(au[j])} at ti={call.ti} is due to recover (ti_recovered={dis.ti_recovered.raw[au[j]]:g}) before its '
                         f'infection onset (ti_infected={dis.ti_infected.raw[au[j]]:g})', ti=call.ti, uid=int(au[j]))
            if call.name == 'syphilis':
                bad = (np.asarray(dis.ti_congenital.raw[au], dtype=float) == call.ti) & ~np.asarray(dis.susceptible.raw[au], dtype=bool)
                if bad.any():
                    j = int(np.flatnonzero(bad)[0])
                    cong_nonsus.update(int(x) for x in au[bad])
                    fail(dict(oracle='timer', disease='syphilis', timer='ti_congenital', kind='due-for-non-susceptible', clock=P.clock_of(dis)),
                         f'syphilis: congenital outcome of agent {int(au[j])} falls due at module step {call.ti} (sim.ti={call.sim_ti}) but the agent is no '
                         f'longer susceptible: step_state marks it congenital on top of its stage', ti=call.ti, uid=int(au[j]))
            return
        if call.method != 'set_prognoses': return
        u = arg_uids(call)
        if u is not None and len(u):
            sus = np.asarray(dis.susceptible.raw[u], dtype=bool)
            if not sus.all():
                j = int(np.flatnonzero(~sus)[0])
                fail(dict(oracle='infect-nonsusceptible', disease=call.name),
                     f'{call.name}: set_prognoses called at ti={call.ti} on agent {int(u[j])}, which is not susceptible ({int((~sus).sum())} of {len(u)})',
                     ti=call.ti, uid=int(u[j]))
        if u is None: return
        call.extra = {t: np.asarray(getattr(call.disease, t).raw[u], dtype=float).copy()
                      for t in SPEC[call.name]['timers'] if hasattr(call.disease, t)}

    def on_call(call):
        if call.method != 'set_prognoses': return
        u = arg_uids(call)
        if u is None: return
        nm = call.disease.name
        # distinct agents per step: an agent cured and re-infected inside one step (treatment) can only be recorded once
        events.setdefault(nm, {}); events[nm].setdefault(call.ti, set()).update(int(x) for x in u)
        ever.setdefault(nm, []).append(u.copy())
        if len(u):
            not_now[nm] = not_now.get(nm, 0) + int((np.asarray(call.disease.ti_infected.raw[u], dtype=float) != call.ti).sum())
        # scheduled exits never precede the infection
        spec = SPEC[call.name]
        for t in spec['timers']:
            if not hasattr(call.disease, t): continue
            v = np.asarray(getattr(call.disease, t).raw[u], dtype=float)
            bad = np.isfinite(v) & (v < call.ti)
            # an exit scheduled for an EARLIER infection that this infection did not reschedule and that is already due
            if call.extra is not None and t in call.extra and not spec['permanent']:
                old = call.extra[t]
                stale = np.isfinite(v) & (v == old) & (v <= call.ti)
                if stale.any():
                    j = int(np.flatnonzero(stale)[0])
                    fail(dict(oracle='timer', disease=call.name, timer=t, kind='stale'),
                         f'{call.name}: agent {int(u[j])} (re)infected at ti={call.ti} keeps the exit time {t}={v[j]:g} scheduled for an earlier '
                         f'infection, already due: the new infection ends at the next step ({int(stale.sum())} of {len(u)} infections)', ti=call.ti, uid=int(u[j]))
            if bad.any():
                j = int(np.flatnonzero(bad)[0])
                fail(dict(oracle='timer', disease=call.name, timer=t, kind='before-infection'),
                     f'{call.name}: agent {int(u[j])} infected at ti={call.ti} has scheduled {t}={v[j]:g} before the infection '
                     f'({int(bad.sum())} of {len(u)} newly infected agents)', ti=call.ti, uid=int(u[j]))

    # arrows a treatment product adds for its disease (pre-state -> post-state), and whether it can undo permanent immunity
    extra_arrows = {}
    for t in cfg.get('treatments', []):
        if t['kind'] == 'tx':
            for dis, pre, post, eff in t['rows']:
                extra_arrows.setdefault(dis, set()).add((pre, post))
        elif t['kind'] == 'syph':
            for st in ['primary', 'secondary', 'latent_temp', 'latent_long', 'tertiary']:
                extra_arrows.setdefault('syphilis', set()).add((st, S))
    snaps = []

    class c13_snapshot(ss.Analyzer):
        def step(self):
            sim = self.sim
            au = np.asarray(sim.people.auids).copy()
            rec = dict(ti=int(sim.ti), auids=au, alive=np.asarray(sim.people.alive.raw[au], dtype=bool), d={}, hops={})
            for nm, dis in sim.diseases.items():
                dn = P.name_of(dis)
                if dn is None: continue
                rec['d'][nm] = (dn, {f: np.asarray(getattr(dis, f).raw[au], dtype=bool) for f in facts[dn]['flags']})
                rec['hops'][nm] = module_steps.get(dis.name, 0)
                if hasattr(dis, 'ti_dead') and hasattr(dis, 'ti_infected'):     # the disease's own death clock and infection time
                    rec.setdefault('clocks', {})[nm] = (np.asarray(dis.ti_dead.raw[au], dtype=float), np.asarray(dis.ti_infected.raw[au], dtype=float))
            module_steps.clear()
            snaps.append(rec)

    with P.Recorder(facts, on_call, eval_atoms=False, on_entry=on_entry) as rec:
        sim = P.build(cfg, extra_analyzers=[c13_snapshot()])
        sim.init()
        sim.run()
    prev = None
    for sn in snaps:
        for nm, (dn, fl) in sn['d'].items():
            spec = SPEC[dn]
            comps = spec['comps']
            M = np.stack([fl[c] for c in comps], axis=1)
            cnt = M.sum(axis=1)
            alive = sn['alive']
            # partition of the living
            check_partition(dn, fl, alive, sn['auids'], sn['ti'])
            # death never precedes infection: a death time set by the disease belongs to an agent the disease infected
            if nm in sn.get('clocks', {}):
                td, tinf = sn['clocks'][nm]
                b5 = np.isfinite(td) & ~np.isfinite(tinf)
                if b5.any():
                    j = int(np.flatnonzero(b5)[0])
                    fail(dict(oracle='timer', disease=dn, timer='ti_dead', kind='death-without-infection'),
                         f'{dn}: agent {int(sn["auids"][j])} at ti={sn["ti"]} has a disease death time (ti_dead={td[j]:g}) but was never infected '
                         f'(ti_infected is nan; susceptible={bool(fl[S][j]) if S in fl else "?"}): {int(b5.sum())} agents', ti=sn['ti'], uid=int(sn['auids'][j]))
            # the dead hold none (models that resolve disease deaths)
            if spec['deaths']:
                clear = spec.get('clear', comps)
                Mc = np.stack([fl[c] for c in clear], axis=1)
                b4 = ~alive & Mc.any(axis=1)
                for j in np.flatnonzero(b4)[:20]:
                    held = '+'.join(sorted(c for c in clear if fl[c][j]))
                    fail(dict(oracle='dead-clear', disease=dn, flags=held),
                         f'{dn}: agent {int(sn["auids"][j])} died at ti={sn["ti"]} and still holds {{{held}}}', ti=sn['ti'], uid=int(sn['auids'][j]))
            # whole-step arrows for agents alive at both ends and properly partitioned at both ends
            if prev is not None and nm in prev['d']:
                pfl = prev['d'][nm][1]
                common, i0, i1 = np.intersect1d(prev['auids'], sn['auids'], assume_unique=True, return_indices=True)
                PM = np.stack([pfl[c] for c in comps], axis=1)[i0]; CM = M[i1]
                ok = prev['alive'][i0] & alive[i1] & (PM.sum(axis=1) == 1) & (CM.sum(axis=1) == 1)
                pa = PM.argmax(axis=1); ca = CM.argmax(axis=1)
                for a_i in range(len(comps)):
                    for b_i in range(len(comps)):
                        a_c, b_c = comps[a_i], comps[b_i]
                        base_ok = (lambda x, y: syph_arrow(x, y)) if dn == 'syphilis' else (lambda x, y: (x, y) in spec['arrows'])
                        allowed = base_ok(a_c, b_c)
                        if not allowed and extra_arrows.get(nm):
                            # with a treatment product a step is: progression, then treatment, then (re)infection — up to three hops
                            one = lambda x, y: base_ok(x, y) or (x, y) in extra_arrows[nm]
                            allowed = any(one(a_c, m1) and any(one(m1, m2) and one(m2, b_c) for m2 in comps) for m1 in comps)
                        hops = sn['hops'].get(nm, 1)
                        if not allowed and hops > 1 and not extra_arrows.get(nm):
                            # a module on a finer timestep made `hops` steps of its own since the last snapshot: a path of that many arrows
                            reach = {a_c}
                            for _ in range(hops):
                                reach = {y for x in reach for y in comps if base_ok(x, y)}
                            allowed = b_c in reach
                        if allowed: continue
                        hit = ok & (pa == a_i) & (ca == b_i)
                        if hit.any():
                            j = int(np.flatnonzero(hit)[0])
                            fail(dict(oracle='arrow', disease=dn, **{'from': a_c, 'to': b_c}),
                                 f'{dn}: agent {int(common[j])} moved {a_c} -> {b_c} between ti={prev["ti"]} and ti={sn["ti"]} ({int(hit.sum())} agents)',
                                 ti=sn['ti'], uid=int(common[j]))
        prev = sn
    # infection counts
    for nm, dis in sim.diseases.items():
        dn = P.name_of(dis)
        if dn is None: continue
        ev = events.get(nm, {})
        npts = len(dis.results.new_infections)
        exp = np.array([len(ev.get(t, ())) for t in range(npts)])
        got = np.asarray(dis.results.new_infections.values if hasattr(dis.results.new_infections, 'values') else dis.results.new_infections, dtype=float)
        cum = np.asarray(dis.results.cum_infections.values if hasattr(dis.results.cum_infections, 'values') else dis.results.cum_infections, dtype=float)
        # reported results stand for the SCALED population: finalize multiplies every `scale=True` result by pars.pop_scale
        # (= total_pop / n_agents); one infection event of an agent is reported as pop_scale infections.  Float product: rtol 1e-12.
        scale = 1.0
        try:
            if getattr(dis.results.new_infections, 'scale', False) and sim.pars.pop_scale is not None:
                scale = float(sim.pars.pop_scale)
        except Exception:
            scale = 1.0
        same = (lambda a, b: np.array_equal(a, b)) if scale == 1.0 else (lambda a, b: a.shape == b.shape and np.allclose(a, b, rtol=1e-12, atol=0))
        exps = exp * scale; cums = np.cumsum(exp) * scale
        sc = f' (x pop_scale {scale:g})' if scale != 1.0 else ''
        if not same(got, exps):
            # undercount because set_prognoses left ti_infected at another (future) time, or any other mismatch
            pattern = 'future-ti-infected' if (not_now.get(nm, 0) > 0 and got.sum() <= exps.sum()) else 'mismatch'
            t = int(np.flatnonzero(~np.isclose(got, exps, rtol=1e-12, atol=0))[0]) if got.shape == exps.shape else 0
            fail(dict(oracle='new-infections', disease=dn, pattern=pattern),
                 f'{dn}: new_infections differs from the number of infection events (set_prognoses calls){sc}: first at ti={t}: recorded {got[t]:g}, '
                 f'events {exp[t] if t < len(exp) else "-"}; totals recorded {got.sum():g} vs {exp.sum()} events', ti=t)
        elif not same(cum, cums):
            t = int(np.flatnonzero(~np.isclose(cum, cums, rtol=1e-12, atol=0))[0]) if cum.shape == cums.shape else 0
            fail(dict(oracle='cum-infections', disease=dn),
                 f'{dn}: cum_infections[{t}]={cum[t]:g} but {np.cumsum(exp)[t]} infection events{sc} happened up to that step', ti=t)
        if SPEC[dn]['permanent'] and ever.get(nm) and not any(b == S for a, b in extra_arrows.get(nm, ())):
            allu = np.concatenate(ever[nm])
            if len(np.unique(allu)) != len(allu):
                fail(dict(oracle='reinfection', disease=dn),
                     f'{dn}: immunity is permanent but {len(allu) - len(np.unique(allu))} of {len(allu)} infection events hit an agent already infected before')
    return fails, dict(steps=len(snaps), events={k: int(sum(len(x) for x in v.values())) for k, v in events.items()})


def search(ctx):
    cfgs = []
    # targeted re-examination: every configuration in which the correspondence saw the real code leave its model is run
    # through the oracle first (the broken tie names the family; the oracle turns it into a failing input on the real code)
    seen = set()
    for b in ctx.broken:
        d = b.get('data') or {}
        for c in (d.get('cfg'), (d.get('example') or {}).get('cfg') if isinstance(d.get('example'), dict) else None):
            if isinstance(c, dict):
                key = json.dumps(c, sort_keys=True, default=str)
                if key not in seen and len(seen) < 8:
                    seen.add(key); cfgs.append(c)
    if ctx.broken:      # something broke: the fixed scenario families once more, with fresh draws
        for _ in range(2):
            cfgs += P.scenario_cfgs(ctx.rng)
    ctx.notes['targeted_oracle_runs'] = len(seen)
    cfgs += plan(ctx, 2, 6, small=not ctx.thorough)
    for cfg in cfgs:
        try:
            fails, info = oracle_run(cfg)
        except Exception as e:
            import traceback
            ctx.broke('search', 'C13.oracle', f'oracle run raised {type(e).__name__}: {e}\n{traceback.format_exc()[-1200:]}', data=dict(cfg=cfg))
            continue
        ctx.count('oracle_sims'); ctx.count('oracle_steps', info['steps']); ctx.count('oracle_infection_events', sum(info['events'].values()))
        for f in fails:
            ctx.fail(f['signature'], f['what'], dict(kind='sim', cfg=cfg, signature=f['signature'], where=f['where']))
    search_zoo(ctx)


def zoo_entries(ctx):
    """ every entry of the shared scenario zoo; none is skipped: entries without one of the eight compartmental diseases
        (`killer-only`, `ncd`) simply give the oracle nothing to check (NCD is not a compartmental infection: no susceptible /
        infected partition is declared for it) """
    from harness import zoo
    return zoo.configs()


def search_zoo(ctx):
    """ all oracles of `oracle_run` (partition at every snapshot and module step, dead hold none, arrows, timers, new / cum
        infections = events = distinct agents) over every zoo entry, on every run """
    for name, cfg in zoo_entries(ctx):
        try:
            fails, info = oracle_run(cfg)
        except Exception as e:
            ctx.count('zoo_exceptions'); ctx.notes['last_zoo_exception'] = f'{name}: {type(e).__name__}: {e}'
            continue
        ctx.count('zoo_runs'); ctx.count('oracle_steps', info['steps']); ctx.count('oracle_infection_events', sum(info['events'].values()))
        for f in fails:
            ctx.fail(f['signature'], f'[zoo:{name}] ' + f['what'], dict(kind='sim', cfg=cfg, signature=f['signature'], where=f['where'], zoo=name))


def replay(ctx, data):
    if data.get('kind') == 'simcore':
        return c13_simcore.replay(ctx, data)
    if data.get('kind') != 'sim':
        return False
    fails, _ = oracle_run(data['cfg'])
    want = data.get('signature')
    for f in fails:
        if want is None or f['signature'] == want:
            print(f"  {f['what']}")
            return True
    return False
