"""
C11 — Agent arrays behave as a uid-indexed map restricted to active agents.

correspond(): model-based operation sequences on REAL ss arrays of every type (FloatArr, BoolArr, State, generic int
              Arr registered through a module; the IndexArrs people.uid / people.slot) attached to a real minimal
              ss.Sim/ss.People, interleaving grow (sizes around the reallocation rule) / remove / assign / compare /
              logical / reduce / uid-set operations and every key kind.  Every operation's observable result (and,
              after every mutation, the complete storage of every array) is compared with Model/Arr.lean through
              Drivers/C11.lean.
search():     the same kind of sequences evaluated on the real code only, against a Python dict reference
              (uid -> value, plus the ordered active list).
"""
import math, fractions
import numpy as np

PROP = 'C11'
GENERATED = ['ArrConsts']
DRIVER = 'Drivers/C11.lean'
DRIVER_MODULES = ['StarsimModel.Model.Arr', 'StarsimModel.Model.Proto']
RULE = ('operation sequences (25-45 ops) on real arrays of a real ss.People: grow sizes chosen around the reallocation boundary, '
        'removals (incl. mass removal), get/set with uid / int / slice / BoolArr / IndexArr / empty / unsupported keys, scalar and '
        'list right-hand sides (incl. wrong lengths), comparisons, logical operators, reductions, uid-set algebra, late registration; '
        'distinct = distinct canonical op sequence; non-trivial = at least one removal and one grow before a read')
TRUSTED = ['NumPy fancy indexing / assignment semantics (last write wins for repeated indices - used by no modelled starsim path with repeats except the harness), np.unique/setdiff1d/intersect1d/union1d/setxor1d',
           'values used by the harness are exactly representable in float32 (multiples of 1/4, |x| <= 64), so sums are exact; mean is compared within 2 float32 ulp']
ASSUMPTIONS = ['assigned values have the dtype of the array (NumPy casting on assignment is not modelled)',
               'uid keys are non-negative (NumPy negative wrap-around of uid arrays is not modelled)']

CMPS = dict(gt='__gt__', lt='__lt__', ge='__ge__', le='__le__', eq='__eq__', ne='__ne__')
PYCMP = dict(gt=lambda a, b: a > b, lt=lambda a, b: a < b, ge=lambda a, b: a >= b, le=lambda a, b: a <= b,
             eq=lambda a, b: a == b, ne=lambda a, b: a != b)


# ---------------------------------------------------------------------------
# canonical values

def cv(x):
    """ canonical token of one cell value """
    if isinstance(x, (bool, np.bool_)):
        return 'T' if x else 'F'
    if isinstance(x, (int, np.integer)):
        return str(int(x))
    x = float(x)
    if math.isnan(x):
        return 'nan'
    fr = fractions.Fraction(x)
    return str(fr.numerator) if fr.denominator == 1 else f'{fr.numerator}/{fr.denominator}'


def scal(r):
    """ canonical token of a reduction result that ought to be a scalar """
    return cv(r) if np.ndim(r) == 0 and not hasattr(r, 'raw') else f'<{type(r).__name__} of length {len(r)}>'


def tok(v):
    """ token of a JSON case value (float/int/bool/'nan') """
    if v == 'nan':
        return 'nan'
    return cv(v)


def pyval(v):
    return float('nan') if v == 'nan' else v


def toks(l):
    return ','.join(l) if len(l) else '-'


def nats(l):
    return ','.join(str(int(x)) for x in l) if len(l) else '-'


def num_of(t):
    """ numeric reading of a canonical token (None for nan) """
    if t == 'T': return fractions.Fraction(1)
    if t == 'F': return fractions.Fraction(0)
    if t in ('nan', '_', 'none'): return None
    return fractions.Fraction(t)


def truthy(t):
    if t == 'T': return True
    if t == 'F': return False
    if t == 'nan': return True
    return fractions.Fraction(t) != 0


def cast_tok(t, tokv):
    """ what a cell of an array of type t holds after `raw[...] = value` (NumPy casting); None = refused """
    if t in ('bool', 'state'):
        return 'T' if truthy(tokv) else 'F'
    if t == 'float':
        if tokv == 'nan': return 'nan'
        x = num_of(tokv)
        return str(x.numerator) if x.denominator == 1 else f'{x.numerator}/{x.denominator}'
    if tokv == 'nan': return None
    x = num_of(tokv)
    return str(int(x))     # int(Fraction) truncates toward zero


ARITH = dict(add=lambda a, b: a + b, sub=lambda a, b: a - b, mul=lambda a, b: a * b)


def arith_tok(op, a, b):
    x, y = num_of(a), num_of(b)
    if x is None or y is None: return 'nan'
    r = ARITH[op](x, y)
    return str(r.numerator) if r.denominator == 1 else f'{r.numerator}/{r.denominator}'


def err_kind(e):
    import starsim as ss
    if isinstance(e, ss.arrays.BooleanOperationError): return 'E:BoolOp'
    if isinstance(e, IndexError): return 'E:Index'
    if isinstance(e, ValueError): return 'E:Value'
    if isinstance(e, TypeError) and 'int() argument' in str(e): return 'E:Value'
    if type(e) is Exception and 'ambiguous' in str(e): return 'E:Ambiguous'
    if isinstance(e, TypeError) and "has no len" in str(e): return 'E:Ambiguous'
    return f'E:Other:{type(e).__name__}'


# ---------------------------------------------------------------------------
# the real world

TYPES = ['float', 'bool', 'state', 'int']
KIND = dict(float='float', bool='bool', state='bool', int='generic')
NAN = dict(float='nan', bool='F', state='F', int='-9')


def affine(b, s):
    def f(n):
        return (b + s * np.arange(n)).astype(np.float32)
    return f


def make_arr(spec):
    import starsim as ss
    t = spec['type']; d = spec['default']
    if d[0] == 'unset': default = None
    elif d[0] == 'const': default = pyval(d[1])
    elif d[0] == 'affine': default = affine(d[1], d[2])
    elif d[0] == 'dist':
        default = ss.bernoulli(p=0.4) if t in ('bool', 'state') else ss.random()
    else: raise ValueError(d)
    if t == 'float': return ss.FloatArr(spec['name'], default=default)
    if t == 'bool': return ss.BoolArr(spec['name'], default=default)
    if t == 'state': return ss.State(spec['name'], default=default)
    if t == 'int': return ss.Arr(spec['name'], dtype=ss.dtypes.int, default=default, nan=-9)
    raise ValueError(t)


class HarnessError(Exception):
    pass


class Real:
    """ A real minimal sim whose People carries the arrays of the case """
    def __init__(self, case):
        import starsim as ss
        self.ss = ss
        specs = case['arrays']

        class Holder(ss.Module):
            def __init__(self):
                super().__init__(name='holder')
                self.define_states(*[make_arr(s) for s in specs])
            def step(self): pass

        sim = ss.Sim(n_agents=case['n0'], dur=2, demographics=Holder(), verbose=0, rand_seed=case.get('seed', 1))
        sim.init()
        self.sim = sim; self.people = sim.people
        mod = sim.demographics[0]
        self.specs = {s['name']: s for s in specs}
        self.arrs = {s['name']: getattr(mod, s['name']) for s in specs}
        self.order = [s['name'] for s in specs]
        self.draws = {}
        for nm, a in self.arrs.items():
            if self.specs[nm]['default'][0] == 'dist':
                self._wrap_dist(nm, a)
        # the two linked IndexArrs
        self.arrs['uid'] = self.people.uid; self.arrs['slot'] = self.people.slot
        self.specs['uid'] = dict(name='uid', type='index', default=['iota'])
        self.specs['slot'] = dict(name='slot', type='index', default=['iota'])
        self.order = ['uid', 'slot'] + self.order

    def _wrap_dist(self, nm, a):
        d = a.default; orig = d.rvs
        def rvs(uids, *args, **kw):
            out = orig(uids, *args, **kw)
            self.draws[nm] = [cv(x) for x in np.asarray(out)]
            return out
        d.rvs = rvs

    # -- observation helpers
    def arr_state(self, nm):
        a = self.arrs[nm]
        return (int(a.len_used), int(a.len_tot), [cv(x) for x in np.asarray(a.raw)])

    def state(self):
        p = self.people
        return dict(n=int(p.uid.len_used), au=[int(u) for u in p.auids], arrays={nm: self.arr_state(nm) for nm in self.order})

    def new_lines(self):
        """ protocol lines that bring the model to the state right after sim.init() """
        lines = [f"reset {len(self.people.auids)}"]
        for nm in self.order:
            lines.append(self.new_line(nm))
        return lines

    def new_line(self, nm):
        s = self.specs[nm]; d = s['default']
        kind = 'index' if s['type'] == 'index' else KIND[s['type']]
        nan = '-1' if s['type'] == 'index' else NAN[s['type']]
        if d[0] == 'unset': ds = 'unset -'
        elif d[0] == 'const': ds = f'const {tok(d[1])} -'
        elif d[0] == 'affine': ds = f'affine {tok(d[1])} {tok(d[2])} -'
        elif d[0] == 'iota': ds = 'dist ' + nats(self.people.auids)       # uid / slot: the value is the uid itself
        elif d[0] == 'dist': ds = 'dist ' + toks(self.arr_state(nm)[2][:len(self.people.auids)])  # initial draws: taken as observed
        return f'new {nm} {kind} {nan} {ds}'

    # -- expression evaluation on the real arrays
    def expr(self, e):
        A = self.arrs
        k = e[0]
        if k == 'arr': return A[e[1]]
        if k == 'cmp': return getattr(A[e[1]], CMPS[e[2]])(pyval(e[3]))
        if k == 'cmparr': return getattr(A[e[1]], CMPS[e[2]])(A[e[3]])
        if k == 'not': return ~A[e[1]]
        if k == 'notcmp': return ~getattr(A[e[1]], CMPS[e[2]])(pyval(e[3]))
        if k == 'isnan': return A[e[1]].isnan
        if k == 'notnan': return A[e[1]].notnan
        if k == 'arith':
            a = A[e[1]]; v = pyval(e[3])
            how = e[4] if len(e) > 4 else 'op'
            if how == 'np': return dict(add=np.add, sub=np.subtract, mul=np.multiply)[e[2]](a, v)
            if how == 'rop': return v + a if e[2] == 'add' else (v * a if e[2] == 'mul' else -(v - a))
            return a + v if e[2] == 'add' else (a - v if e[2] == 'sub' else a * v)
        if k == 'aritharr':
            a = A[e[1]]; b = A[e[3]]
            return a + b if e[2] == 'add' else (a - b if e[2] == 'sub' else a * b)
        if k == 'cmparith':
            a = A[e[1]]; v = pyval(e[3])
            r = a + v if e[2] == 'add' else (a - v if e[2] == 'sub' else a * v)
            return getattr(r, CMPS[e[4]])(pyval(e[5]))
        if k in ('logic', 'logics'):
            a = A[e[1]]; b = A[e[3]] if k == 'logic' else pyval(e[3])
            return a & b if e[2] == 'and' else (a | b if e[2] == 'or' else a ^ b)
        raise ValueError(e)

    def key(self, k):
        ss = self.ss
        t = k[0]
        if t == 'uids': return ss.uids(np.array(k[1], dtype=np.int64))
        if t == 'ruids': return ss.uids(np.array(k[1], dtype=np.int64))
        if t == 'int': return int(k[1]) if k[2] == 'py' else np.int64(k[1])
        if t == 'slice': return slice(k[1], k[2], k[3])
        if t == 'bool': return self.expr(k[1])
        if t == 'index': return self.arrs[k[1]]
        if t == 'empty': return [] if k[1] == 'list' else np.array([])
        if t == 'bad':
            return dict(list=[1, 2], array=np.array([1, 2]), float=1.5, str='x', boolarray=np.array([True, False]), none=None)[k[1]]
        raise ValueError(k)

    # -- one operation: returns an observation dict
    def exec(self, op):
        ss = self.ss; p = self.people
        try:
            o = op[0]
            if o == 'grow':
                self.draws = {}
                p.grow(op[1])
                return dict(st='ok', state=self.state(), draws=dict(self.draws))
            if o == 'remove':
                p.alive[ss.uids(np.array(op[1], dtype=np.int64))] = False
                p.remove_dead()
                return dict(st='ok', state=self.state())
            if o == 'get':
                out = self.arrs[op[1]][self.key(op[2])]
                if np.ndim(out) == 0:
                    return dict(st='ok', one=cv(out))
                return dict(st='ok', vals=[cv(x) for x in np.asarray(out)])
            if o == 'set':
                rhs = op[3]
                val = pyval(rhs[1]) if rhs[0] == 'scalar' else [pyval(v) for v in rhs[1]]
                self.arrs[op[1]][self.key(op[2])] = val
                return dict(st='ok', arr=self.arr_state(op[1]))
            if o == 'view':
                r = self.expr(op[1])
                return dict(st='ok', vals=[cv(x) for x in r.values], true=[int(u) for u in r.true()], false=[int(u) for u in r.false()],
                            raw=[cv(x) for x in np.asarray(r.raw)], cls=type(r).__name__,
                            uids=[int(u) for u in r.uids] if hasattr(r, 'uids') and isinstance(r, ss.BoolArr) else None)
            if o == 'copy':
                # continue on a deep copy of the whole sim (the copy protocol every Arr goes through when a sim is copied / saved)
                import sciris as sc
                sim = sc.dcp(self.sim)
                mod = sim.demographics[0]
                late = {id(a): nm for nm, a in self.arrs.items()}
                old_states = list(self.people._states.values()); new_states = list(sim.people._states.values())
                remap = {id(o_): n_ for o_, n_ in zip(old_states, new_states)}
                self.arrs = {nm: (sim.people.uid if nm == 'uid' else sim.people.slot if nm == 'slot' else remap[id(a)]) for nm, a in self.arrs.items()}
                self.sim = sim; self.people = sim.people
                for nm, a in self.arrs.items():
                    if self.specs[nm]['default'][0] == 'dist':
                        a.default.__dict__.pop('rvs', None)
                        self._wrap_dist(nm, a)
                return dict(st='ok', state=self.state())
            if o == 'notnanvals':
                return dict(st='ok', vals=[cv(x) for x in self.arrs[op[1]].notnanvals])
            if o == 'iter':
                a = self.arrs[op[1]]
                return dict(st='ok', vals=[cv(x) for x in (list(a) if op[2] == 'iter' else [x for x in a.values])], has=[bool(x in a) for x in op[3]])
            if o == 'split':
                r = self.expr(op[1])
                t, f = r.split()
                return dict(st='ok', true=[int(u) for u in t], false=[int(u) for u in f], cls=[type(t).__name__, type(f).__name__],
                            conv=[int(u) for u in ss.uids(r)])
            if o == 'setnan':
                self.arrs[op[1]].set_nan(ss.uids(np.array(op[2], dtype=np.int64)))
                return dict(st='ok', arr=self.arr_state(op[1]))
            if o == 'usetb':
                a = ss.uids(np.array(op[2], dtype=np.int64)); b = self.expr(op[3]); f = op[1]
                if op[4] == 'op': r = {'remove': lambda: a - b, 'intersect': lambda: a & b, 'union': lambda: a | b, 'xor': lambda: a ^ b}[f]()
                else: r = getattr(a, f)(b)
                return dict(st='ok', uids=[int(u) for u in r], cls=type(r).__name__)
            if o == 'reduce':
                a = self.arrs[op[1]]
                n = len(a)
                def safe(f):
                    try: return cv(f())
                    except ValueError: return 'none'
                return dict(st='ok', len=n, count=int(a.count()), sum=cv(a.sum()), mean=(cv(a.mean()) if n else 'none'),
                            min=safe(a.min), max=safe(a.max), any=int(bool(a.any())), all=int(bool(a.all())),
                            nplen=int(len(a.values)), npcount=int(np.count_nonzero(a)),
                            npsum=cv(np.sum(a)), npmin=safe(lambda: np.min(a)), npmax=safe(lambda: np.max(a)), addreduce=scal(np.add.reduce(a)))
            if o == 'uset':
                a = ss.uids(np.array(op[2], dtype=np.int64)); b = ss.uids(np.array(op[3], dtype=np.int64))
                f = op[1]
                if f == 'unique': r = a.unique()
                elif op[4] == 'op' and f != 'concat':
                    r = {'remove': lambda: a - b, 'intersect': lambda: a & b, 'union': lambda: a | b, 'xor': lambda: a ^ b}[f]()
                else:
                    r = getattr(a, f)(b)
                return dict(st='ok', uids=[int(u) for u in r], cls=type(r).__name__)
            if o == 'ucat':
                ls = [ss.uids(np.array(l, dtype=np.int64)) for l in op[1]]
                r = ss.uids.cat(*ls) if op[2] == 'args' else ss.uids.cat(ls)
                return dict(st='ok', uids=[int(u) for u in r], cls=type(r).__name__)
            if o == 'late':
                spec = op[1]
                a = make_arr(spec)
                a.link_people(p)
                try:
                    a.init_vals()
                except Exception:
                    p._states.pop(id(a), None)   # a failed registration must not poison later grows
                    raise
                self.arrs[spec['name']] = a; self.specs[spec['name']] = spec; self.order.append(spec['name'])
                return dict(st='ok', arr=self.arr_state(spec['name']))
            raise HarnessError(op)
        except HarnessError:
            raise
        except Exception as e:
            return dict(st=err_kind(e), msg=str(e)[:120])

    # -- protocol line of an operation (needs the observation for recorded draws)
    def line(self, op, obs):
        o = op[0]
        if o == 'grow':
            dr = ' '.join(f'{nm}={toks(v)}' for nm, v in sorted((obs.get('draws') or {}).items()))
            iota = ''
            if op[1]:
                n1 = obs['state']['n'] if obs['st'] == 'ok' else None
                if n1 is not None:
                    new = list(range(n1 - op[1], n1))
                    iota = f' uid={nats(new)} slot={nats(new)}'
            return f'grow {op[1]} {dr}{iota}'.strip()
        if o == 'remove': return f'remove {nats(op[1])}'
        if o == 'get': return f'get code {op[1]} {key_str(op[2])}'
        if o == 'set':
            rhs = op[3]
            rs = f'scalar {tok(rhs[1])}' if rhs[0] == 'scalar' else f'list {toks([tok(v) for v in rhs[1]])}'
            return f'set code {op[1]} {key_str(op[2])} {rs}'
        if o == 'view': return 'view ' + expr_str(op[1])
        if o == 'reduce': return f'reduce {op[1]}'
        if o == 'copy': return 'state'
        if o == 'notnanvals': return f'notnanvals {op[1]}'
        if o == 'iter': return f'iter {op[1]}'
        if o == 'split': return 'split ' + expr_str(op[1])
        if o == 'setnan': return f'setnan {op[1]} {nats(op[2])}'
        if o == 'usetb': return f'usetb {op[1]} {nats(op[2])} ' + expr_str(op[3])
        if o == 'uset': return f'uset {op[1]} {nats(op[2])} {nats(op[3])}'
        if o == 'ucat': return 'ucat ' + ' '.join(nats(l) for l in op[1])
        if o == 'late':
            s = op[1]; d = s['default']
            ds = 'unset -' if d[0] == 'unset' else (f'const {tok(d[1])} -' if d[0] == 'const' else f'affine {tok(d[1])} {tok(d[2])} -')
            return f"new {s['name']} {KIND[s['type']]} {NAN[s['type']]} {ds}"
        raise ValueError(op)


def expr_str(e):
    k = e[0]
    if k == 'arr': return f'arr {e[1]}'
    if k in ('cmp', 'notcmp', 'logics'): return f'{k} {e[1]} {e[2]} {tok(e[3])}'
    if k in ('cmparr', 'logic'): return f'{k} {e[1]} {e[2]} {e[3]}'
    if k == 'not': return f'not {e[1]}'
    if k in ('isnan', 'notnan'): return f'{k} {e[1]}'
    if k == 'arith': return f'arith {e[1]} {e[2]} {tok(e[3])}'
    if k == 'aritharr': return f'aritharr {e[1]} {e[2]} {e[3]}'
    if k == 'cmparith': return f'cmparith {e[1]} {e[2]} {tok(e[3])} {e[4]} {tok(e[5])}'
    raise ValueError(e)


def key_str(k):
    t = k[0]
    if t == 'uids': return f'uids {nats(k[1])}'
    if t == 'ruids': return 'ruids ' + ','.join(str(int(x)) for x in k[1])
    if t == 'int': return f'int {k[1]}'
    if t == 'slice': return 'slice ' + ' '.join('none' if x is None else str(x) for x in k[1:4])
    if t == 'bool': return 'bool ' + expr_str(k[1])
    if t == 'index': return f'index {k[1]}'
    if t == 'empty': return 'empty'
    if t == 'bad': return 'bad'
    raise ValueError(k)


# ---------------------------------------------------------------------------
# generator (reads the current real state so that sizes hit the interesting boundaries)

def gen_case_header(rng):
    n0 = rng.choice([1, 2, 3, 4, 6, 8, 9, 12, 16])
    arrays = []
    nt = rng.randint(3, 6)
    types = ['float', 'bool'] + [rng.choice(TYPES) for _ in range(nt - 2)]
    rng.shuffle(types)
    for i, t in enumerate(types):
        if t == 'float':
            d = rng.choice([['unset'], ['const', rng.choice([0.0, 1.5, -2.25])], ['affine', rng.choice([0.0, 1.0]), rng.choice([0.25, 0.5, -0.5])], ['dist']])
        elif t in ('bool', 'state'):
            d = rng.choice([['unset'], ['const', True], ['const', False], ['dist']])
        else:
            d = rng.choice([['unset'], ['const', rng.choice([0, 3, -2])]])
        arrays.append(dict(name=f'{t[0]}{i}', type=t, default=d))
    return dict(n0=n0, arrays=arrays, seed=rng.randint(0, 999), ops=[])


def rand_any(rng, t):
    """ a value of ANOTHER dtype than the array's: exercises NumPy's casting on assignment """
    pool = [True, False, 2.5, -2.5, 0.75, 0.0, 3, -1, 'nan']
    if t == 'float': pool = [True, False, 3, -1, 0]
    return rng.choice(pool)


def rand_val(rng, t, allow_nan=True, cross=0.0):
    if cross and rng.random() < cross:
        return rand_any(rng, t)
    if t == 'float':
        if allow_nan and rng.random() < 0.08: return 'nan'
        return rng.randint(-16, 16) / 4
    if t in ('bool', 'state'): return rng.random() < 0.5
    if t == 'int': return rng.randint(-4, 4)
    if t == 'index': return rng.randint(0, 6)
    raise ValueError(t)


def gen_expr(rng, w, boolish_only=False):
    """ a derived-array expression over the registered arrays """
    names = [n for n in w.order if n not in ('uid', 'slot')]
    bools = [n for n in names if w.specs[n]['type'] in ('bool', 'state')]
    nice = [n for n in names if w.specs[n]['type'] in ('float', 'int') and w.specs[n]['default'][0] != 'dist']
    r = rng.random()
    nm = rng.choice(names + ['uid', 'slot'])
    t = w.specs[nm]['type']
    q = rng.random()
    if q < 0.10:
        return [rng.choice(['isnan', 'notnan']), nm]
    if q < 0.22 and nice and not boolish_only:
        a = rng.choice(nice); ta = w.specs[a]['type']
        op = rng.choice(['add', 'sub', 'mul'])
        v = rng.choice([2, -1, 0.5, 0, 3]) if op == 'mul' else rng.randint(-8, 8) / 4
        z = rng.random()
        if z < 0.45: return ['arith', a, op, v, rng.choice(['op', 'np', 'rop'])]
        if z < 0.7:
            same = [n for n in nice if w.specs[n]['type'] == ta]
            return ['aritharr', a, op, rng.choice(same)]
        return ['cmparith', a, op, v, rng.choice(list(CMPS)), rand_val(rng, ta, allow_nan=False)]
    if r < 0.35:
        return ['cmp', nm, rng.choice(list(CMPS)), rand_val(rng, t)]
    if r < 0.45:
        return ['notcmp', nm, rng.choice(list(CMPS)), rand_val(rng, t)]
    if r < 0.55:
        same = [n for n in names if w.specs[n]['type'] == t] or [nm]
        return ['cmparr', nm, rng.choice(list(CMPS)), rng.choice(same)]
    if r < 0.65 and bools:
        return ['arr', rng.choice(bools)]
    if r < 0.75:
        return ['not', rng.choice(bools) if bools and rng.random() < 0.85 else nm]
    if r < 0.9:
        a = rng.choice(bools) if bools and rng.random() < 0.85 else nm
        b = rng.choice(bools) if bools else nm
        return ['logic', a, rng.choice(['and', 'or', 'xor']), b]
    a = rng.choice(bools) if bools and rng.random() < 0.85 else nm
    return ['logics', a, rng.choice(['and', 'or', 'xor']), rng.random() < 0.5]


def gen_uid_list(rng, w, allow_bad=True):
    p = w.people
    n = int(p.uid.len_used); tot = int(p.uid.len_tot)
    au = [int(u) for u in p.auids]
    r = rng.random()
    if r < 0.15 or n == 0: return []
    if r < 0.55 and au:
        k = rng.randint(1, min(len(au), 6)); l = rng.sample(au, k)
    elif r < 0.8:
        k = rng.randint(1, min(n, 6)); l = [rng.randrange(n) for _ in range(k)]     # any created uid, repeats allowed
    elif r < 0.9 and tot > n:
        l = [rng.randrange(n, tot)] + ([rng.randrange(n)] if rng.random() < 0.5 else [])    # spare capacity
    elif allow_bad:
        l = [tot + rng.randint(0, 3)] + ([rng.randrange(n)] if rng.random() < 0.5 else [])  # out of storage
    else:
        l = [rng.randrange(n)]
    if rng.random() < 0.5: l = sorted(l)
    return l


def gen_key(rng, w):
    p = w.people
    tot = int(p.uid.len_tot); na = len(p.auids)
    r = rng.random()
    if r < 0.26: return ['uids', gen_uid_list(rng, w)]
    if r < 0.30:
        l = [rng.randint(-tot - 1, tot) for _ in range(rng.randint(1, 3))]       # a uid array with negative entries: NumPy wraps
        if rng.random() < 0.7: l = [max(min(x, tot - 1), -tot) for x in l]
        return ['ruids', l]
    if r < 0.45: return ['int', rng.randint(-tot - 1, tot), rng.choice(['py', 'np'])]
    if r < 0.62:
        def b(): return rng.choice([None, None, rng.randint(-na - 2, na + 2)])
        return ['slice', b(), b(), rng.choice([None, None, 1, 2, 3, -1, -2, 0 if rng.random() < 0.3 else 1])]
    if r < 0.80: return ['bool', gen_expr(rng, w)]
    if r < 0.88: return ['index', rng.choice(['uid', 'slot'])]
    if r < 0.94: return ['empty', rng.choice(['list', 'array'])]
    return ['bad', rng.choice(['list', 'array', 'float', 'str', 'boolarray', 'none'])]


def gen_op(rng, w):
    p = w.people
    n = int(p.uid.len_used); tot = int(p.uid.len_tot)
    au = [int(u) for u in p.auids]
    names = [nm for nm in w.order if nm != 'uid']
    r = rng.random()
    if r < 0.015:
        return ['copy']
    if r < 0.12:
        spare = tot - n
        k = rng.choice([spare, spare + 1, 1, 1, 2, tot // 2, tot // 2 + 1, max(spare - 1, 0), 0, 3])
        return ['grow', min(k, 40)]
    if r < 0.22 and au:
        q = rng.random()
        if q < 0.08: us = list(au)                                   # mass removal
        elif q < 0.2: us = [au[0]]
        elif q < 0.3: us = [au[-1]]
        else: us = rng.sample(au, rng.randint(1, max(1, len(au) // 3)))
        if rng.random() < 0.2 and n > len(au):
            gone = sorted(set(range(n)) - set(au)); us = us + [rng.choice(gone)]    # already removed: no effect
        return ['remove', sorted(us)]
    if r < 0.40:
        return ['get', rng.choice(w.order), gen_key(rng, w)]
    if r < 0.58:
        nm = rng.choice(names); t = w.specs[nm]['type']
        key = gen_key(rng, w)
        intlike = t in ('int', 'index')
        if rng.random() < 0.5 or key[0] == 'int':      # an int key takes a scalar (NumPy's element-from-sequence casting is not modelled)
            rhs = ['scalar', rand_val(rng, t, cross=0.3)]
        else:
            # a list of the right length most of the time: the length needs the key's size -> ask the real key
            try:
                kk = w.key(key)
                ln = 1 if key[0] == 'int' else len(w.arrs[nm]._convert_key(kk))
            except Exception:
                ln = rng.randint(0, 3)
            q = rng.random()
            if q < 0.12: ln = ln + 1
            elif q < 0.2: ln = 1
            vals = [rand_val(rng, t, cross=0.3) for _ in range(ln)]
            if intlike: vals = [0 if v == 'nan' else v for v in vals]      # NaN inside a list cast to int64 is undefined in NumPy
            rhs = ['list', vals]
        return ['set', nm, key, rhs]
    if r < 0.70:
        return ['view', gen_expr(rng, w)]
    if r < 0.74:
        q = rng.random()
        floats = [nm for nm in w.order if w.specs[nm]['type'] == 'float']
        if q < 0.3 and floats: return ['notnanvals', rng.choice(floats)]
        if q < 0.55: return ['split', gen_expr(rng, w, boolish_only=True)]
        if q < 0.8:
            nm = rng.choice(w.order)
            return ['iter', nm, rng.choice(['iter', 'values']), [rand_val(rng, w.specs[nm]['type'], allow_nan=False) for _ in range(2)]]
        nm = rng.choice(names)
        return ['setnan', nm, gen_uid_list(rng, w)]
    if r < 0.84:
        return ['reduce', rng.choice(w.order)]
    if r < 0.94:
        def ul(): return [rng.randint(0, 12) for _ in range(rng.choice([0, 1, 2, 3, 5, 8]))]
        if rng.random() < 0.2:
            return ['ucat', [ul() for _ in range(rng.randint(2, 4))], rng.choice(['args', 'list'])]
        if rng.random() < 0.3:
            ua = [rng.randrange(max(n, 1)) for _ in range(rng.choice([0, 2, 4, 7]))]       # repeats likely
            return ['usetb', rng.choice(['remove', 'intersect', 'union', 'xor']), ua, gen_expr(rng, w, boolish_only=True), rng.choice(['op', 'method'])]
        return ['uset', rng.choice(['concat', 'remove', 'intersect', 'union', 'xor', 'unique']), ul(), ul(), rng.choice(['op', 'method'])]
    if len(w.order) < 10 and len(au) == n:      # registration after removals is C10's business (it is mis-sized / refused)
        t = rng.choice(TYPES)
        d = rng.choice([['unset'], ['const', rand_val(rng, t, allow_nan=False)]] + ([['affine', 0.0, 0.25]] if t == 'float' else []))
        return ['late', dict(name=f'late{len(w.order)}', type=t, default=d)]
    return ['reduce', rng.choice(w.order)]


# ---------------------------------------------------------------------------
# correspondence

def parse_model(line):
    parts = line.split(' ')
    out = dict(st=parts[0], fields={}, arrays={})
    for p in parts[1:]:
        if '=' in p:
            k, v = p.split('=', 1); out['fields'][k] = v
        elif p.count(':') >= 3:
            nm, lu, lt, raw = p.split(':', 3)
            out['arrays'][nm] = (int(lu), int(lt), [] if raw == '-' else raw.split(','))
        elif p:
            out.setdefault('bare', []).append(p)
    return out


def lst(s):
    return [] if s == '-' else s.split(',')


def cmp_cells(model, impl):
    """ cell lists equal, `_` in the model = uninitialised = don't care """
    if len(model) != len(impl): return False
    return all(m == '_' or m == i for m, i in zip(model, impl))


def close32(model_tok, impl_tok):
    """ mean: model exact rational, code float32 (one rounding of an exact sum / n) """
    if model_tok == impl_tok: return True
    a, b = num_of(model_tok), num_of(impl_tok)
    if a is None or b is None: return model_tok == impl_tok
    return abs(a - b) <= max(abs(a), 1) * fractions.Fraction(1, 2 ** 19)


def compare(op, obs, ml):
    """ None if the observation agrees with the model line, else a description """
    if ml == 'bad-op': return 'model rejected the operation line'
    m = parse_model(ml)
    if op[0] == 'grow' and obs['st'] != 'ok' and m['st'].startswith('E:'):
        return None     # both refuse; which array raises first depends on registry order
    if obs['st'] != m['st']:
        return f"outcome: impl={obs['st']} ({obs.get('msg', '')}) model={m['st']}"
    if obs['st'] != 'ok': return None
    o = op[0]
    f = m['fields']
    if o in ('grow', 'remove', 'copy'):
        s = obs['state']
        if str(s['n']) != f['n']: return f"n: impl={s['n']} model={f['n']}"
        if nats(s['au']) != f['au']: return f"auids: impl={nats(s['au'])} model={f['au']}"
        for nm, (lu, lt, raw) in s['arrays'].items():
            if nm not in m['arrays']: return f'array {nm} missing in the model state'
            mlu, mlt, mraw = m['arrays'][nm]
            if (lu, lt) != (mlu, mlt): return f'{nm}: (len_used,len_tot) impl={(lu, lt)} model={(mlu, mlt)}'
            if not cmp_cells(mraw, raw): return f'{nm}: storage impl={toks(raw)} model={toks(mraw)}'
        return None
    if o in ('set', 'late'):
        nm = op[1] if o == 'set' else op[1]['name']
        lu, lt, raw = obs['arr']; mlu, mlt, mraw = m['arrays'][nm]
        if (lu, lt) != (mlu, mlt): return f'{nm}: (len_used,len_tot) impl={(lu, lt)} model={(mlu, mlt)}'
        if not cmp_cells(mraw, raw): return f'{nm}: storage impl={toks(raw)} model={toks(mraw)}'
        return None
    if o == 'get':
        if 'one' in obs:
            if 'one' not in f: return f"scalar result impl={obs['one']} but model returned {ml}"
            return None if f['one'] in ('_', obs['one']) else f"value impl={obs['one']} model={f['one']}"
        if 'vals' not in f: return f"array result impl={toks(obs['vals'])} but model returned {ml}"
        return None if cmp_cells(lst(f['vals']), obs['vals']) else f"values impl={toks(obs['vals'])} model={f['vals']}"
    if o == 'view':
        if not cmp_cells(lst(f['vals']), obs['vals']): return f"values impl={toks(obs['vals'])} model={f['vals']}"
        if nats(obs['true']) != f['true']: return f"true() impl={nats(obs['true'])} model={f['true']}"
        if nats(obs['false']) != f['false']: return f"false() impl={nats(obs['false'])} model={f['false']}"
        if obs.get('uids') is not None and nats(obs['uids']) != f['true']: return f"BoolArr.uids impl={nats(obs['uids'])} model={f['true']}"
        if not cmp_cells(lst(f['raw']), obs['raw']): return f"derived storage impl={toks(obs['raw'])} model={f['raw']}"
        if op[1][0] != 'arr' and obs['cls'] != 'BoolArr' and op[1][0] in ('cmp', 'cmparr', 'notcmp'): return f"comparison returned {obs['cls']}"
        return None
    if o in ('notnanvals', 'iter'):
        return None if cmp_cells(lst(f['vals']), obs['vals']) else f"{o}: impl={toks(obs['vals'])} model={f['vals']}"
    if o == 'split':
        if nats(obs['true']) != f['true'] or nats(obs['false']) != f['false']:
            return f"split(): impl=({nats(obs['true'])} | {nats(obs['false'])}) model=({f['true']} | {f['false']})"
        if nats(obs['conv']) != f['true']: return f"ss.uids(boolarr) impl={nats(obs['conv'])} model={f['true']}"
        return None
    if o == 'setnan':
        lu, lt, raw = obs['arr']; mlu, mlt, mraw = m['arrays'][op[1]]
        if (lu, lt) != (mlu, mlt) or not cmp_cells(mraw, raw): return f'{op[1]}: storage impl={toks(raw)} model={toks(mraw)}'
        return None
    if o == 'reduce':
        for k in ('len', 'count', 'any', 'all'):
            if str(obs[k]) != f[k]: return f'{k}: impl={obs[k]} model={f[k]}'
        if str(obs['nplen']) != f['len']: return f"len(values): impl={obs['nplen']} model={f['len']}"
        if str(obs['npcount']) != f['count']: return f"np.count_nonzero: impl={obs['npcount']} model={f['count']}"
        if obs['sum'] not in ('nan', 'none') and f['sum'] not in ('nan', 'none'):
            # float32 accumulation: exact for the harness's own values, rounded for distribution-drawn ones
            a, b = num_of(obs['sum']), num_of(f['sum'])
            if abs(a - b) > max(abs(b), 1) * fractions.Fraction(1, 2 ** 19): return f"sum: impl={obs['sum']} model={f['sum']}"
        for k in ('sum', 'min', 'max'):
            if k == 'sum' and obs['sum'] not in ('nan', 'none') and f['sum'] not in ('nan', 'none'): continue
            a, b = num_of(obs[k]), num_of(f[k])
            if (obs[k] in ('nan', 'none') or f[k] in ('nan', 'none')):
                if obs[k] != f[k]: return f'{k}: impl={obs[k]} model={f[k]}'
            elif a != b: return f'{k}: impl={obs[k]} model={f[k]}'
        if not close32(f['mean'], obs['mean']): return f"mean: impl={obs['mean']} model={f['mean']}"
        return None
    if o in ('uset', 'ucat', 'usetb'):
        mu = m.get('bare', ['-'])[0] if m.get('bare') else '-'
        if nats(obs['uids']) != mu: return f"uids impl={nats(obs['uids'])} model={mu}"
        if obs['cls'] != 'uids': return f"result class {obs['cls']}"
        return None
    return f'unknown op {o}'


def run_sequence(rng, nops, header=None, fixed_ops=None):
    """ generate + execute one sequence on the real code; returns (case, lines, [(op, obs)]) """
    case = header or gen_case_header(rng)
    w = Real(case)
    lines = w.new_lines()
    pre = len(lines)
    st0 = w.state()
    log = []
    todo = list(fixed_ops) if fixed_ops is not None else [None] * nops
    for fop in todo:
        op = fop if fop is not None else gen_op(rng, w)
        obs = w.exec(op)
        case['ops'].append(op)
        lines.append(w.line(op, obs))
        log.append((op, obs))
        if op[0] == 'grow' and obs['st'] != 'ok':
            break       # People.grow raised half-way (only possible after a mis-sized late registration): stop here
    return case, lines, log, pre, st0, w


def check_initial(st0, model_lines):
    """ the model's state after the `new` lines equals the real state after sim.init() """
    for ml in model_lines[1:]:
        m = parse_model(ml)
        if m['st'] != 'ok': return f'model could not register an array: {ml}'
        for nm, (mlu, mlt, mraw) in m['arrays'].items():
            lu, lt, raw = st0['arrays'][nm]
            if (lu, lt) != (mlu, mlt) or not cmp_cells(mraw, raw):
                return f'{nm} after init: impl={(lu, lt, toks(raw))} model={(mlu, mlt, toks(mraw))}'
    return None


def correspond(ctx):
    import starsim as ss
    facts = (ctx.extracted.get('ArrConsts') or {}).get('facts') or {}
    # run-time cross-check of extracted facts against the imported module
    if facts:
        a = ss.FloatArr('x'); b = ss.BoolArr('y'); i = ss.IndexArr('z')
        live = dict(FloatArr=a.nan, BoolArr=b.nan, IndexArr=i.nan)
        if not (isinstance(live['FloatArr'], float) and math.isnan(live['FloatArr'])) or live['BoolArr'] is not False or live['IndexArr'] != -1:
            ctx.broke('extract', 'ArrConsts', f'nan defaults of the live classes differ from the extracted ones: {live} vs {facts.get("nans")}')
    nseq = ctx.budget(150, 1200)
    nops = 36
    all_lines = []; per = []
    for k in range(nseq + len(FIXED_SCENARIOS)):
        try:
            if k < len(FIXED_SCENARIOS):
                sc = FIXED_SCENARIOS[k]
                case, lines, log, pre, st0, w = run_sequence(ctx.rng, 0, header=dict(sc, ops=[]), fixed_ops=[list(o) for o in sc['ops']])
            else:
                case, lines, log, pre, st0, w = run_sequence(ctx.rng, nops)
        except Exception as e:
            import traceback
            ctx.broke('correspondence', 'C11.opseq', f'implementation harness raised {type(e).__name__}: {e}\n{traceback.format_exc()[-1500:]}')
            continue
        per.append((case, lines, log, pre, st0, len(all_lines)))
        all_lines += lines
    out = ctx.drive(DRIVER, all_lines)
    nbroken = 0
    for case, lines, log, pre, st0, off in per:
        ml = out[off:off + len(lines)]
        div = check_initial(st0, ml[:pre])
        at = None
        if div is None:
            for j, (op, obs) in enumerate(log):
                d = compare(op, obs, ml[pre + j])
                ctx.count('op_' + op[0])
                if obs['st'] != 'ok': ctx.count('err_' + obs['st'])
                if op[0] in ('get', 'set'): ctx.count('key_' + op[2][0])
                if d is not None:
                    div = d; at = j; break
        kinds = [op[0] for op, _ in log]
        nontrivial = 'remove' in kinds and 'grow' in kinds
        ctx.case(tuple(lines), nontrivial, sample=dict(kind='op-sequence', n0=case['n0'], arrays=[f"{a['name']}:{a['type']}:{a['default'][0]}" for a in case['arrays']], ops=lines[pre:pre + 10]))
        if div is not None and nbroken < 3:
            nbroken += 1
            ops = case['ops'][:at + 1] if at is not None else []
            small = shrink(dict(case, ops=ops)) if at is not None else dict(case, ops=[])
            ctx.broke('correspondence', 'C11.opseq',
                      f"real array operation diverges from Model/Arr.lean at op {at} `{lines[pre + at] if at is not None else 'init'}`: {div}",
                      data=dict(case=small, line=lines[pre + at] if at is not None else None, divergence=div))
    ctx.notes['array_types_covered'] = sorted({a['type'] for c, *_ in per for a in c['arrays']} | {'index'})
    ctx.notes['code_variant_int_key'] = 'spec' if facts.get('int_via_active') else 'asis'


def shrink(case):
    """ drop operations (other than the last) as long as the last one still misbehaves w.r.t. the reference """
    ops = list(case['ops'])
    if len(ops) <= 1: return case
    try:
        base = bool(oracle_case(dict(case, ops=ops)))
    except Exception:
        return case
    if not base: return case
    i = 0
    while i < len(ops) - 1:
        trial = ops[:i] + ops[i + 1:]
        try:
            bad = bool(oracle_case(dict(case, ops=trial)))
        except Exception:
            bad = False
        if bad: ops = trial
        else: i += 1
    return dict(case, ops=ops)


# ---------------------------------------------------------------------------
# oracle: the real code against a Python dict reference

class Ref:
    """ uid -> value maps (one per array) + ordered active list.  Knows nothing about storage. """
    def __init__(self, w):
        st = w.state()
        self.n = st['n']; self.active = list(st['au'])
        self.maps = {nm: {u: raw[u] for u in range(self.n)} for nm, (lu, lt, raw) in st['arrays'].items()}
        self.specs = w.specs
        self.order = list(w.order)
        self.affine_calls = {}

    def vals(self, nm): return [self.maps[nm][u] for u in self.active]

    def expr(self, e):
        """ -> list of canonical tokens over the active agents (Boolean-valued), or raises BoolOp """
        k = e[0]
        def cmp1(op, a, b):
            x, y = num_of(a), num_of(b)
            if x is None or y is None: return op == 'ne'
            return PYCMP[op](x, y)
        def isbool(nm): return self.specs[nm]['type'] in ('bool', 'state')
        if k == 'arr': return self.vals(e[1])
        if k == 'cmp': return ['T' if cmp1(e[2], v, tok(e[3])) else 'F' for v in self.vals(e[1])]
        if k == 'notcmp': return ['F' if cmp1(e[2], v, tok(e[3])) else 'T' for v in self.vals(e[1])]
        if k == 'cmparr': return ['T' if cmp1(e[2], a, b) else 'F' for a, b in zip(self.vals(e[1]), self.vals(e[3]))]
        if k == 'not':
            if not isbool(e[1]): raise BoolOp()
            return ['F' if truthy(v) else 'T' for v in self.vals(e[1])]
        if k in ('isnan', 'notnan'):
            t = self.specs[e[1]]['type']
            nanv = {'float': 'nan', 'int': '-9', 'index': '-1'}.get(t)
            isn = [(v == nanv) if nanv is not None else False for v in self.vals(e[1])]
            return ['T' if (x if k == 'isnan' else not x) else 'F' for x in isn]
        if k == 'arith': return [arith_tok(e[2], v, tok(e[3])) for v in self.vals(e[1])]
        if k == 'aritharr': return [arith_tok(e[2], a, b) for a, b in zip(self.vals(e[1]), self.vals(e[3]))]
        if k == 'cmparith': return ['T' if cmp1(e[4], arith_tok(e[2], v, tok(e[3])), tok(e[5])) else 'F' for v in self.vals(e[1])]
        if k in ('logic', 'logics'):
            if not isbool(e[1]): raise BoolOp()
            a = [truthy(v) for v in self.vals(e[1])]
            b = [truthy(v) for v in self.vals(e[3])] if k == 'logic' else [bool(e[3])] * len(a)
            f = dict(**{'and': lambda x, y: x and y, 'or': lambda x, y: x or y, 'xor': lambda x, y: x != y})[e[2]]
            return ['T' if f(x, y) else 'F' for x, y in zip(a, b)]
        raise ValueError(e)

    def key_uids(self, key):
        """ the identifiers a key denotes under the property's reading; None = outside the reference's knowledge """
        t = key[0]
        if t == 'uids':
            return list(key[1]) if all(u < self.n for u in key[1]) else None
        if t == 'ruids':
            return list(key[1]) if all(0 <= u < self.n for u in key[1]) else None
        if t == 'int':
            i = key[1]
            return [self.active[i]] if -len(self.active) <= i < len(self.active) else 'index-error'
        if t == 'slice':
            if key[3] == 0: return 'value-error'
            return self.active[slice(key[1], key[2], key[3])]
        if t == 'bool':
            e = key[1]
            if e[0] in ('arith', 'aritharr') or (e[0] == 'arr' and self.specs[e[1]]['type'] not in ('bool', 'state')):
                return [] if not self.active else 'ambiguous'      # an Arr that is not a BoolArr is not an accepted key
            try:
                v = self.expr(key[1])
            except BoolOp:
                return 'boolop'
            return [u for u, x in zip(self.active, v) if truthy(x)]
        if t == 'index':
            us = [int(num_of(x)) for x in self.vals(key[1])]
            return us if all(0 <= u < self.n for u in us) else None
        if t == 'empty': return []
        if t == 'bad': return 'ambiguous'
        raise ValueError(key)


class BoolOp(Exception):
    pass


def oracle_step(w, ref, op, obs):
    """ Compare one real observation with the reference; update the reference. Returns a list of (signature, what). """
    out = []
    o = op[0]
    def bad(oracle, what, **sig):
        out.append((dict(oracle=oracle, **sig), what))
    if o == 'grow':
        if obs['st'] != 'ok':
            bad('grow', f"People.grow({op[1]}) raised {obs['st']} {obs.get('msg')}"); return out
        st = obs['state']; k = op[1]
        new = list(range(ref.n, ref.n + k))
        if st['n'] != ref.n + k: bad('grow', f"after grow({k}) the uid space has {st['n']} ids, expected {ref.n + k}")
        if st['au'] != ref.active + new: bad('grow', f"after grow({k}) the active ids are {st['au']}, expected {ref.active + new}", site='People.grow.auids')
        for nm in ref.order:
            lu, lt, raw = st['arrays'][nm]
            mp = ref.maps[nm]
            if lu != ref.n + k or lt < lu or lt != len(raw):
                bad('grow-bookkeeping', f'{nm}: len_used={lu} len_tot={lt} len(raw)={len(raw)} after grow to {ref.n + k} ids', array_type=ref.specs[nm]['type'])
                continue
            old_changed = [u for u in range(ref.n) if raw[u] != mp[u]]
            if old_changed:
                bad('grow-preserve', f'{nm}: grow({k}) changed existing values at uids {old_changed[:5]}', array_type=ref.specs[nm]['type'])
            d = ref.specs[nm]['default']
            if d[0] == 'unset': exp = [('-1' if ref.specs[nm]['type'] == 'index' else NAN[ref.specs[nm]['type']])] * k
            elif d[0] == 'const': exp = [tok(d[1])] * k
            elif d[0] == 'affine': exp = [cv(np.float32(d[1] + d[2] * i)) for i in range(k)]
            elif d[0] == 'iota': exp = [str(u) for u in new]
            elif d[0] == 'dist': exp = (obs.get('draws') or {}).get(nm)
            got = [raw[u] for u in new]
            if k and exp is None:
                bad('grow-default', f'{nm}: the distribution default was not drawn for the new agents', array_type=ref.specs[nm]['type'])
            elif k and got != exp:
                bad('grow-default', f'{nm}: new agents {new} received {got}, declared default gives {exp}', array_type=ref.specs[nm]['type'], default=d[0])
            for u in new: mp[u] = raw[u]
        ref.n += k; ref.active += new
        return out
    if o == 'copy':
        if obs['st'] != 'ok':
            bad('copy', f"deep-copying the sim raised {obs['st']} {obs.get('msg')}"); return out
        st = obs['state']
        if st['au'] != ref.active or st['n'] != ref.n: bad('copy', f"a deep copy of the sim has active ids {st['au']} / {st['n']} ids, the original {ref.active} / {ref.n}")
        for nm in ref.order:
            raw = st['arrays'][nm][2]
            diff = [u for u in range(ref.n) if raw[u] != ref.maps[nm][u]]
            if diff: bad('copy', f'{nm}: a deep copy of the sim holds different values at uids {diff[:5]}')
        return out
    if o == 'remove':
        if obs['st'] != 'ok':
            bad('remove', f"removal raised {obs['st']} {obs.get('msg')}"); return out
        exp = [u for u in ref.active if u not in set(op[1])]
        if obs['state']['au'] != exp: bad('remove', f"active ids after removing {op[1]}: {obs['state']['au']}, expected {exp}")
        for nm in ref.order:
            raw = obs['state']['arrays'][nm][2]
            if nm != 'uid' and any(raw[u] != ref.maps[nm][u] for u in range(ref.n)):
                bad('remove', f'{nm}: removal changed stored values')
        ref.active = exp
        return out
    if o == 'late':
        spec = op[1]; nm = spec['name']
        if obs['st'] != 'ok':
            # registering after removals is refused by the code (IndexError): not a silent misalignment
            if len(ref.active) == ref.n:
                bad('late-registration', f"registering a state with all {ref.n} agents active raised {obs['st']}")
            return out
        lu, lt, raw = obs['arr']
        if lu != ref.n or lt < lu:
            bad('late-registration', f'{nm}: len_used={lu} len_tot={lt} but the uid space has {ref.n} ids')
        ref.specs[nm] = spec; ref.order.append(nm)
        ref.maps[nm] = {u: raw[u] for u in range(min(ref.n, len(raw)))}
        d = spec['default']
        exp = [NAN[spec['type']]] * ref.n if d[0] == 'unset' else ([tok(d[1])] * ref.n if d[0] == 'const' else [cv(np.float32(d[1] + d[2] * i)) for i in range(ref.n)])
        if [raw[u] for u in ref.active] != [exp[i] for i in range(len(ref.active))] and d[0] != 'affine':
            bad('grow-default', f'{nm}: late-registered state did not get its default', array_type=spec['type'], default=d[0])
        return out
    if o == 'get':
        nm = op[1]; us = ref.key_uids(op[2])
        if us is None: return out
        t = op[2][0]
        if isinstance(us, str):
            if t == 'int':
                # the property: an int indexes the active agents; out of range must raise
                if obs['st'] == 'ok':
                    bad('int-index', f"{nm}[{op[2][1]}] returned {obs.get('one')} although only {len(ref.active)} agents are active", site='Arr.__getitem__')
                return out
            want = dict([('value-error', 'E:Value'), ('ambiguous', 'E:Ambiguous'), ('boolop', 'E:BoolOp')])[us]
            if obs['st'] != want: bad('key-rejection', f"{nm}[{key_str(op[2])}] gave {obs['st']}, expected {want}", key=t)
            return out
        exp = [ref.maps[nm][u] for u in us]
        if obs['st'] != 'ok':
            if t == 'int': bad('int-index', f"{nm}[{op[2][1]}] raised {obs['st']} although {len(ref.active)} agents are active", site='Arr.__getitem__')
            else: bad('get', f"{nm}[{key_str(op[2])}] raised {obs['st']} {obs.get('msg')}", key=t)
            return out
        if t == 'int':
            if obs.get('one') != exp[0]:
                bad('int-index', f"{nm}[{op[2][1]}] = {obs.get('one')} but the {op[2][1]}-th active agent (uid {us[0]}) has {exp[0]}", site='Arr.__getitem__')
        elif obs.get('vals') != exp:
            bad('get', f"{nm}[{key_str(op[2])}] = {obs.get('vals')} but the reference map gives {exp} (uids {us})", key=t)
        return out
    if o == 'set':
        nm = op[1]; us = ref.key_uids(op[2]); t = op[2][0]; rhs = op[3]
        def resync():
            if obs['st'] == 'ok':
                raw = obs['arr'][2]
                for u in range(ref.n): ref.maps[nm][u] = raw[u]
        if us is None:
            resync(); return out
        if isinstance(us, str):
            if t == 'int':
                if obs['st'] == 'ok': bad('int-index', f"{nm}[{op[2][1]}] = … was accepted although only {len(ref.active)} agents are active", site='Arr.__setitem__')
                resync(); return out
            want = dict([('value-error', 'E:Value'), ('ambiguous', 'E:Ambiguous'), ('boolop', 'E:BoolOp')])[us]
            if obs['st'] != want: bad('key-rejection', f"{nm}[{key_str(op[2])}] = … gave {obs['st']}, expected {want}", key=t)
            resync(); return out
        ty = ref.specs[nm]['type']
        vals = [tok(rhs[1])] * len(us) if rhs[0] == 'scalar' else [tok(v) for v in rhs[1]]
        vals = [cast_tok(ty, v) for v in vals]
        if any(v is None for v in vals) or (rhs[0] == 'scalar' and cast_tok(ty, tok(rhs[1])) is None):
            # NaN into an integer array: NumPy refuses
            if obs['st'] == 'ok': bad('set-cast', f'{nm}[{key_str(op[2])}] = nan was accepted by an integer array')
            resync(); return out
        if rhs[0] == 'list' and len(vals) == 1: vals = vals * len(us)
        if len(vals) != len(us):
            if obs['st'] == 'ok': bad('set', f'{nm}[{key_str(op[2])}] accepted {len(vals)} values for {len(us)} agents')
            resync(); return out
        if obs['st'] != 'ok':
            if t == 'int': bad('int-index', f"{nm}[{op[2][1]}] = … raised {obs['st']}", site='Arr.__setitem__')
            else: bad('set', f"{nm}[{key_str(op[2])}] = … raised {obs['st']} {obs.get('msg')}", key=t)
            return out
        exp = dict(ref.maps[nm])
        for u, v in zip(us, vals): exp[u] = v
        raw = obs['arr'][2]
        diff = [u for u in range(ref.n) if raw[u] != exp[u]]
        if diff:
            if t == 'int': bad('int-index', f"{nm}[{op[2][1]}] = {vals[0]} wrote storage position {op[2][1]} instead of the {op[2][1]}-th active agent (uid {us[0]})", site='Arr.__setitem__')
            else: bad('set', f"after {nm}[{key_str(op[2])}] = {vals} the array differs from the reference map at uids {diff[:5]}", key=t)
        resync()
        return out
    if o == 'view':
        try:
            exp = ref.expr(op[1])
        except BoolOp:
            if obs['st'] != 'E:BoolOp': bad('logic-nonbool', f"{expr_str(op[1])} on a non-Boolean array gave {obs['st']}")
            return out
        if obs['st'] != 'ok':
            bad('view', f"{expr_str(op[1])} raised {obs['st']} {obs.get('msg')}"); return out
        if obs['vals'] != exp: bad('view', f"{expr_str(op[1])}: values {obs['vals']} but the reference gives {exp}", expr=op[1][0])
        t = [u for u, x in zip(ref.active, exp) if truthy(x)]; f = [u for u, x in zip(ref.active, exp) if not truthy(x)]
        if obs['true'] != t: bad('true-false', f"{expr_str(op[1])}.true() = {obs['true']}, reference {t}", site='Arr.true')
        if obs['false'] != f: bad('true-false', f"{expr_str(op[1])}.false() = {obs['false']}, reference {f}", site='Arr.false')
        if sorted(obs['true'] + obs['false']) != sorted(ref.active) or set(obs['true']) & set(obs['false']):
            bad('partition', f"{expr_str(op[1])}: true() ∪ false() = {sorted(obs['true'] + obs['false'])} is not a partition of the active ids {ref.active}")
        return out
    if o in ('notnanvals', 'iter'):
        nm = op[1]
        if obs['st'] != 'ok':
            bad('view', f"{o} of {nm} raised {obs['st']} {obs.get('msg')}"); return out
        exp = [v for v in ref.vals(nm) if not (o == 'notnanvals' and v == 'nan')]
        if obs['vals'] != exp: bad('active-values', f"{nm}.{o if o == 'notnanvals' else '__iter__'} = {obs['vals']} but the active agents hold {exp}", view=o)
        if o == 'iter':
            for v, has in zip(op[3], obs['has']):
                if has != (tok(v) in [cast_tok('float', x) if ref.specs[nm]['type'] == 'float' else x for x in ref.vals(nm)]) and ref.specs[nm]['type'] != 'float':
                    bad('active-values', f"({v} in {nm}) = {has} but the active values are {ref.vals(nm)}", view='contains')
        return out
    if o == 'split':
        try:
            exp = ref.expr(op[1])
        except BoolOp:
            if obs['st'] != 'E:BoolOp': bad('logic-nonbool', f"{expr_str(op[1])} on a non-Boolean array gave {obs['st']}")
            return out
        if obs['st'] != 'ok':
            bad('view', f"{expr_str(op[1])}.split() raised {obs['st']} {obs.get('msg')}"); return out
        t = [u for u, x in zip(ref.active, exp) if truthy(x)]; f = [u for u, x in zip(ref.active, exp) if not truthy(x)]
        if obs['true'] != t or obs['false'] != f:
            bad('true-false', f"{expr_str(op[1])}.split() = ({obs['true']}, {obs['false']}), reference ({t}, {f})", site='BoolArr.split')
        if obs['conv'] != t: bad('true-false', f"ss.uids({expr_str(op[1])}) = {obs['conv']}, reference {t}", site='uids.__new__')
        return out
    if o == 'setnan':
        nm = op[1]
        if not all(u < ref.n for u in op[2]):
            if obs['st'] == 'ok':
                raw = obs['arr'][2]
                for u in range(ref.n): ref.maps[nm][u] = raw[u]
            return out
        if obs['st'] != 'ok':
            bad('set', f"{nm}.set_nan({op[2]}) raised {obs['st']}"); return out
        ty = ref.specs[nm]['type']
        nanv = {'float': 'nan', 'int': '-9', 'index': '-1', 'bool': 'F', 'state': 'F'}[ty]
        for u in op[2]: ref.maps[nm][u] = nanv
        raw = obs['arr'][2]
        diff = [u for u in range(ref.n) if raw[u] != ref.maps[nm][u]]
        if diff: bad('set', f"after {nm}.set_nan({op[2]}) the array differs from the reference at uids {diff[:5]}")
        return out
    if o == 'usetb':
        try:
            exp = ref.expr(op[3])
        except BoolOp:
            if obs['st'] != 'E:BoolOp': bad('logic-nonbool', f"{expr_str(op[3])} on a non-Boolean array gave {obs['st']}")
            return out
        b = [u for u, x in zip(ref.active, exp) if truthy(x)]; a = op[2]; f = op[1]
        want = dict(remove=lambda: sorted(set(a) - set(b)), intersect=lambda: sorted(set(a) & set(b)), union=lambda: sorted(set(a) | set(b)), xor=lambda: sorted(set(a) ^ set(b)))[f]()
        if obs['st'] != 'ok' or obs['uids'] != want or obs['cls'] != 'uids':
            bad('uid-algebra', f"uids({a}).{f}({expr_str(op[3])}) = {obs.get('uids')} ({obs.get('cls', obs['st'])}), set algebra with the true uids {b} gives {want}", op=f)
        return out
    if o == 'reduce':
        nm = op[1]
        if obs['st'] != 'ok':
            bad('reduce', f"reductions of {nm} raised {obs['st']} {obs.get('msg')}"); return out
        v = ref.vals(nm); nums = [num_of(x) for x in v]; hasnan = any(x is None for x in nums)
        exp = dict(len=len(v), nplen=len(v), count=sum(truthy(x) for x in v), npcount=sum(truthy(x) for x in v), any=int(any(truthy(x) for x in v)), all=int(all(truthy(x) for x in v)))
        for k, e in exp.items():
            if obs[k] != e: bad('reduce', f'{nm}: {k} = {obs[k]}, reference over the active agents {e}', reduction=k)
        for a, b in (('npsum', 'sum'), ('addreduce', 'sum'), ('npmin', 'min'), ('npmax', 'max')):
            same = obs[a] == obs[b] or (not obs[a].startswith('<') and num_of(obs[a]) is not None and num_of(obs[a]) == num_of(obs[b]))
            if not same:
                bad('reduce', f'{nm}: NumPy-level {a} = {obs[a]} but the method gives {obs[b]}', reduction=a, array_type=ref.specs[nm]['type'])
        def chk(k, e):
            a = num_of(obs[k])
            if e is None:
                if obs[k] not in ('nan', 'none'): bad('reduce', f'{nm}: {k} = {obs[k]}, reference nan/none', reduction=k)
            elif a is None or (k in ('min', 'max') and a != e) or (k in ('mean', 'sum') and abs(a - e) > max(abs(e), 1) / 2 ** 19):
                bad('reduce', f'{nm}: {k} = {obs[k]}, reference over the active agents {e}', reduction=k)
        chk('sum', None if hasnan else sum(nums, fractions.Fraction(0)))
        if v:
            chk('min', None if hasnan else min(nums)); chk('max', None if hasnan else max(nums))
            chk('mean', None if hasnan else sum(nums, fractions.Fraction(0)) / len(v))
        return out
    if o == 'uset':
        a, b = op[2], op[3]; f = op[1]
        exp = dict(concat=lambda: a + b, remove=lambda: sorted(set(a) - set(b)), intersect=lambda: sorted(set(a) & set(b)),
                   union=lambda: sorted(set(a) | set(b)), xor=lambda: sorted(set(a) ^ set(b)), unique=lambda: sorted(set(a)))[f]()
        if obs['st'] != 'ok' or obs['uids'] != exp or obs['cls'] != 'uids':
            bad('uid-algebra', f"uids({a}).{f}(uids({b})) = {obs.get('uids')} ({obs.get('cls', obs['st'])}), set algebra gives {exp}", op=f)
        return out
    if o == 'ucat':
        exp = [u for l in op[1] for u in l]
        if obs['st'] != 'ok' or obs['uids'] != exp:
            bad('uid-algebra', f"uids.cat({op[1]}) = {obs.get('uids', obs['st'])}, expected {exp}", op='cat')
        return out
    return out


def oracle_case(case, collect=None):
    """ Run a stored case on the real code against the dict reference; returns list of (signature, what) """
    try:
        w = Real(case)
    except Exception as e:
        return [(dict(oracle='init-raises'), f"a minimal sim with {case['n0']} agents and the arrays {[a['name'] + ':' + a['type'] for a in case['arrays']]} cannot be initialised: {type(e).__name__}: {e}")]
    ref = Ref(w)
    fails = []
    # the initial state itself: defaults reached every agent
    for nm in w.order:
        d = w.specs[nm]['default']; raw = w.arr_state(nm)[2]
        if d[0] == 'const' and any(x != tok(d[1]) for x in raw[:ref.n]):
            fails.append((dict(oracle='grow-default', array_type=w.specs[nm]['type'], default='const'), f'{nm}: initial values {raw} are not the declared constant'))
    for op in case['ops']:
        obs = w.exec(op)
        fails += oracle_step(w, ref, op, obs)
    fails += oracle_parent(w)
    fails += oracle_views(w, std_exprs(w))[0]
    return fails


def std_exprs(w):
    """ derived arrays every view oracle also looks at: a comparison, an isnan and an inversion per registered array """
    ex = []
    for nm in w.order:
        t = w.specs[nm]['type']
        if t == 'index': continue
        ex.append(['isnan', nm])
        if t in ('bool', 'state'): ex.append(['not', nm])
        else: ex.append(['cmp', nm, 'ge', 0])
    return ex


FIXED_SCENARIOS = [
    # removed agents keep truthy / non-NaN values; spare capacity exists; every view and key kind is read afterwards
    dict(n0=6, seed=3, arrays=[dict(name='f0', type='float', default=['affine', 1.0, 0.5]), dict(name='b1', type='bool', default=['const', True]),
                              dict(name='s2', type='state', default=['const', False]), dict(name='i3', type='int', default=['const', 3]),
                              dict(name='f4', type='float', default=['unset'])],
         ops=[['set', 'f4', ['uids', [1, 2, 4]], ['list', [2.5, 'nan', -1.0]]], ['set', 's2', ['uids', [1, 4, 5]], ['scalar', True]],
              ['remove', [1, 4]], ['grow', 1], ['remove', [6]],
              ['reduce', 'f0'], ['reduce', 'b1'], ['reduce', 'i3'], ['reduce', 'f4'], ['notnanvals', 'f4'], ['notnanvals', 'f0'],
              ['split', ['arr', 'b1']], ['split', ['arr', 's2']], ['split', ['cmp', 'f0', 'gt', 2.0]], ['split', ['isnan', 'f4']],
              ['iter', 'f0', 'iter', [1.5, 3.0]], ['iter', 'i3', 'iter', [3, 4]],
              ['view', ['isnan', 'f4']], ['view', ['notnan', 'f4']], ['view', ['isnan', 'i3']], ['view', ['notnan', 'b1']],
              ['view', ['arith', 'f0', 'mul', 2, 'op']], ['view', ['arith', 'i3', 'add', 1, 'np']], ['view', ['aritharr', 'f0', 'sub', 'f0']],
              ['view', ['cmparith', 'f0', 'add', 1.0, 'gt', 3.0]],
              ['get', 'f0', ['slice', None, None, None]], ['get', 'f0', ['slice', 1, None, 2]], ['get', 'f0', ['bool', ['arr', 'b1']]],
              ['get', 'f0', ['uids', [0, 1, 5]]], ['get', 'f0', ['ruids', [0, 2]]], ['get', 'f0', ['index', 'uid']], ['get', 'f0', ['empty', 'list']],
              ['get', 'f0', ['bad', 'list']], ['get', 'f0', ['int', 0, 'py']],
              ['set', 'b1', ['uids', [0, 2]], ['list', [0.0, 2.5]]], ['set', 'i3', ['uids', [0, 2]], ['list', [2.5, -2.5]]], ['set', 'i3', ['uids', [0]], ['scalar', 'nan']],
              ['set', 'f0', ['uids', [0, 0]], ['list', [1.0, 2.0]]], ['set', 'f0', ['bool', ['not', 'b1']], ['scalar', True]],
              ['usetb', 'remove', [0, 1, 1, 2, 5, 5], ['arr', 'b1'], 'op'], ['usetb', 'intersect', [], ['arr', 's2'], 'method'],
              ['usetb', 'xor', [0, 0, 3], ['cmp', 'f0', 'gt', 2.0], 'op'], ['usetb', 'union', [4, 4], ['arr', 's2'], 'method'],
              ['uset', 'intersect', [], [3, 3, 5], 'op'], ['uset', 'remove', [3, 3, 5, 1], [5], 'method'], ['uset', 'xor', [2, 2, 1], [1, 7, 7], 'op'],
              ['uset', 'union', [9, 1, 1], [], 'method'], ['uset', 'unique', [4, 4, 0], [], 'method'], ['ucat', [[], [2, 2], []], 'args'],
              ['grow', 4], ['setnan', 'f0', [0, 7]], ['reduce', 'f0'], ['view', ['cmparr', 'f0', 'ge', 'f4']],
              ['copy'], ['grow', 2], ['grow', 9], ['reduce', 'f4'], ['view', ['isnan', 'f4']]]),
    # nobody active at all; then regrowth
    dict(n0=2, seed=4, arrays=[dict(name='f0', type='float', default=['const', 1.5]), dict(name='b1', type='bool', default=['unset'])],
         ops=[['remove', [0, 1]], ['reduce', 'f0'], ['notnanvals', 'f0'], ['split', ['arr', 'b1']], ['iter', 'f0', 'iter', [1.5]], ['view', ['isnan', 'f0']],
              ['get', 'f0', ['slice', None, None, None]], ['grow', 3], ['reduce', 'f0'], ['split', ['cmp', 'f0', 'gt', 1.0]], ['view', ['arith', 'f0', 'add', 0.25, 'rop']]]),
]


def oracle_parent(w):
    """ every agent array of People must present the active view: len(arr) == number of active agents """
    out = []
    p = w.people
    na = len(p.auids)
    for nm in ('uid', 'slot', 'parent', 'alive', 'age', 'female', 'ti_dead', 'scale'):
        a = getattr(p, nm)
        try:
            ln = len(a); lv = len(a.values)
        except Exception as e:
            out.append((dict(oracle='active-view', array=f'people.{nm}'), f'people.{nm}: len/values raised {type(e).__name__}'))
            continue
        if ln != na or lv != na:
            out.append((dict(oracle='active-view', array=f'people.{nm}'),
                        f'people.{nm} is not restricted to the active agents: len={ln}, len(values)={lv}, active agents={na} (uid space {int(p.uid.len_used)}, storage {int(p.uid.len_tot)})'))
    return out



# ---------------------------------------------------------------------------
# generic oracles over the whole public view surface of the array classes (no list of methods to keep up to date)

MUTATORS = {'set', 'set_nan', 'grow', 'link_people', 'init_vals', 'update', 'disp', 'convert', 'asnew', 'to_json', 'auids'}


def view_names(a):
    """ public zero-argument methods / properties defined by the starsim array classes for this object """
    import inspect, starsim as ss
    owners = [c for c in type(a).__mro__ if c.__module__ == ss.arrays.__name__]
    names = []
    for n in sorted({k for c in owners for k in c.__dict__ if not k.startswith('_')} - MUTATORS):
        attr = inspect.getattr_static(type(a), n, None)
        if isinstance(attr, property):
            names.append(n)
        elif callable(attr):
            try:
                pars = [q for q in inspect.signature(attr).parameters.values() if q.default is inspect._empty and q.kind in (q.POSITIONAL_ONLY, q.POSITIONAL_OR_KEYWORD)]
            except (TypeError, ValueError):
                continue
            if len(pars) == 1: names.append(n)
    return names


def canon_result(r):
    import starsim as ss
    if isinstance(r, tuple): return ('tuple',) + tuple(canon_result(x) for x in r)
    if isinstance(r, ss.uids): return ('uids', tuple(int(u) for u in r))
    if isinstance(r, ss.Arr): return ('arr', tuple(cv(x) for x in r.values), tuple(int(u) for u in r.true()))
    if isinstance(r, np.ndarray): return ('nd', tuple(cv(x) for x in r.reshape(-1)))
    if np.isscalar(r) or isinstance(r, (bool, int, float)): return ('scalar', cv(r))
    return ('other', type(r).__name__)


def uid_parts(c):
    if c[0] == 'uids': yield c[1]
    elif c[0] == 'tuple':
        for x in c[1:]: yield from uid_parts(x)
    elif c[0] == 'arr': yield c[2]


def oracle_views(w, extra_exprs=()):
    """ Every public view of every array (a) must not depend on what is stored at inactive positions (removed agents,
        spare capacity) and (b) may only report active identifiers.  Re-derives "restricted to the active agents" from
        observed behaviour for whatever views the classes define. """
    import starsim as ss
    out = []
    p = w.people
    au = np.asarray(p.auids, dtype=np.int64)
    act = set(int(u) for u in au)
    targets = [(nm, w.arrs[nm]) for nm in w.order]
    for e in extra_exprs:
        try: targets.append((expr_str(e), w.expr(e)))
        except Exception: pass
    seen = set()
    for nm, a in targets:
        raw = a.raw
        mask = np.ones(len(raw), dtype=bool); mask[au[au < len(raw)]] = False
        if nm in ('uid', 'slot') : continue           # scrambling the uid/slot bookkeeping itself would break the harness
        for vn in view_names(a):
            seen.add(f'{type(a).__name__}.{vn}')
            def call():
                r = getattr(a, vn)
                return canon_result(r() if callable(r) and not isinstance(r, (np.ndarray, ss.Arr)) else r)
            try:
                before = call()
            except Exception as e:
                out.append((dict(oracle='view-raises', view=vn), f'{nm}.{vn} raised {type(e).__name__}: {e}')); continue
            for us in uid_parts(before):
                stray = [u for u in us if u not in act]
                if stray:
                    out.append((dict(oracle='inactive-uid-reported', view=vn), f'{nm}.{vn} reports identifiers {stray[:6]} that are not active (active: {sorted(act)[:12]}…)'))
            if not mask.any(): continue
            saved = raw[mask].copy()
            try:
                if raw.dtype == bool: raw[mask] = ~saved
                elif raw.dtype.kind == 'f': raw[mask] = np.where(np.isnan(saved), 7.75, np.nan).astype(raw.dtype)
                else: raw[mask] = saved + 1000
                after = call()
            finally:
                raw[mask] = saved
            if after != before:
                out.append((dict(oracle='inactive-sensitive', view=vn), f'{nm}.{vn} changes when only the storage of inactive agents / spare capacity changes: {str(before)[:120]} -> {str(after)[:120]}'))
    return out, sorted(seen)


def search(ctx):
    from harness.framework import sig_match
    nseq = ctx.budget(60, 500)
    for k in range(nseq):
        header = gen_case_header(ctx.rng)
        case = header
        try:
            w = Real(header)
        except Exception:
            for sig, what in oracle_case(header):
                ctx.fail(sig, what, dict(kind='opseq', case=header))
            continue
        ref = Ref(w)
        found = []
        for _ in range(36):
            op = gen_op(ctx.rng, w)
            obs = w.exec(op)
            case['ops'].append(op)
            fs = oracle_step(w, ref, op, obs)
            if fs:
                found = fs
                break
        ctx.count('oracle_sequences')
        for sig, what in found:
            known = any(kf['kind'] == 'finding' and sig_match(kf['signature'], sig) for kf in ctx.known)
            data = dict(kind='opseq', case=case if known else shrink_to(case, sig))
            ctx.fail(sig, what, data)
        vf, seen = oracle_views(w, std_exprs(w))
        ctx.notes.setdefault('views_checked', [])
        ctx.notes['views_checked'] = sorted(set(ctx.notes['views_checked']) | set(seen))
        for sig, what in vf:
            ctx.fail(sig, what, dict(kind='opseq', case=dict(case, ops=[o for o in case['ops'] if o[0] in ('grow', 'remove', 'set', 'setnan')])))
        if k % 10 == 0:
            for sig, what in oracle_parent(w):
                ctx.fail(sig, what, dict(kind='opseq', case=dict(case, ops=[o for o in case['ops'] if o[0] in ('grow', 'remove')])))
    # fixed scenario families: exercised on every run whatever the seed
    for sc in FIXED_SCENARIOS:
        case = dict(sc, ops=[list(o) for o in sc['ops']])
        for sig, what in oracle_case(case):
            ctx.fail(sig, what, dict(kind='opseq', case=case))
        ctx.count('fixed_scenarios')
    # the stored witnesses of the known findings are replayed on every run
    for kf in ctx.known:
        if kf.get('replay'):
            for sig, what in oracle_case(kf['replay']['case']):
                ctx.fail(sig, what, kf['replay'])


def shrink_to(case, sig):
    """ greedy removal of operations while a failure with the same signature remains """
    ops = list(case['ops'])
    def still(o):
        try:
            return any(s == sig for s, _ in oracle_case(dict(case, ops=o)))
        except Exception:
            return False
    if not still(ops): return case
    i = 0
    while i < len(ops) - 1 and len(ops) > 1:
        trial = ops[:i] + ops[i + 1:]
        if still(trial): ops = trial
        else: i += 1
    return dict(case, ops=ops)


def replay(ctx, data):
    from harness.framework import sig_match
    case = data.get('case', data)
    fails = oracle_case(case)
    new = [(s, w) for s, w in fails if not any(k['kind'] == 'finding' and sig_match(k['signature'], s) for k in ctx.known)]
    for sig, what in fails[:8]:
        print('  [known finding]' if (sig, what) not in new else '  [violation]', sig, what)
    # a stored witness of a known finding still "fails"; anything else fails only through a non-listed signature
    is_known_witness = any(k.get('replay', {}).get('case') == case for k in ctx.known)
    return bool(new) or (is_known_witness and bool(fails))
