"""
C06 round 5: the distribution bridge (`Dist.preprocess_timepar` / `postprocess_timepar`, `poisson`, `bernoulli.call_par`) - the path by
which per-agent durations, rates and probabilities actually reach a module - exercised over a GRID that is run in full in every check:

  distribution family  x  form of the time-valued parameter  x  class of the time parameter  x  where it is drawn
  constant, normal, lognorm_ex, uniform (one / both bounds), expon, weibull, gamma, randint(allow_time)     [variates are scaled]
  poisson (rate lam), bernoulli (time_prob / beta / rate / rate_prob p)                                     [the parameter is converted]
  forms: python float, python int, numpy int64 scalar, numpy float32 scalar, callable -> int array, callable -> float array
  where: stand-alone `rvs(n)` after `TimePar.init(parent_unit, parent_dt)`;  inside a real sim's module (linked by `Module.init_time`)
         with `rvs(uids)` (array-parameter / ppf / slots path) and `rvs(n)`.

The reference never goes through the time machinery: the SAME distribution object is re-drawn from the same RNG state (`reset=True`) with
the time parameter replaced by its bare value (scaled families) or by the exactly converted parameter (poisson, bernoulli), and the
property's identity is evaluated in exact rationals:   steps x step length = duration,   per-step rate / step length = rate,
per-step probability = 1-(1-p)^(1/f) / 1-exp(-rate/f).  Whatever dtype the bare variates have, no information may be lost.

correspondence: the bare variates (integers stay integers: driver op `idraws`) through the model's `postprocess`, vs the real variates.
"""
import itertools
from fractions import Fraction as Fr
import numpy as np

CANON = ['day', 'week', 'month', 'year']
U = 2.0 ** -53


def F(sig, what):
    return dict(signature=sig, what=what)


# ---------------------------------------------------------------------------
# JSON-able descriptions

def material(val):
    """ ['float', x] | ['int', n] | ['npint', n] | ['f32', x] | ['call_int', base, step] | ['call_float', base, step] -> the Python object """
    form = val[0]
    if form == 'float': return float(val[1])
    if form == 'int': return int(val[1])
    if form == 'npint': return np.int64(val[1])
    if form == 'f32': return np.float32(val[1])
    k = lambda u: 1 if u is None else (u if isinstance(u, (int, np.integer)) else len(u))
    if form == 'call_int':
        b, s, md = int(val[1]), int(val[2]), int(val[3]) if len(val) > 3 else 4
        return lambda m, sim, u: b + s * (np.arange(k(u), dtype=np.int64) % md)
    if form == 'call_float':
        b, s = float(val[1]), float(val[2])
        return lambda m, sim, u: b + s * (np.arange(k(u), dtype=float) % 4)
    raise ValueError(form)


def is_call(val):
    return val[0].startswith('call')


# family -> (constructor keywords in order, which of them may carry the time parameter, extra keywords)
SCALED = {
    'constant': (['v'], {}),
    'normal': (['loc', 'scale'], {}),
    'lognorm_ex': (['mean', 'std'], {}),
    'uniform': (['low', 'high'], {}),
    'expon': (['scale'], {}),
    'weibull': (['scale'], dict(c=1.5)),
    'gamma': (['scale'], dict(a=2.0)),
    'randint': (['low', 'high'], dict(allow_time=True)),
}
PARAM = {'poisson': 'lam', 'bernoulli': 'p'}


def make_dist(ss, spec, seed=None):
    """ the distribution with its time parameter(s) in place """
    pars = {}
    for key, val in spec['pars'].items():
        x = material(val)
        if key in spec['time']:
            x = getattr(ss, spec['kind'])(x, unit=spec['unit'], **({'self_dt': spec['sdt']} if spec.get('sdt') not in (None, 1.0) else {}))
        pars[key] = x
    kw = dict(spec.get('extra') or {})
    if seed is not None: kw.update(strict=False, seed=seed)
    return getattr(ss, spec['dist'])(**pars, **kw)


def factor_of(c06, spec, pu, pdt):
    return c06.exact_ratio(spec['unit'], spec.get('sdt') or 1.0, pu, pdt)


def converted_param(c06, spec, raw, f):
    """ the exactly converted parameter of poisson / bernoulli, as a double (elementwise) """
    kind = spec['kind']
    def one(x):
        if kind == 'rate': return float(c06.fr(x) / f)
        if kind in ('time_prob', 'beta'):
            ref, _ = c06.tp_ref(float(x), f); return float(ref)
        if kind == 'rate_prob':
            return float(1 - (-(c06.D(float(x)) / c06.D(f))).exp())
        raise ValueError(kind)
    if callable(raw):
        return lambda m, sim, u: np.array([one(x) for x in np.asarray(raw(m, sim, u)).tolist()], dtype=float)
    return one(raw)


def redraw(ss, d, spec, arg, c06, pu, pdt):
    """ -> (variates with the time parameter, reference variates of the SAME object / RNG state without it, bracket for bernoulli) """
    w = d.rvs(arg, reset=True)
    f = factor_of(c06, spec, pu, pdt)
    keep = {k: d.pars[k] for k in spec['time']}
    try:
        if spec['dist'] in PARAM:
            key = PARAM[spec['dist']]
            raw = material(spec['pars'][key])
            conv = converted_param(c06, spec, raw, f)
            if spec['dist'] == 'bernoulli' and not callable(conv):
                lo, hi = max(conv * (1 - 1e-9) - 1e-15, 0.0), min(conv * (1 + 1e-9) + 1e-15, 1.0)
                d.pars[key] = lo; p_lo = d.rvs(arg, reset=True)
                d.pars[key] = hi; p_hi = d.rvs(arg, reset=True)
                return w, (p_lo, p_hi), f
            d.pars[key] = conv
            return w, d.rvs(arg, reset=True), f
        for k in spec['time']:
            d.pars[k] = material(spec['pars'][k])
        return w, d.rvs(arg, reset=True), f
    finally:
        for k, v in keep.items(): d.pars[k] = v


def judge(spec, w, p, f, c06, where):
    """ the property's identity on one pair (real variates, bare variates); None if it holds """
    def shown(v):
        return {'float': repr(float(v[1])), 'int': repr(int(v[1])), 'npint': f'np.int64({v[1]})', 'f32': f'np.float32({v[1]})'}.get(v[0]) or \
            f"<callable -> {'int64' if v[0] == 'call_int' else 'float64'} array {v[1]} + {v[2]}*(arange(n) % {v[3] if len(v) > 3 else 4})>"
    name = f"ss.{spec['dist']}(" + ', '.join(k + '=' + (f"ss.{spec['kind']}({shown(v)}, {spec['unit']!r})" if k in spec['time'] else shown(v)) for k, v in spec['pars'].items()) + ')'
    if spec['dist'] == 'bernoulli':
        w = np.asarray(w)
        if isinstance(p, tuple):
            lo, hi = np.asarray(p[0]), np.asarray(p[1])
            bad = (w & ~hi) | (~w & lo)
        else:
            bad = w != np.asarray(p)
            if bad.sum() <= 0: bad = np.zeros(len(w), dtype=bool)
        if bad.any():
            return f"{name} {where}: trials {w.tolist()} differ from the trials of the same generator state with the exactly converted per-step probability ({np.asarray(p[1] if isinstance(p, tuple) else p).tolist()})"
        return None
    if spec['dist'] == 'poisson':
        if np.asarray(w).tolist() != np.asarray(p).tolist():
            return f"{name} {where}: counts {np.asarray(w).tolist()} differ from the counts of the same generator state with lam = rate x step length ({np.asarray(p).tolist()})"
        return None
    w = np.asarray(w); p = np.asarray(p)
    if w.shape != p.shape:
        return f"{name} {where}: shape {w.shape} vs {p.shape} without the time parameter"
    tol = 2.0 ** -21 if (w.dtype == np.float32 or p.dtype == np.float32) else 32 * U
    for got, raw in zip(w.tolist(), p.tolist()):
        q = c06.fr(raw)                        # exact: an integer variate stays an integer
        want = q * f if spec['kind'] == 'dur' else q / f
        if not c06.close(want, c06.fr(got), tol):
            back = c06.fr(got) / f if spec['kind'] == 'dur' else c06.fr(got) * f
            return (f"{name} {where}: per-step variate {got!r} ({w.dtype}); the variate in its own unit is {raw!r} ({p.dtype}) = {float(want)!r} per step; "
                    + ('steps x step length' if spec['kind'] == 'dur' else 'per-step rate / step length') + f" = {float(back)!r} {spec['unit']} != {raw!r}")
    return None


def sig_of(spec, where):
    forms = sorted({spec['pars'][k][0] for k in spec['time']})
    return dict(oracle='dist-bridge', dist=spec['dist'], kind=spec['kind'], form='+'.join(forms), where=where)


# ---------------------------------------------------------------------------
# oracle

def o_dist_bridge(a, c06):
    import starsim as ss
    out = []
    if a['where'] == 'alone':
        spec = a['spec']
        d = make_dist(ss, spec, seed=a['seed'])
        for k in spec['time']:
            d.pars[k].init(parent_unit=a['punit'], parent_dt=a['pdt'], die=False)     # as Module.init_time links it (a callable value cannot be converted yet)
        if not d.initialized: d.init()
        w, p, f = redraw(ss, d, spec, a['n'], c06, a['punit'], a['pdt'])
        why = judge(spec, w, p, f, c06, f"in a parent ({a['punit']!r}, dt={a['pdt']}), rvs({a['n']})")
        return [F(sig_of(spec, 'alone'), why)] if why else []
    # inside a module of a real sim
    specs = a['specs']
    class C06Bridge(ss.Analyzer):
        def __init__(self, **kw):
            super().__init__()
            self.define_pars(**{f'd{i}': make_dist(ss, s) for i, s in enumerate(specs)})
            self.update_pars(None, **kw)
        def step(self): pass
    kw = {}
    if a.get('mu') is not None: kw['unit'] = a['mu']
    if a.get('mdt') is not None: kw['dt'] = a['mdt']
    dur = {'year': 3, 'month': 24, 'week': 60, 'day': 200}[a['su']]
    sim = ss.Sim(n_agents=a.get('n_agents', 12), unit=a['su'], dt=a['sdt'], dur=dur, analyzers=C06Bridge(**kw), verbose=0)
    sim.init()
    mod = sim.analyzers[0]
    pu, pdt = mod.t.unit, mod.t.dt
    if a.get('mu') is not None and (pu, float(pdt)) != (a['mu'], float(a['mdt'] if a.get('mdt') is not None else pdt)):
        return [F(dict(oracle='dist-bridge-module-time'), f"module asked for ({a['mu']}, {a.get('mdt')}) but its timeline is ({pu}, {pdt})")]
    for i, spec in enumerate(specs):
        d = mod.pars[f'd{i}']
        for how in a.get('calls', ['uids', 'n']):
            arg = ss.uids(a['uids']) if how == 'uids' else a['n']
            w, p, f = redraw(ss, d, spec, arg, c06, pu, pdt)
            why = judge(spec, w, p, f, c06, f"in a module ({pu!r}, dt={pdt}) of a sim ({a['su']!r}, dt={a['sdt']}), rvs({'uids ' + str(a['uids']) if how == 'uids' else a['n']})")
            if why:
                out.append(F(sig_of(spec, 'sim-' + how), why)); break
        if out: break
    return out


ORACLES = dict(dist_bridge=o_dist_bridge)


# ---------------------------------------------------------------------------
# the grid

def val_for(rng, dist, key, form, kind):
    """ a value of the given form that is meaningful for this parameter """
    if kind in ('time_prob', 'beta'):
        return {'float': ['float', rng.choice([0.3, 0.05, 0.6, 0.9])], 'int': ['int', rng.choice([0, 1])], 'npint': ['npint', rng.choice([0, 1])],
                'f32': ['f32', 0.25], 'call_int': ['call_int', 0, 1, 2], 'call_float': ['call_float', rng.choice([0.1, 0.2]), 0.15]}[form]
    if kind == 'rate_prob':    # integer ARRAYS of rate_prob are the recorded finding C06-rateprob-int-array-truncated: scalars / float arrays here
        return {'float': ['float', rng.choice([0.3, 1.5, 0.05])], 'int': ['int', rng.choice([1, 2])], 'npint': ['npint', 1], 'f32': ['f32', 0.75],
                'call_int': ['call_float', 1.0, 1.0], 'call_float': ['call_float', 0.2, 0.4]}[form]
    small = dist == 'bernoulli'    # a rate used as a per-step probability must stay below 1 per step for every unit pair
    big = dist == 'randint' or key == 'high'
    i = rng.choice([10, 45, 33, 100]) if big else rng.choice([10, 3, 7, 45])
    x = rng.choice([10.0, 45.5, 33.25]) if big else rng.choice([2.5, 10.0, 0.7, 6.0])
    if small:
        return {'float': ['float', 0.004], 'int': ['int', 0], 'npint': ['npint', 0], 'f32': ['f32', 0.00390625], 'call_int': ['call_int', 0, 0],
                'call_float': ['call_float', 0.001, 0.0005]}[form]
    return {'float': ['float', x], 'int': ['int', i], 'npint': ['npint', i], 'f32': ['f32', float(np.float32(x))],
            'call_int': ['call_int', i, rng.choice([1, 3])], 'call_float': ['call_float', x, rng.choice([0.5, 1.25])]}[form]


OTHER = {'normal': {'loc': ['float', 5.0], 'scale': ['float', 2.0]}, 'lognorm_ex': {'mean': ['float', 6.0], 'std': ['float', 2.0]},
         'uniform': {'low': ['int', 1], 'high': ['float', 60.0]}, 'randint': {'low': ['int', 1], 'high': ['int', 50]}}
FORMS = ['float', 'int', 'npint', 'f32', 'call_int', 'call_float']


def grid(rng, where):
    """ every family x every form of the time-valued parameter (x the classes that make sense), units/dt seeded """
    out = []
    def unit2(): return rng.choice(CANON)
    for dist, (keys, extra) in SCALED.items():
        for form in FORMS:
            if dist == 'randint' and form not in ('int', 'npint'): continue     # randint bounds are integers
            if where == 'alone' and form.startswith('call') and dist in ('randint',): continue
            for kind in ('dur', 'rate'):
                tkeys = [rng.choice(keys)] if len(keys) > 1 and rng.random() < 0.6 else list(keys)
                if dist in ('normal', 'lognorm_ex'): tkeys = [keys[0]] if rng.random() < 0.7 else list(keys)
                if dist == 'randint': tkeys = ['high'] if rng.random() < 0.7 else ['low', 'high']
                pars = dict(OTHER.get(dist, {}))
                for k in keys:
                    if k in tkeys: pars[k] = val_for(rng, dist, k, form, kind)
                    elif k not in pars: pars[k] = ['float', 2.0]
                if dist in ('uniform', 'randint') and 'low' in tkeys and 'high' in tkeys:
                    pars['low'] = ['int', 1] if form in ('int', 'npint', 'call_int') else ['float', 0.5]
                    if form.startswith('call'): pars['low'] = [form, 1, 0] if form == 'call_int' else [form, 0.5, 0.0]
                out.append(dict(dist=dist, pars=pars, time=tkeys, extra=extra, kind=kind, unit=unit2(), sdt=rng.choice([1.0, 1.0, 1.0, 2.0, 0.5])))
    for form in FORMS:
        if not form.startswith('call'):    # documented: Poisson is not compatible with callable parameters + timepars
            out.append(dict(dist='poisson', pars={'lam': val_for(rng, 'poisson', 'lam', form, 'rate')}, time=['lam'], extra={}, kind='rate', unit=unit2(), sdt=1.0))
        for kind in ('time_prob', 'beta', 'rate', 'rate_prob'):
            out.append(dict(dist='bernoulli', pars={'p': val_for(rng, 'bernoulli', 'p', form, kind)}, time=['p'], extra={}, kind=kind, unit=unit2(), sdt=1.0))
    return out


PDT = [1.0, 0.5, 2, 7, 0.1, 0.25, 3]
SIMS = [('year', 1.0), ('year', 0.25), ('day', 1), ('day', 7), ('week', 1), ('month', 1)]
MODS = [(None, None), ('day', 1), ('day', 3), ('week', 1), ('week', 2), ('month', 1), ('year', 1.0), ('year', 0.5)]


def cases(rng, quick=True):
    out = []
    for spec in grid(rng, 'alone'):
        # a unit pair / dt for which the factor is not 1 (and one free draw in the thorough tier)
        pu = rng.choice([u for u in CANON if u != spec['unit']]) if rng.random() < 0.8 else spec['unit']
        out.append(dict(where='alone', spec=spec, punit=pu, pdt=rng.choice(PDT if pu != spec['unit'] else PDT[1:]), seed=rng.randint(1, 10 ** 6), n=rng.choice([3, 5, 8])))
    specs = grid(rng, 'sim')
    rng.shuffle(specs)
    nsim = 6 if quick else 18
    for k in range(nsim):
        su, sdt = SIMS[k % len(SIMS)]
        mu, mdt = rng.choice(MODS[1:]) if k else (None, None)
        mine = specs[k::nsim] if quick else [s for s in grid(rng, 'sim')][k::3]
        out.append(dict(where='sim', su=su, sdt=sdt, mu=mu, mdt=mdt, specs=mine, uids=sorted(rng.sample(range(12), rng.choice([3, 5]))), n=rng.choice([4, 6]), n_agents=12))
    return out


def search(ctx, c06, run_oracle):
    for a in cases(ctx.rng, quick=not ctx.thorough):
        run_oracle(ctx, 'dist_bridge', a)


# ---------------------------------------------------------------------------
# correspondence: the bare variates through the model's `postprocess` (integers stay integers) vs the real variates

def corr_dist_bridge(ctx, c06):
    import starsim as ss
    rng = ctx.rng
    lines = []; per = []
    for spec in grid(rng, 'alone'):
        if spec['dist'] in PARAM: continue
        pu = rng.choice([u for u in CANON if u != spec['unit']]); pdt = rng.choice(PDT)
        a = dict(where='alone', spec=spec, punit=pu, pdt=pdt, seed=rng.randint(1, 10 ** 6), n=rng.choice([3, 5]))
        try:
            d = make_dist(ss, spec, seed=a['seed'])
            for k in spec['time']: d.pars[k].init(parent_unit=pu, parent_dt=pdt, die=False)
            if not d.initialized: d.init()
            tp = d.pars[spec['time'][0]]
            o = c06.observe(tp)
            w, p, f = redraw(ss, d, spec, a['n'], c06, pu, pdt)
        except Exception as e:
            ctx.broke('correspondence', 'C06.dist_bridge', f'{spec} in a parent ({pu}, {pdt}) raised {type(e).__name__}: {e}', data=a); return
        w = np.asarray(w); p = np.asarray(p)
        ints = p.dtype.kind in 'iu'
        o = dict(o, v=Fr(1), values=None)
        per.append((a, w, p, len(lines), ints))
        lines.append(c06.load_line('Q', o))
        lines.append(('Q idraws ' + ','.join(str(int(x)) for x in p.tolist())) if ints else ('Q draws ' + ','.join(c06.tok_num(x) for x in p.tolist())))
    out = c06.drive(ctx, lines)
    for a, w, p, off, ints in per:
        ml = out[off + 1]; spec = a['spec']
        ctx.case(('bridge', lines[off], lines[off + 1]), True, sample=dict(kind='distribution bridge', case=a, model=ml[:200]))
        ctx.count('dist_bridge_' + ('int' if ints else 'float') + '_variates')
        st = c06.parse_state(ml.split('|')[1]) if ml.startswith('ok|') else None
        tol = 2.0 ** -21 if (w.dtype == np.float32 or p.dtype == np.float32) else 32 * U
        if st is None or not c06.cmp_val(st['values'], [c06.fr(x) for x in w.tolist()], tol, 0.0):
            ctx.broke('correspondence', 'C06.dist_bridge', f"ss.{spec['dist']} with {spec['time']} = ss.{spec['kind']}(…, {spec['unit']}) ({'integer' if ints else 'floating'} variates {p.tolist()}) in a parent "
                      f"({a['punit']}, dt={a['pdt']}): variates {w.tolist()} but Model/TimePar.lean `postprocess` gives {ml[:300]}", data=dict(oracle='dist_bridge', args=a))
            return
