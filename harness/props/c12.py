"""
C12 — Infections arise only through admissible transmission events.

correspond(): generated sims (every Infection subclass x static / dynamic / sexual / maternal / mixing-pool routes,
              scalar / per-network / directional / TimePar betas incl. zeros, random relative factors and edge weights
              incl. zeros, births / deaths / pregnancy) run with Infection.infect, Infection.compute_transmission,
              Infection.step, MixingPool.step, bernoulli.ppf and every set_prognoses / set_congenital wrapped.
              For every infect() call the pre-call agent state, the routes, the betamap and the random numbers the
              kernel actually compared are sent to Model/Transmission.lean; its per-call transmissions and its final
              (new_cases, sources, networks) must equal what the code returned.  Same for every (pool, disease) pair of
              MixingPool.step, for Network/SexualNetwork.net_beta on constructed edges, and for validate_beta.
              Near-ties (|p - r| within the float32 rounding of p) are don't-cares, counted.
search():     the property on the real code only: event-level admissibility from the pre/post snapshots, kernel
              output == (p > r) recomputed from its own arguments, beta_per_dt == net_beta formula, effective factors,
              outcomes only inside transmission windows, pool admissibility and probability, monotonicity in beta
              from the same state and seed (deep copy of a paused sim).
"""
import math, json, fractions
LOG_INCOMPLETE = {}   # class -> transmissions not written to the optional infection log (reported in the evidence, not a failure)
import numpy as np
from harness import impl
from harness.props import c12_extra, c12_groups

PROP = 'C12'
GENERATED = ['TransmissionFacts']
DRIVER = 'Drivers/C12.lean'
DRIVER_MODULES = ['StarsimModel.Model.Transmission', 'StarsimModel.Model.Proto']
RULE = ('one case = one Infection.infect() call or one (MixingPool, disease) step or one net_beta / validate_beta evaluation, '
        'taken from generated sims (8 Infection subclasses x random/static/mf/msm/maternal/mixing-pool routes, scalar / dict / '
        'directional / TimePar betas with zeros, random rel_sus / rel_trans / edge weights with zeros, births / deaths / pregnancy); '
        'distinct = distinct canonical input lines; non-trivial = at least one edge transmitted (or one pool case)')
TRUSTED = ['NumPy elementwise float arithmetic and np.unique(return_index=True) (first occurrence, sorted)',
           'the recorder wrappers of harness/props/c12.py (class-level wrapping of infect / compute_transmission / step / set_prognoses)']
ASSUMPTIONS = ['edge endpoints are active agents (C14): sims here avoid ErdosRenyiNet / DiskNet',
               'theorems are over exact rationals; the code compares in float32/float64: decisions with |p-r| <= 2^-20 max(p,r) are not compared',
               'sexual-network net_beta with fractional acts*dt is supplied to the model as computed by the code and checked against the float formula by the oracle; '
               'the model formula (whole acts*dt) is compared on constructed edges']

TOL_EDGE = 2.0 ** -20       # relative: float32 product of the two relative factors
TOL_POOL = 2e-5             # relative: float32 mean over the source group

DISEASES = ['sir', 'sis', 'hiv', 'gonorrhea', 'syphilis', 'cholera', 'ebola', 'measles']
KNOWN_MONOTONE = dict(
    cfg=dict(n_agents=200, rand_seed=3, dt=1.0, npts=4,
             diseases=[dict(type='sis', init_prev=0.2, beta=dict(kind='dict', entries={'random': [0.0, 0.5]}))],
             networks=[dict(type='random', n_contacts=4)], demographics=[], rel=None),
    k=2, variant=dict(kind='zero-to-positive', disease=0, key='random', dir=0, value=0.3))


# ---------------------------------------------------------------------------
# encoding

def enc(x):
    x = float(x)
    if not math.isfinite(x):
        x = 0.0
    n, d = x.as_integer_ratio()
    return str(n) if d == 1 else f'{n}@{d.bit_length() - 1}'


def enc_list(a):
    return ','.join(enc(x) for x in a) if len(a) else '-'


def nat_list(a):
    return ','.join(str(int(x)) for x in a) if len(a) else '-'


def bits(a):
    return ''.join('1' if x else '0' for x in a) or '-'


def frac(x):
    return fractions.Fraction(float(x))


def parse_rat(s):
    return fractions.Fraction(s)


# ---------------------------------------------------------------------------
# configuration

def gen_cfg(rng, family=None):
    family = family or rng.choice(['plain', 'plain', 'sexual', 'maternal', 'pool', 'mixed', 'churn'])
    n_agents = rng.choice([40, 60, 90, 120])
    dt = rng.choice([1.0, 0.5, 0.25, 1 / 12])
    cfg = dict(family=family, n_agents=n_agents, rand_seed=rng.randint(0, 10_000), dt=dt, npts=rng.randint(4, 7))
    nets = []
    if family in ('plain', 'mixed', 'churn'):
        nets.append(dict(type='random', n_contacts=rng.choice([2, 3, 4]), dur=rng.choice([0, 0, 2])))
        q = rng.random()
        if q < 0.45:
            nets.append(dict(type='static', n_contacts=rng.choice([1, 2, 3])))
        elif q < 0.6:
            nets.append(dict(type='hub', hubs=rng.choice([2, 5]), n_agents=n_agents))
        if rng.random() < 0.3:
            nets.append(rng.choice([dict(type='erdosrenyi', p=rng.choice([0.03, 0.06])), dict(type='disk', r=0.15, v=0.1)]))
    if family in ('sexual', 'mixed'):
        nets.append(dict(type=rng.choice(['mf', 'mf', 'msm']), duration=rng.choice([1, 3]), acts=rng.choice([None, None, 0.5, 1.0, 3.0, 12.0])))
        if rng.random() < 0.3: cfg['dt'] = rng.choice([1 / 52, 1 / 365])     # short steps: acts*dt < 1 also at the default 80 acts a year
        if rng.random() < 0.5 and not any(n['type'] == 'random' for n in nets):
            nets.append(dict(type='random', n_contacts=2, dur=0))
    if family == 'maternal':
        nets.append(dict(type='maternal'))
        nets.append(dict(type=rng.choice(['random', 'mf']), n_contacts=3, dur=0, duration=2))
    if family == 'pool':
        grp = ['all', 'male', 'female', 'under30', 'over30', 'uids_lo', 'uids_hi', 'uids_mid']   # callables and explicit uid lists
        # round 6: explicit lists in any order; callables returning the BoolArr itself; groups without members
        grp += ['uids_lo_desc', 'uids_hi_shuf', 'uids_mid_ilv', 'uids_hi_desc', 'b_male', 'b_female', 'b_under30', 'b_over30', 'b_nobody', 'b_infants', 'nobody']
        for lo, hi in ((0, 15), (15, None), (20, 50), (0, 40)):     # ss.AgeGroup objects, every cache setting
            grp.append(dict(age=[lo, hi], do_cache=rng.choice([None, True, False])))
        nets.append(dict(type='pool', src=rng.choice(grp), dst=rng.choice(grp), beta=rng.choice([0.0, 0.2, 0.6, 1.0]),
                         timepar=rng.random() < 0.5, contacts=rng.choice([0.5, 1, 3]), n_agents=n_agents))
        if rng.random() < 0.4:      # the plural container over the same selectors (explicit uids, callables, None, AgeGroups), 2x2 or 2x3
            ks = rng.sample(grp, 2); kd = rng.sample(grp, rng.choice([2, 3]))
            nets.append(dict(type='pools', beta=rng.choice([0.0, 0.3, 0.8]), n_agents=n_agents,
                             src_groups=[[f's{i}', g] for i, g in enumerate(ks)], dst_groups=[[f'd{i}', g] for i, g in enumerate(kd)],
                             contacts=[[rng.choice([0.5, 1.0, 2.0]) for _ in kd] for _ in ks]))
        if rng.random() < 0.6:
            nets.append(dict(type=rng.choice(['random', 'static']), n_contacts=2, dur=0))
    rng.shuffle(nets)
    cfg['networks'] = nets
    dem = []
    if family == 'maternal':
        dem.append(dict(type='pregnancy', fertility_rate=rng.choice([80, 200]), burnin=True))
        if rng.random() < 0.5: dem.append(dict(type='deaths', death_rate=rng.choice([10, 40])))
    elif family == 'pool' and any(str(g).startswith('uids_') for n in nets for g in [n.get('src', ''), n.get('dst', '')] + [x[1] for x in n.get('src_groups', []) + n.get('dst_groups', [])]) and rng.random() < 0.8:
        dem = [dict(type='deaths', death_rate=rng.choice([40, 80, 150]))]   # fixed uid groups must shed their dead
    elif family == 'pool' and any(c12_groups.is_age(n.get('src')) or c12_groups.is_age(n.get('dst')) for n in nets) and rng.random() < 0.8:
        dem = [dict(type='births', birth_rate=rng.choice([30, 60])), dict(type='deaths', death_rate=rng.choice([20, 50]))]   # band membership must move
        cfg['dt'] = rng.choice([1.0, 2.0, 5.0])
    elif family == 'churn' or (family in ('pool', 'sexual', 'mixed') and rng.random() < 0.4):
        dem = rng.choice([[dict(type='deaths', death_rate=rng.choice([20, 60]))],
                          [dict(type='births', birth_rate=rng.choice([30, 80])), dict(type='deaths', death_rate=rng.choice([20, 60]))],
                          [dict(type='births', birth_rate=rng.choice([30, 80]))]])
    cfg['demographics'] = dem
    keys = [net_key(n) for n in nets]
    ds = []
    names = rng.sample(DISEASES, rng.choice([1, 1, 2])) if rng.random() < 0.55 else rng.sample(['sir', 'sis'], rng.choice([1, 2]))
    for nm in names:
        ds.append(dict(type=nm, init_prev=rng.choice([0.1, 0.25, 0.5]), beta=gen_beta(rng, keys)))
    cfg['diseases'] = ds
    cfg['rel'] = None if rng.random() < 0.25 else dict(seed=rng.randint(0, 10**6), p_zero=rng.choice([0.0, 0.15, 0.4]),
                                                        edge_beta=rng.random() < 0.6)
    if rng.random() < 0.3:      # the user changes transmissibilities during the run (public handles; 0 is a value like any other)
        sched = []
        for _ in range(rng.choice([1, 2, 3])):
            e = dict(ti=rng.randint(0, cfg['npts'] - 1), op=rng.choice(['imul', 'imul', 'set', 'update', 'mul', 'idiv']))
            e['x'] = rng.choice([1.0, 2.0, 4.0]) if e['op'] == 'idiv' else rng.choice([0.0, 0.0, 0.5, 1.0]) if e['op'] in ('imul', 'mul') else rng.choice([0.0, 0.0, 0.3, 1.0])
            pool_routes = [i for i, n in enumerate(nets) if n['type'] in ('pool', 'pools')]
            if pool_routes and rng.random() < 0.4:
                e['route'] = rng.choice(pool_routes)
                if e['op'] in ('mul', 'update'): e['op'] = 'imul' if e['x'] <= 1 else 'set'     # in place: sub-pools of the container share the object
                if e['op'] == 'imul' and e['x'] > 1: e['x'] = 0.5
            else:
                e['disease'] = rng.randrange(len(ds))
            sched.append(e)
        cfg['beta_sched'] = sorted(sched, key=lambda e: e['ti'])
    return cfg


def net_key(n):
    return dict(random='random', static='static', mf='mf', msm='msm', maternal='maternal', pool='mixingpool', pools='mixingpools',
                prenatal='prenatal', postnatal='postnatal', erdosrenyi='erdosrenyi', disk='disk', hub='static')[n['type']]


def gen_beta(rng, keys):
    vals = [0.0, 0.02, 0.1, 0.3, 0.7, 1.0]
    def one():
        v = rng.choice(vals)
        return dict(v=v, tp=(v > 0 and rng.random() < 0.3))
    r = rng.random()
    if r < 0.3:
        return dict(kind='scalar', **one())
    entries = {}
    keys = list(keys)
    rng.shuffle(keys)   # the user's dict order is independent of the order of sim.networks
    for k in keys:
        q = rng.random()
        if rng.random() < 0.3:    # any spelling that standardises to the network key is accepted
            k = rng.choice([k + 'net', k.upper(), k.capitalize() + 'Net'])
        if q < 0.25:
            entries[k] = one()
        else:
            a, b = one(), one()
            if q < 0.5: a = dict(v=0.0, tp=False)
            elif q < 0.65: b = dict(v=0.0, tp=False)
            entries[k] = [a, b]
    return dict(kind='dict', entries=entries)


def mk_beta(spec):
    import starsim as ss
    def one(o):
        if isinstance(o, (int, float)): return float(o)
        return ss.beta(o['v']) if o.get('tp') else float(o['v'])
    if spec['kind'] == 'scalar':
        return one(spec)
    out = {}
    for k, v in spec['entries'].items():
        out[k] = [one(x) for x in v] if isinstance(v, list) else one(v)
    return out


GROUPS = dict(
    all=None,
    male=lambda sim: sim.people.male.uids,
    female=lambda sim: sim.people.female.uids,
    under30=lambda sim: (sim.people.age < 30).uids,
    over30=lambda sim: (sim.people.age >= 30).uids,
    # round 6: the documented style — the callable returns the BoolArr itself; groups that have no member at all / run empty
    b_male=lambda sim: sim.people.male,
    b_female=lambda sim: sim.people.female,
    b_under30=lambda sim: sim.people.age < 30,
    b_over30=lambda sim: sim.people.age >= 30,
    b_nobody=lambda sim: sim.people.age >= 500,
    b_infants=lambda sim: sim.people.age < 1,
    nobody=lambda sim: (sim.people.age >= 500).uids,
)


def as_uid_array(g):
    """ the members of a resolved group (MixingPool.src_uids / dst_uids) as an int array: a BoolArr denotes its true entries """
    import starsim as ss
    if isinstance(g, (ss.BoolArr, ss.IndexArr)):
        g = g.uids
    return np.array(g).astype(int)


def pool_group(name, n_agents, shared=None):
    """ a group given as a callable (re-evaluated each step), an ss.AgeGroup object, or an explicit uid list fixed at construction """
    import starsim as ss
    if c12_groups.is_age(name):
        return c12_groups.mk_group(name, n_agents, shared if shared is not None else {}, None)
    if name.startswith('uids_'):
        return ss.uids(c12_groups.declared_uids(name, n_agents))     # in the order the user lists them (round 6)
    return GROUPS[name]


def mk_network(n):
    import starsim as ss
    t = n['type']
    if t == 'pool':
        beta = ss.beta(n['beta']) if n.get('timepar') and n['beta'] <= 1 else n['beta']
        kw = dict(diseases=n['diseases']) if n.get('diseases') else {}
        shared = {}
        if n.get('name'): kw['name'] = n['name']     # several pools in one sim need distinct names
        return ss.MixingPool(src=pool_group(n['src'], n.get('n_agents'), shared), dst=pool_group(n['dst'], n.get('n_agents'), shared), beta=beta,
                             contacts=ss.poisson(lam=n['contacts']), **kw)
    if t == 'pools':     # MixingPools (plural): a rectangular array of pools between two age groups
        return c12_groups.mk_pools(n, pool_group)
    if t == 'prenatal': return ss.PrenatalNet()
    if t == 'postnatal': return ss.PostnatalNet()
    if t == 'hub':       # static bipartite graph: few low-uid hubs joined to everybody else (edges come out sorted by p1)
        import networkx as nx
        return ss.StaticNet(graph=nx.complete_bipartite_graph(n['hubs'], n['n_agents'] - n['hubs']))
    if t in ('mf', 'msm', 'embedding') and (n.get('dt') or n.get('acts') is not None):
        # acts = mean number of acts per YEAR of a partnership (Poisson): low values give edges with acts == 0 and acts*dt < 1
        kw = dict(duration=ss.lognorm_ex(mean=n.get('duration', 5), std=1.0))
        if n.get('dt'): kw['dt'] = n['dt']
        if n.get('acts') is not None: kw['acts'] = ss.poisson(lam=n['acts'])
        return dict(mf=ss.MFNet, msm=ss.MSMNet, embedding=ss.EmbeddingNet)[t](**kw)
    return impl._network(n, 0)


def mk_disease(d):
    import starsim as ss
    cls = dict(sir=ss.SIR, sis=ss.SIS, hiv=ss.HIV, gonorrhea=ss.Gonorrhea, syphilis=ss.Syphilis, cholera=ss.Cholera,
               ebola=ss.Ebola, measles=ss.Measles)[d['type']]
    kw = {}
    if d.get('log'): kw['log'] = True
    if d.get('dt'): kw['dt'] = d['dt']
    return cls(beta=mk_beta(d['beta']), init_prev=ss.bernoulli(d['init_prev']), **kw)


def make_rel_intervention(rel):
    import starsim as ss

    class RelFactors(ss.Intervention):
        """ Random relative susceptibility / transmissibility (with exact zeros) and edge weights, re-drawn every step """
        def __init__(self, seed=0, p_zero=0.2, edge_beta=True, suppress=None, **kw):
            super().__init__(**kw)
            self.rs = np.random.RandomState(seed)
            self.p_zero = p_zero; self.edge_beta = edge_beta; self.suppress = suppress

        def draw(self, n):
            v = self.rs.choice([0.5, 1.0, 1.0, 1.7, 2.5], size=n) * np.where(self.rs.random(n) < 0.3, self.rs.random(n), 1.0)
            v[self.rs.random(n) < self.p_zero] = 0.0
            return v

        def start_step(self):
            super().start_step()
            if self.suppress == 'infectious':   # before the routes step: agents infected last step are suppressed too
                for d in self.sim.diseases.values():
                    if isinstance(d, ss.Infection):
                        d.rel_trans[d.infectious.uids] = 0.0

        def step(self):
            sim = self.sim
            au = sim.people.auids
            for d in sim.diseases.values():
                if isinstance(d, ss.Infection):
                    d.rel_sus[au] = self.draw(len(au))
                    d.rel_trans[au] = self.draw(len(au))
                    if self.suppress == 'infectious':     # everybody able to transmit is fully suppressed
                        d.rel_trans[d.infectious.uids] = 0.0
            if self.edge_beta:
                for net in sim.networks.values():
                    if isinstance(net, ss.Network) and len(net):
                        net.edges.beta[:] = self.draw(len(net.edges.beta))
    return RelFactors(seed=rel['seed'], p_zero=rel['p_zero'], edge_beta=rel['edge_beta'], suppress=rel.get('suppress'))


def build(cfg):
    import starsim as ss
    pars = dict(n_agents=cfg['n_agents'], rand_seed=cfg['rand_seed'], dt=cfg['dt'], start=2000, dur=cfg['dt'] * cfg['npts'],
                verbose=0)
    pars['diseases'] = [mk_disease(d) for d in cfg['diseases']]
    pars['networks'] = [mk_network(n) for n in cfg['networks']]
    dem = [impl._demog(d) for d in cfg.get('demographics', [])]
    if dem: pars['demographics'] = dem
    intvs = []
    if cfg.get('rel'):
        intvs.append(make_rel_intervention(cfg['rel']))
    if cfg.get('beta_sched'):
        intvs.append(make_beta_sched(cfg['beta_sched']))
    if intvs: pars['interventions'] = intvs
    return ss.Sim(**pars)


# ---------------------------------------------------------------------------
# the beta the configuration DENOTES (round 5): what the user wrote, and what the user did to it during the run

def base_value(x):
    """ the value a beta was given as: `v` of a time parameter, the number itself otherwise """
    import starsim as ss
    if isinstance(x, ss.TimePar):
        return float(np.asarray(x.v, dtype=np.float64).ravel()[0])
    return float(x)


def configured_betas(cfg):
    """ disease name -> function (standardised network key, direction) -> the base value the configuration gives that
        direction of that route (None = not derivable).  Handles the C12 format (kind scalar / dict) and the zoo format. """
    import starsim as ss
    def num(o):
        if isinstance(o, dict): o = o.get('v')
        return float(o) if isinstance(o, (int, float)) and not isinstance(o, bool) else None
    out = {}
    for d in cfg.get('diseases', []):
        if not isinstance(d, dict) or 'type' not in d: continue
        name = d.get('name', d['type'])
        b = d.get('beta')
        if isinstance(b, dict) and b.get('kind') == 'scalar':
            v = num(b); out[name] = (lambda k, dd, v=v: v)
        elif isinstance(b, dict):
            ents = b['entries'] if b.get('kind') == 'dict' else b
            tab = {}
            for k, e in ents.items():
                tab[ss.standardize_netkey(k)] = [num(x) for x in e] if isinstance(e, (list, tuple)) else [num(e), num(e)]
            out[name] = (lambda k, dd, tab=tab: (tab.get(k) or [None, None])[dd])
        elif isinstance(b, (int, float)) and not isinstance(b, bool):
            out[name] = (lambda k, dd, v=float(b): v)
    return out


def make_beta_sched(sched):
    """ the user changes a transmissibility DURING the run through the public handles: `pars.beta *= f`, `/= g`,
        `pars.beta.set(v)`, `pars.update(beta=v)`, `pars.beta = pars.beta * f` (f, v may be exactly 0).  The object keeps
        what each beta has been made to be (`scale` per disease / per pool route: the same float operations on the base
        value), so the oracle can say which beta is IN FORCE at every later transmission step. """
    import starsim as ss

    class BetaSched(ss.Intervention):
        def __init__(self, sched=None, **kw):
            super().__init__(**kw)
            self.sched = [dict(e) for e in (sched or [])]
            self.ops = {}        # ('disease', name) / ('route', index) -> list of applied ops (op, x), in order
            self.applied = []

        @staticmethod
        def apply_value(v, op, x):
            if op in ('imul', 'mul'): return v * x
            if op == 'idiv': return v / x
            return float(x)      # set / update

        def change(self, holder, key, op, x):
            """ holder[key] is a number, a TimePar, a list of those or a dict of those """
            cur = holder[key]
            if isinstance(cur, dict):
                for k in list(cur.keys()): self.change(cur, k, op, x)
                return
            if isinstance(cur, (list, tuple)):
                cur = list(cur)
                for j in range(len(cur)): self.change(cur, j, op, x)
                holder[key] = cur
                return
            if isinstance(cur, ss.TimePar):
                if op == 'imul': cur *= x; holder[key] = cur
                elif op == 'idiv': cur /= x; holder[key] = cur
                elif op == 'mul': holder[key] = cur * x
                elif op == 'set': cur.set(x)
                elif op == 'update' and isinstance(holder, ss.Pars): holder.update({key: x})
                else: cur.set(x)
            else:
                holder[key] = self.apply_value(float(cur), op, x)

        def step(self):
            sim = self.sim
            for e in self.sched:
                if int(e['ti']) != int(sim.ti): continue
                if e.get('route') is not None:
                    route = list(sim.networks.values())[e['route']]
                    self.change(route.pars, 'beta', e['op'], e['x'])
                    self.ops.setdefault(('route', int(e['route'])), []).append((e['op'], e['x']))
                else:
                    d = list(sim.diseases.values())[e['disease']]
                    self.change(d.pars, 'beta', e['op'], e['x'])
                    self.ops.setdefault(('disease', d.name), []).append((e['op'], e['x']))
                self.applied.append(dict(e))

        def in_force(self, target, v):
            for op, x in self.ops.get(target, []):
                v = self.apply_value(v, op, x)
            return v
    return BetaSched(sched=sched)


def find_sched(sim):
    for iv in sim.interventions.values():
        if type(iv).__name__ == 'BetaSched':
            return iv
    return None


# ---------------------------------------------------------------------------
# recorder

class Recorder:
    def __init__(self):
        self.running = False
        self.infects = []; self.pools = []; self.stray = []
        self.cur = None; self.curpool = None; self.pool_obj = None; self.in_step = None
        self.pdepth = 0
        self.undo = []
        self.specs = {}       # id(MixingPool) -> (src spec, dst spec, n_agents) from the configuration
        self.pool_beta = {}   # id(MixingPool) -> (configured beta, index of its route in sim.networks)
        self.agcalls = []     # every AgeGroup.__call__ in order
        self.agslots = {}; self.agobjs = []

    def agslot(self, g):
        if id(g) not in self.agslots:
            self.agslots[id(g)] = len(self.agobjs); self.agobjs.append(g)
        return self.agslots[id(g)]

    def people(self, sim):
        ppl = sim.people
        au = np.asarray(ppl.auids).astype(int)
        n = int(ppl.uid.len_used)
        return dict(au=au, n=n, age=self.scatter(ppl.age, au, n, np.float64), female=self.scatter(ppl.female, au, n, bool))

    # -- helpers
    @staticmethod
    def scatter(arr, au, n, dtype):
        out = np.zeros(n, dtype=dtype)
        vals = np.asarray(arr.values if hasattr(arr, 'values') else arr)
        out[au] = vals
        return out

    def snap(self, d):
        ppl = d.sim.people
        au = np.asarray(ppl.auids).astype(int)
        n = int(ppl.uid.len_used)     # every uid ever created (inactive agents read as not susceptible / not infectious)
        return dict(au=au, n=n,
                    sus=self.scatter(d.susceptible, au, n, bool), inf=self.scatter(d.infectious, au, n, bool),
                    rs=self.scatter(d.rel_sus, au, n, np.float64), rt=self.scatter(d.rel_trans, au, n, np.float64))

    def install(self):
        import starsim as ss
        R = self

        def patch(obj, name, new):
            old = obj.__dict__[name]
            R.undo.append((obj, name, old))
            setattr(obj, name, new)

        orig_infect = ss.Infection.infect
        def w_infect(d):
            if not R.running:
                return orig_infect(d)
            rec = R.snap(d)
            sim = d.sim
            rec.update(disease=d.name, cls=type(d).__name__, ti=int(d.ti), calls=[], prog=[], routes=[], timepars=[], module_dt=float(d.t.dt))
            betamap = d.validate_beta()
            for bb in betamap.values():
                for x in bb:
                    if isinstance(x, ss.TimePar):
                        tp = dict(v=float(x.v), values=beta_float(x), parent_dt=float(x.parent_dt), unit=str(x.unit), parent_unit=str(x.parent_unit),
                                  module_unit=str(d.t.unit), factor=float(x.factor))
                        try:     # the factor for the timeline the disease actually steps on (unit conversion itself is C06's, taken from starsim)
                            tp['want_factor'] = float(ss.time.time_ratio(unit1=x.unit, dt1=x.self_dt, unit2=d.t.unit, dt2=d.t.dt))
                        except Exception:
                            tp['want_factor'] = None
                        rec['timepars'].append(tp)
            for i, (k, net) in enumerate(sim.networks.items()):
                b = betamap[ss.standardize_netkey(k)]
                bf = [beta_float(b[0]), beta_float(b[1])]
                r = dict(key=k, isnet=isinstance(net, ss.Network), b=bf, truthy=[bool(b[0]), bool(b[1])], std=ss.standardize_netkey(k),
                         base=[base_value(b[0]), base_value(b[1])],
                         factor=[float(x.factor) if isinstance(x, ss.TimePar) else None for x in (b[0], b[1])])
                if r['isnet']:
                    e = net.edges
                    r.update(kind='sexual' if isinstance(net, ss.SexualNetwork) else 'plain', p1=np.array(e.p1).astype(int),
                             p2=np.array(e.p2).astype(int), beta=np.array(e.beta, dtype=np.float64),
                             acts=np.array(e.acts, dtype=np.float64) if 'acts' in e else None, dt=float(net.t.dt), n=len(net))
                rec['routes'].append(r)
            sched = find_sched(sim)
            rec['sched_ops'] = list(sched.ops.get(('disease', d.name), [])) if sched is not None else []
            R.cur = rec
            try:
                out = orig_infect(d)
            finally:
                R.cur = None
            rec['out'] = [np.array(out[0]).astype(int), np.array(out[1]).astype(int), np.array(out[2]).astype(int)]
            R.infects.append(rec)
            return out

        orig_kernel = ss.Infection.__dict__['compute_transmission'].__func__
        def w_kernel(src, trg, rel_trans, rel_sus, beta_per_dt, randvals):
            out = orig_kernel(src, trg, rel_trans, rel_sus, beta_per_dt, randvals)
            if R.cur is not None:
                n = R.cur['n']
                R.cur['calls'].append(dict(
                    src=np.array(src).astype(int), trg=np.array(trg).astype(int),
                    rt=np.array(rel_trans.raw[:n]), rs=np.array(rel_sus.raw[:n]),
                    b=np.broadcast_to(np.asarray(beta_per_dt, dtype=np.float64), (len(src),)).copy(),
                    r=np.array(randvals, dtype=np.float64), t_out=np.array(out[0]).astype(int), s_out=np.array(out[1]).astype(int)))
            return out

        orig_step = ss.Infection.step
        def w_step(d):
            if not R.running:
                return orig_step(d)
            R.in_step = d
            k0 = len(R.infects)
            log0 = set(d.log.edges(keys=True)) if d.pars.get('log') else None
            try:
                out = orig_step(d)
            finally:
                R.in_step = None
            for rec in R.infects[k0:]:
                if rec['disease'] == d.name:
                    if log0 is not None:
                        rec['log_new'] = [(s_, t_, float(k_)) for s_, t_, k_ in set(d.log.edges(keys=True)) - log0]
                        rec['now'] = float(d.now)
                    au = np.asarray(d.sim.people.auids).astype(int)
                    n = max(rec['n'], int(au.max()) + 1 if len(au) else 0)
                    rec['sus_post'] = R.scatter(d.susceptible, au, n, bool)
                    rec['age'] = R.scatter(d.sim.people.age, au, n, np.float64)
                    rec['returned'] = [np.array(out[0]).astype(int), np.array(out[1]).astype(int)]
            return out

        orig_pool = ss.MixingPool.step
        def w_pool(mp):
            if not R.running:
                return orig_pool(mp)
            beta = mp.pars.beta
            bf = beta_float(beta)
            rec = dict(pool=mp.name, ti=int(mp.ti), beta=bf, ppf=[], prog=[], diseases=[d.name for d in mp.diseases],
                       pre={d.name: R.snap(d) for d in mp.diseases})
            au = np.asarray(mp.sim.people.auids).astype(int)
            n = int(mp.sim.people.uid.len_used)
            rec['contacts'] = R.scatter(mp.eff_contacts, au, n, np.float64)
            rec['people'] = R.people(mp.sim)
            rec['sti'] = int(mp.sim.ti)
            rec['spec'] = R.specs.get(id(mp))
            rec['beta_base'] = base_value(beta)
            rec['beta_factor'] = float(beta.factor) if isinstance(beta, ss.TimePar) else None
            rec['beta_cfg'] = R.pool_beta.get(id(mp))       # (configured base value, route index)
            sched = find_sched(mp.sim)
            rec['sched_ops'] = list(sched.ops.get(('route', rec['beta_cfg'][1]), [])) if sched is not None and rec['beta_cfg'] else []
            rec['agcalls'] = []
            rec['grp_slot'] = [R.agslot(g) if isinstance(g, ss.AgeGroup) else None for g in (mp.pars.src, mp.pars.dst)]
            R.curpool = rec; R.pool_obj = mp
            logs0 = {d.name: set(d.log.edges(keys=True)) for d in mp.diseases if d.pars.get('log')}
            try:
                out = orig_pool(mp)
            finally:
                R.curpool = None; R.pool_obj = None
            rec['log_new'] = {d.name: [(s_, t_, float(k_)) for s_, t_, k_ in set(d.log.edges(keys=True)) - logs0[d.name]] for d in mp.diseases if d.name in logs0}
            rec['now'] = {d.name: float(d.now) for d in mp.diseases}
            rec['src'] = as_uid_array(mp.src_uids); rec['dst'] = as_uid_array(mp.dst_uids)
            rec['ret'] = int(out) if out is not None else None
            R.pools.append(rec)
            return out

        orig_ppf = ss.bernoulli.ppf
        def w_ppf(dist, rands):
            out = orig_ppf(dist, rands)
            if R.curpool is not None and R.pool_obj is not None and dist is R.pool_obj.p_acquire:
                R.curpool['ppf'].append(dict(r=np.array(rands, dtype=np.float64), p=np.array(dist._pars.p, dtype=np.float64),
                                             acc=np.array(out).astype(bool)))
            return out

        orig_ag = ss.AgeGroup.__call__
        def w_ag(g, sim):
            out = orig_ag(g, sim)
            if R.running:
                ppl = sim.people
                e = dict(slot=R.agslot(g), ti=int(sim.ti), au=np.asarray(ppl.auids).astype(int),
                         age=np.asarray(ppl.age[ppl.auids], dtype=np.float64), out=np.asarray(out).astype(int))
                R.agcalls.append(e)
                if R.curpool is not None:
                    R.curpool['agcalls'].append(e)
            return out
        patch(ss.AgeGroup, '__call__', w_ag)

        patch(ss.Infection, 'infect', w_infect)
        patch(ss.Infection, 'compute_transmission', staticmethod(w_kernel))
        patch(ss.Infection, 'step', w_step)
        patch(ss.MixingPool, 'step', w_pool)
        patch(ss.bernoulli, 'ppf', w_ppf)

        def all_sub(c):
            out = [c]
            for s in c.__subclasses__():
                out += all_sub(s)
            return out
        for cls in dict.fromkeys(all_sub(ss.Disease)):
            for meth in ('set_prognoses', 'set_congenital'):
                if meth in cls.__dict__:
                    def mk(orig, meth):
                        def w(d, uids, *a, **k):
                            top = R.pdepth == 0
                            R.pdepth += 1
                            try:
                                return orig(d, uids, *a, **k)
                            finally:
                                R.pdepth -= 1
                                if top and R.running and isinstance(d, ss.Infection):   # NCD-type diseases are acquired, not transmitted: outside C12
                                    e = dict(disease=d.name, ti=int(d.ti), kind=meth, uids=np.array(uids).astype(int))
                                    if R.in_step is d and R.infects and R.infects[-1]['disease'] == d.name and R.infects[-1]['ti'] == int(d.ti):
                                        R.infects[-1]['prog'].append(e)
                                    elif R.curpool is not None:
                                        R.curpool['prog'].append(e)
                                    else:
                                        R.stray.append(e)
                        return w
                    patch(cls, meth, mk(cls.__dict__[meth], meth))

    def uninstall(self):
        for obj, name, old in reversed(self.undo):
            setattr(obj, name, old)
        self.undo = []


def beta_float(b):
    import starsim as ss
    if isinstance(b, ss.TimePar):
        return float(np.asarray(b.values, dtype=np.float64).ravel()[0])
    return float(b)


def run_recorded(cfg):
    R = Recorder()
    R.install()
    try:
        np.random.seed(cfg['rand_seed'])
        sim = build(cfg)
        sim.init()
        for ri, (n, route) in enumerate(zip(cfg['networks'], sim.networks.values())):
            for mp, ssrc, sdst, na in c12_groups.route_specs(n, route):
                R.specs[id(mp)] = (ssrc, sdst, na)
                if isinstance(n.get('beta'), (int, float)): R.pool_beta[id(mp)] = (float(n['beta']), ri)
                for spec, g in ((ssrc, mp.pars.src), (sdst, mp.pars.dst)):
                    if c12_groups.is_age(spec):
                        R.agspecs = getattr(R, 'agspecs', {})
                        R.agspecs[R.agslot(g)] = spec
        R.sim = sim
        R.running = True
        for _ in range(cfg['npts']):
            sim.run_one_step()
    finally:
        R.running = False
        R.uninstall()
    return R


# ---------------------------------------------------------------------------
# the shared scenario zoo (harness/zoo.py, harness/impl.py configuration format)

def zoo_build(cfg):
    return impl.build_sim(cfg)


def run_recorded_zoo(cfg):
    """ one zoo entry (impl format) run to its end under the recorder; age-bracket pools get their group specifications """
    R = Recorder()
    R.install()
    try:
        np.random.seed(cfg.get('rand_seed', 1))
        sim = zoo_build(cfg)
        sim.init()
        for ri, (n, route) in enumerate(zip(cfg.get('networks', []), sim.networks.values())):
            if n.get('type') == 'agepools':      # impl._network: MixingPools over young = [0, cut), old = [cut, inf), default cache
                for mp, ssrc, sdst, na in c12_groups.route_specs(dict(type='pools', split=n.get('cut', 15)), route):
                    R.specs[id(mp)] = (ssrc, sdst, na)
                    R.pool_beta[id(mp)] = (float(n.get('beta', 0.2)), ri)
                    for spec, g in ((ssrc, mp.pars.src), (sdst, mp.pars.dst)):
                        R.agspecs = getattr(R, 'agspecs', {})
                        R.agspecs[R.agslot(g)] = spec
        R.sim = sim
        R.running = True
        for _ in range(int(sim.t.npts)):
            sim.run_one_step()
    finally:
        R.running = False
        R.uninstall()
    return R


def zoo_has_transmission(cfg):
    """ the C12 oracles look at transmission events: an entry needs at least one disease (the NCD-only entry has a disease
        but no Infection: it still runs, the recorder then sees no infect() call and only the `outside-event` part applies) """
    return bool(cfg.get('diseases'))


def zoo_monotone_variant(cfg, i, seed):
    """ one monotonicity check per entry: all betas scaled (same zero pattern), forked at a step inside the run """
    return dict(kind='scale', factor=[1.5, 3.0, 10.0][(i + seed) % 3])


# ---------------------------------------------------------------------------
# expected kernel-call structure of one infect() record

def expected_calls(rec):
    out = []
    for i, r in enumerate(rec['routes']):
        if r['isnet'] and r['n'] > 0:
            for d in (0, 1):
                if r['truthy'][d]:
                    out.append((i, d))
    return out


def attach_calls(rec):
    """ Map recorded kernel calls to (route, direction); returns error string or None """
    exp = expected_calls(rec)
    if len(exp) != len(rec['calls']):
        return f"{len(rec['calls'])} kernel calls, expected {len(exp)} from the routes and betamap"
    for (i, d), c in zip(exp, rec['calls']):
        r = rec['routes'][i]
        s, t = (r['p1'], r['p2']) if d == 0 else (r['p2'], r['p1'])
        c['route'] = i; c['dir'] = d
        c['as_modelled'] = bool(np.array_equal(c['src'], s) and np.array_equal(c['trg'], t))
    return None


def near_ties(c, tol=TOL_EDGE):
    p = c['rt'][c['src']].astype(np.float64) * c['rs'][c['trg']].astype(np.float64) * c['b']
    return np.abs(p - c['r']) <= tol * np.maximum(np.abs(p), np.abs(c['r']))


# ---------------------------------------------------------------------------
# correspondence

def infect_lines(rec):
    lines = [f"state {bits(rec['sus'])} {bits(rec['inf'])} {enc_list(rec['rs'])} {enc_list(rec['rt'])}", 'clearnets']
    by = {(c.get('route'), c.get('dir')): c for c in rec['calls']}
    for i, r in enumerate(rec['routes']):
        if not r['isnet']:
            lines.append(f"net 0 plain {enc(r['b'][0])} {enc(r['b'][1])} - - - - - - - -")
            continue
        c0, c1 = by.get((i, 0)), by.get((i, 1))
        r0 = enc_list(c0['r']) if c0 else '-'
        r1 = enc_list(c1['r']) if c1 else '-'
        if r['kind'] == 'plain':
            lines.append(f"net 1 plain {enc(r['b'][0])} {enc(r['b'][1])} {nat_list(r['p1'])} {nat_list(r['p2'])} {enc_list(r['beta'])} - {r0} {r1} - -")
        else:
            nb0 = enc_list(c0['b']) if c0 else '-'
            nb1 = enc_list(c1['b']) if c1 else '-'
            lines.append(f"net 1 raw {enc(r['b'][0])} {enc(r['b'][1])} {nat_list(r['p1'])} {nat_list(r['p2'])} {enc_list(r['beta'])} - {r0} {r1} {nb0} {nb1}")
    lines += ['calls', 'infect']
    lines.append(f"outcomes {enc_list(rec['age'])}" if 'age' in rec else 'outcomes -')
    # sexual networks: the code's beta_per_dt of every executed call against the model's double-precision net_beta
    rec['nbf'] = []
    for c in rec['calls']:
        r = rec['routes'][c['route']] if 'route' in c else None
        if r is not None and r['isnet'] and r['kind'] == 'sexual' and len(c['b']):
            lines.append(f"netbetaf {enc(r['b'][c['dir']])} {enc(r['dt'])} {enc_list(r['beta'])} {enc_list(r['acts'])}")
            rec['nbf'].append(c)
    return lines


def parse_kv(line):
    out = {}
    for p in line.split():
        k, v = p.split('=', 1)
        out[k] = [] if v == '-' else v.split(',')
    return out


def compare_infect(ctx, cfg, rec, out):
    """ out: model output lines for infect_lines(rec). Returns a divergence dict or None """
    nroutes = len(rec['routes'])
    if any(o == 'bad-op' for o in out):
        return dict(why='model rejected an input line', lines=[o for o in out][:5])
    calls_line, infect_line = out[2 + nroutes], out[3 + nroutes]
    model_calls = {}
    if calls_line != '-':
        for item in calls_line.split():
            i, d, ts, ss_ = item.split(':')
            model_calls[(int(i), int(d))] = ([] if ts == '-' else [int(x) for x in ts.split(',')],
                                             [] if ss_ == '-' else [int(x) for x in ss_.split(',')])
    code_calls = {(c['route'], c['dir']): c for c in rec['calls']}
    if set(model_calls) != set(code_calls):
        return dict(why=f'kernel calls executed by the code {sorted(code_calls)} differ from the model {sorted(model_calls)}')
    dontcare = False
    for key, c in code_calls.items():
        if not c['as_modelled']:
            return dict(why=f'kernel call {key}: src/trg arrays are not the edge endpoints the model uses for that direction')
        mt, ms = model_calls[key]
        if mt != list(c['t_out']) or ms != list(c['s_out']):
            nt = near_ties(c)
            if nt.any():
                dontcare = True
                ctx.count('dont_care_near_tie_calls')
                continue
            # locate the first differing edge for the report
            return dict(why=f'kernel call route={key[0]} dir={key[1]}: model transmits to {mt[:12]} (sources {ms[:12]}), code returned {list(c["t_out"])[:12]} (sources {list(c["s_out"])[:12]})',
                        route=rec['routes'][key[0]]['key'])
    if dontcare:
        rec['dontcare'] = True
        return None
    m = parse_kv(infect_line)
    mt = [int(x) for x in m['T']]; ms = [int(x) for x in m['S']]; mn = [int(x) for x in m['N']]
    ct, cs, cn = [list(map(int, x)) for x in rec['out']]
    if (mt, ms, mn) != (ct, cs, cn):
        return dict(why=f'infect(): model (targets, sources, networks) = ({mt[:12]}, {ms[:12]}, {mn[:12]}), code returned ({ct[:12]}, {cs[:12]}, {cn[:12]})')
    # set_outcomes split and the log written by the step
    if 'age' in rec:
        o = parse_kv(out[4 + nroutes])
        code_c = sorted(int(u) for e in rec['prog'] if e['kind'] == 'set_congenital' for u in e['uids'])
        code_p = sorted(int(u) for e in rec['prog'] if e['kind'] == 'set_prognoses' for u in e['uids'])
        if [int(x) for x in o['C']] != code_c or [int(x) for x in o['P']] != code_p:
            return dict(why=f"set_outcomes: model hands {o['C'][:8]} to set_congenital and {o['P'][:8]} to set_prognoses, the code {code_c[:8]} and {code_p[:8]}")
        ctx.count('outcome_splits_compared')
        if 'log_new' in rec and rec['cls'] in ('SIR', 'SIS', 'Gonorrhea', 'Measles', 'Cholera'):
            ml = sorted(zip((int(x) for x in o['LS']), (int(x) for x in o['LT'])))
            cl = sorted((int(a), int(b)) for a, b, _ in rec['log_new'] if a == a)
            if ml != cl:
                return dict(why=f'infection log: model logs (source, target) {ml[:8]}, the code logged {cl[:8]}')
            ctx.count('log_steps_compared')
    # SexualNetwork.net_beta in doubles, any acts*dt
    import struct
    for j, c in enumerate(rec.get('nbf', [])):
        ln = out[5 + nroutes + j]
        if ln == 'bad-op':
            return dict(why='model rejected a netbetaf line')
        mv = np.array([struct.unpack('<d', struct.pack('<Q', int(x)))[0] for x in ln.split(',')]) if ln != '-' else np.zeros(0)
        if len(mv) != len(c['b']) or not np.allclose(mv, c['b'], rtol=1e-9, atol=1e-300):
            k = int(np.argmax(np.abs(mv - c['b']))) if len(mv) == len(c['b']) else 0
            return dict(why=f"SexualNetwork.net_beta route={c['route']} dir={c['dir']}: model (doubles) gives {mv[k] if len(mv) else None!r} for edge {k}, the code used {c['b'][k]!r}")
        ctx.count('sexual_netbeta_edges_compared', len(mv))
    return None


def pool_lines(rec, agslots=None, base=0):
    """ one `state` + `pool` line pair per disease iteration that reached the Bernoulli filter """
    lines = []; idx = []
    dst = rec['dst']
    for k, dn in enumerate(rec['diseases']):
        pre = rec['pre'][dn]
        if k < len(rec['ppf']):
            r = rec['ppf'][k]['r']
        else:
            r = np.zeros(len(dst))
        if len(r) != len(dst):
            continue
        off = len(lines)
        lines.append(f"state {bits(pre['sus'])} {bits(pre['inf'])} {enc_list(pre['rs'])} {enc_list(pre['rt'])}")
        lines.append(f"pool {enc(rec['beta'])} {nat_list(rec['src'])} {nat_list(dst)} {enc_list(rec['contacts'][dst] if len(dst) else [])} {enc_list(r)}")
        offg = None
        if not idx and rec.get('spec') is not None and agslots is not None:
            # the same step from the group PARAMETERS: the model resolves the groups itself (AgeGroup objects keep their
            # cache in driver slots, shared objects share a slot) on the recorded population
            ssrc, sdst, na = rec['spec']
            ppl = rec['people']
            toks = []
            for spec, slot in zip((ssrc, sdst), rec['grp_slot']):
                if c12_groups.is_age(spec):
                    sl = base + 1000 + (slot if slot is not None else 999)
                    if sl not in agslots:
                        agslots.add(sl)
                        lo, hi = spec['age']
                        dc = spec.get('do_cache')
                        lines.append(f"agnew {sl} {enc(lo)} {'-' if hi is None else enc(hi)} {0 if dc is False else 1}")
                    toks.append(c12_groups.group_token(spec, ppl, na, sl))
                else:
                    toks.append(c12_groups.group_token(spec, ppl, na, None))
            rr = np.zeros(ppl['n']); rr[dst] = r
            offg = len(lines)
            lines.append(f"poolg {enc(rec['beta'])} {toks[0]} {toks[1]} {rec['sti']} {nat_list(ppl['au'])} {enc_list(ppl['age'][ppl['au']])} "
                         f"{enc_list(rec['contacts'][:ppl['n']])} {enc_list(rr)}")
        idx.append((k, dn, off, offg))
    return lines, idx


def compare_pool(ctx, rec, idx, out):
    progs = [e for e in rec['prog'] if e['kind'] == 'set_prognoses']
    executed = len(rec['ppf'])
    for j, (k, dn, off, offg) in enumerate(idx):
        line = out[off + 1]
        if line == 'bad-op' or out[off] == 'bad-op' or any(o == 'bad-op' for o in out[off:(offg or off) + 1]):
            return dict(why='model rejected a pool line')
        m = parse_kv(line)
        mc = [int(x) for x in m['C']]
        if offg is not None:
            g = parse_kv(out[offg])
            ssrc, sdst, na = rec['spec']
            for side, key, spec, code in (('source', 'SRC', ssrc, rec['src']), ('destination', 'DST', sdst, rec['dst'])):
                mg = sorted(int(x) for x in g[key])      # a group is a set: the order an explicit list is held in (declared; ascending after a removal) is not observable
                if mg != sorted(int(x) for x in code):
                    diff = sorted(set(mg) ^ set(int(x) for x in code))[:8]
                    return dict(why=f"pool {rec['pool']} step {rec['sti']}: the model resolves the {side} parameter {c12_groups.describe(spec)} to {len(mg)} agents, "
                                    f"MixingPool.step used {len(code)} (differing uids {diff})")
            if sorted(int(x) for x in g['C']) != sorted(mc):
                return dict(why=f"pool {rec['pool']}/{dn}: poolStepG from the parameters gives cases {g['C'][:10]}, poolStep on the code's groups {mc[:10]}")
            ctx.count('pool_steps_from_parameters')
        if k >= executed:
            # the code returned before the disease loop (beta == 0 or an empty group): the model must agree
            if mc:
                return dict(why=f'pool {rec["pool"]}/{dn}: the code skipped the step but the model infects {mc[:10]}')
            continue
        code_cases = list(map(int, progs[k]['uids'])) if k < len(progs) else None
        ppf = rec['ppf'][k]
        mp = np.array([float(parse_rat(x)) for x in m['P']]) if m['P'] else np.zeros(0)
        if len(mp) == 0 and len(rec['src']) == 0 and len(ppf['p']):
            # a source group without members that was resolved to a BoolArr: the code's guard `len(src_uids) == 0` does not fire,
            # the mean over nobody is undefined (NaN) and so is every probability; the model takes its empty-source branch.
            # Compared on the cases (the model says: none).
            ctx.count('pool_empty_source_steps_reaching_the_filter')
        elif len(mp) == len(ppf['p']):
            bad = np.abs(mp - ppf['p']) > TOL_POOL * np.maximum(np.abs(mp), 1e-30) + 1e-12
            if bad.any():
                i = int(np.argmax(bad))
                return dict(why=f"pool {rec['pool']}/{dn}: acquisition probability of agent {int(rec['dst'][i])}: model {mp[i]!r}, code {ppf['p'][i]!r}")
            ctx.count('pool_p_compared', len(mp))
        else:
            return dict(why=f"pool {rec['pool']}/{dn}: model gives {len(mp)} probabilities, code {len(ppf['p'])}")
        if code_cases is None:
            return dict(why=f"pool {rec['pool']}/{dn}: set_prognoses was not called")
        if mc != code_cases:
            near = np.abs(mp - ppf['r']) <= TOL_POOL * np.maximum(mp, ppf['r']) if len(mp) == len(ppf['r']) else np.zeros(0, dtype=bool)
            if near.any():
                ctx.count('dont_care_near_tie_pools')
                continue
            return dict(why=f"pool {rec['pool']}/{dn}: model cases {mc[:12]}, code {code_cases[:12]}")
    return None


def unit_netbeta(ctx):
    """ Network.net_beta / SexualNetwork.net_beta on constructed edges vs the model (whole acts*dt) """
    import starsim as ss
    rng = ctx.rng
    sim = ss.Sim(n_agents=30, dur=2, dt=1.0, diseases=ss.SIS(beta=0.1), networks=[ss.RandomNet(n_contacts=2), ss.MFNet()], verbose=0)
    sim.init(); sim.run_one_step()
    plain, sexual = sim.networks[0], sim.networks[1]
    lines = []; exp = []
    for net, kind in ((plain, 'plain'), (sexual, 'sexual')):
        n = len(net.edges.beta)
        if n == 0: continue
        for _ in range(ctx.budget(6, 30)):
            eb = np.array([rng.choice([0.0, 0.5, 1.0, rng.random() * 2]) for _ in range(n)])
            beta = rng.choice([0.0, 1.0, 0.05, rng.random()])
            net.edges.beta[:] = eb
            acts = None
            if kind == 'sexual':
                acts = np.array([rng.randint(0, 6) for _ in range(n)], dtype=float)
                net.edges.acts[:] = acts / float(net.t.dt)
            got = np.asarray(net.net_beta(disease_beta=beta), dtype=np.float64)
            for j in range(min(n, 6)):
                if kind == 'plain':
                    lines.append(f'netbeta plain {enc(net.edges.beta[j])} {enc(beta)}')
                else:
                    lines.append(f'netbeta sexual {enc(net.edges.beta[j])} {enc(beta)} {int(acts[j])}')
                exp.append((kind, float(got[j]), lines[-1]))
    out = ctx.drive(DRIVER, lines)
    for (kind, got, ln), o in zip(exp, out):
        if o == 'bad-op':
            ctx.broke('correspondence', 'C12.net_beta', f'model rejected `{ln}`'); return
        mv = parse_rat(o)
        ok = abs(float(mv) - got) <= 3e-7 * abs(got) + 1e-300   # edge weights may be float32: one float32 rounding
        ctx.case(('netbeta', ln), nontrivial=got != 0)
        ctx.count('netbeta_' + kind)
        if not ok:
            ctx.broke('correspondence', 'C12.net_beta', f'{kind} net_beta: `{ln}` model {float(mv)!r} code {got!r}', data=dict(line=ln))
            return


def unit_validate(ctx):
    """ validate_beta on real diseases vs the model, including rejections """
    import starsim as ss
    rng = ctx.rng
    lines = []; exp = []
    for _ in range(ctx.budget(12, 60)):
        nets = rng.sample(['random', 'static', 'mf', 'maternal'], rng.randint(1, 3))
        keys = list(nets)
        mode = rng.choice(['scalar', 'dict', 'dict', 'dict-missing', 'dict-extra', 'invalid', 'dict-alias'])
        vals = [0.0, 0.1, 0.25, 0.5]
        if mode == 'scalar':
            v = rng.choice(vals); beta = v; line = f"validate scalar {enc(v)} {','.join(keys)}"
        elif mode == 'invalid':
            beta = 0.1; line = f"validate invalid {','.join(keys)}"
        else:
            ks = list(keys)
            if mode == 'dict-missing' and len(ks) > 1: ks = ks[:-1]
            if mode == 'dict-extra': ks = ks + ['msm']
            beta = {}; ents = []
            for k in ks:
                name = k
                if mode == 'dict-alias' and rng.random() < 0.7:
                    name = rng.choice([k + 'net', k.upper(), k.capitalize() + 'Net'])
                if rng.random() < 0.4:
                    v = rng.choice(vals); beta[name] = v; ents.append(f'{k}=s:{enc(v)}')
                else:
                    a, b = rng.choice(vals), rng.choice(vals); beta[name] = [a, b]; ents.append(f'{k}=l:{enc(a)},{enc(b)}')
            line = f"validate dict {';'.join(ents) or '-'} {','.join(keys)}"
        try:
            mk = dict(random=lambda: ss.RandomNet(n_contacts=2), static=lambda: ss.StaticNet(n_contacts=2), mf=ss.MFNet, maternal=ss.MaternalNet)
            sim = ss.Sim(n_agents=20, dur=1, diseases=ss.SIS(beta=beta), networks=[mk[k]() for k in nets], verbose=0)
            sim.init()
            if mode == 'invalid':   # other types are refused by the parameter update already (C17): set it behind its back
                sim.diseases[0].pars.beta = (0.1, 0.2)
            bm = sim.diseases[0].validate_beta()
            # a number given for `beta` becomes ss.beta(number): compare the value as given (the dt conversion is C06's)
            base = lambda x: float(x.v) if isinstance(x, ss.TimePar) else float(x)
            got = 'ok ' + ';'.join(f"{k}={','.join(enc(base(x)) for x in v)}" for k, v in bm.items())
        except ValueError as e:
            got = 'E:KeyMismatch' if 'do not match' in str(e) else f'E:Other({e})'
        except TypeError as e:
            got = 'E:InvalidType' if 'Invalid type' in str(e) else f'E:Other({e})'
        lines.append(line); exp.append((got, mode))
    out = ctx.drive(DRIVER, lines)
    for ln, (got, mode), o in zip(lines, exp, out):
        ctx.case(('validate', ln), nontrivial=mode != 'scalar')
        ctx.count('validate_' + mode)
        def canon(s):
            if not s.startswith('ok '): return s
            items = sorted(x for x in s[3:].split(';'))
            return 'ok ' + ';'.join(f"{x.split('=')[0]}={','.join(str(parse_rat_enc(v)) for v in x.split('=')[1].split(','))}" for x in items)
        if canon(o) != canon(got):
            ctx.broke('correspondence', 'C12.validate_beta', f'`{ln}`: model `{o}` code `{got}`', data=dict(line=ln))
            return


def unit_unique(ctx):
    """ ss.uids.unique(return_index=True) on constructed target arrays vs the model's keepFirst + sort """
    import starsim as ss
    rng = ctx.rng
    arrs = [[], [5], [3, 3, 7], [1, 2, 2, 2, 9, 9], [0, 0, 0, 0], [4, 1, 4, 1, 0], [2, 3, 5, 8]]
    for _ in range(ctx.budget(20, 100)):
        n = rng.randint(1, 14)
        a = [rng.randint(0, 9) for _ in range(n)]
        if rng.random() < 0.5: a.sort()
        arrs.append(a)
    lines = [f"unique {nat_list(a)} {nat_list(range(100, 100 + len(a)))}" for a in arrs]
    out = ctx.drive(DRIVER, lines)
    for a, ln, o in zip(arrs, lines, out):
        u, idx = ss.uids(np.array(a, dtype=int)).unique(return_index=True)
        m = parse_kv(o) if o != 'bad-op' else None
        ctx.case(('unique', ln), nontrivial=len(set(a)) < len(a))
        ctx.count('unique_arrays')
        if m is None or [int(x) for x in m['T']] != [int(x) for x in u] or [int(x) for x in m['N']] != [int(x) for x in idx]:
            ctx.broke('correspondence', 'C12.unique', f'uids({a}).unique(return_index=True) = ({list(map(int, u))}, {list(map(int, idx))}); model keepFirst+sort: {o}', data=dict(kind='unique', arr=a))
            return


def oracle_unique(arrs=None):
    """ the dedup helper on the real code: sorted, duplicate-free, index of the FIRST occurrence """
    import starsim as ss
    fails = []
    for a in (arrs or [[3, 3, 7], [1, 2, 2, 2, 9, 9], [0, 0, 0, 0], [4, 1, 4, 1, 0], [7], [], [2, 3, 5, 8], [5, 5]]):
        u, idx = ss.uids(np.array(a, dtype=int)).unique(return_index=True)
        u = [int(x) for x in u]; idx = [int(x) for x in idx]
        want = sorted(set(a))
        if u != want or idx != [a.index(x) for x in want]:
            fails.append(dict(signature=dict(oracle='unique'), what=f'uids({a}).unique(return_index=True) returns {u} at {idx}: new cases reached over several edges would be reported more than once / with the wrong source (expected {want} at {[a.index(x) for x in want]})', arr=a))
            break
    return fails


def unit_boundary(ctx):
    """ the real kernel on r == p, p == 0 and one-ulp neighbours vs the model """
    import starsim as ss
    e = c12_extra.boundary_edges()
    n = len(e['rt'])
    lines = [f"state {'1' * n} {'1' * n} {enc_list(e['rs'])} {enc_list(e['rt'])}", 'clearnets',
             f"net 1 raw 1 0 {nat_list(e['src'])} {nat_list(e['trg'])} - - {enc_list(e['r'])} - {enc_list(e['b'])} -", 'calls']
    out = ctx.drive(DRIVER, lines)
    t_out, s_out = ss.Infection.compute_transmission(ss.uids(e['src']), ss.uids(e['trg']), e['rt'], e['rs'], e['b'], e['r'])
    got = f"0:0:{nat_list(np.asarray(t_out))}:{nat_list(np.asarray(s_out))}"
    ctx.case(('boundary', tuple(lines)), nontrivial=True, sample=dict(kind='kernel-boundary', edges=len(e['src']), transmitted=len(t_out)))
    ctx.count('boundary_edges', len(e['src']))
    if out[3] != got:
        ctx.broke('correspondence', 'C12.kernel-boundary', f'compute_transmission on r == p / p == 0 boundary edges: model `{out[3][:160]}` code `{got[:160]}`', data=dict(kind='boundary'))


def setbeta_cases():
    """ real time parameters given a new base value through every public handle: (description, model line, value the user's
        action denotes, value the code holds).  Dyadic values, so the products are exact in floats and in the model. """
    import starsim as ss
    out = []
    vals = [0.0, 0.25, 0.5, 0.75, 1.0]
    for old in vals:
        for new in vals + [None]:
            b = ss.beta(old); b.set(new)
            out.append((f'ss.beta({old}).set({new})', f"setbeta {enc(old)} {'-' if new is None else enc(new)}", old if new is None else new, base_value(b)))
        for f in (0.0, 0.5, 1.0, 0.25):
            b = ss.beta(old); b *= f
            out.append((f'b = ss.beta({old}); b *= {f}', f'scalebeta {enc(old)} {enc(f)}', old * f, base_value(b)))
            out.append((f'ss.beta({old}) * {f}', f'scalebeta {enc(old)} {enc(f)}', old * f, base_value(ss.beta(old) * f)))
            out.append((f'{f} * ss.beta({old})', f'scalebeta {enc(old)} {enc(f)}', old * f, base_value(f * ss.beta(old))))
    grp = dict(a=ss.AgeGroup(0, 15), b=ss.AgeGroup(15, None))
    for x in (0.0, 0, 0.3, 1.0):      # a plain number overriding the default time parameter of a module
        for what, mk, dflt in (('ss.SIS', lambda v: ss.SIS(**v), ss.SIS().pars.beta), ('ss.SIR', lambda v: ss.SIR(**v), ss.SIR().pars.beta),
                               ('ss.HIV', lambda v: ss.HIV(**v), ss.HIV().pars.beta), ('ss.MixingPool', lambda v: ss.MixingPool(**v), ss.MixingPool().pars.beta),
                               ('ss.MixingPools', lambda v: ss.MixingPools(src=grp, dst=grp, **v), ss.MixingPools(src=grp, dst=grp).pars.beta)):
            if not isinstance(dflt, ss.TimePar): continue
            m = mk(dict(beta=x))
            out.append((f'{what}(beta={x!r}).pars.beta', f'setbeta {enc(base_value(dflt))} {enc(x)}', float(x), base_value(m.pars.beta)))
            m = mk({}); m.pars.update(beta=x)
            out.append((f'{what}().pars.update(beta={x!r})', f'setbeta {enc(base_value(dflt))} {enc(x)}', float(x), base_value(m.pars.beta)))
    return out


def unit_setbeta(ctx):
    """ TimePar.set / scaling operators / plain numbers overriding a default beta vs setBase / scaleBase of the model """
    cases = setbeta_cases()
    out = ctx.drive(DRIVER, [c[1] for c in cases])
    for (what, ln, want, got), o in zip(cases, out):
        ctx.case(('setbeta', what), nontrivial=want == 0, sample=dict(kind='setbeta', what=what))
        ctx.count('setbeta_cases')
        if o == 'bad-op' or parse_rat(o) != frac(got):
            ctx.broke('correspondence', 'C12.setbeta', f'`{what}`: the code holds the base value {got!r}, the model `{ln}` gives {o}', data=dict(kind='setbeta-unit'))
            return


def oracle_setbeta():
    """ real code only: the transmissibility held after the user's action is the one the action denotes (0 is a value) """
    fails = []
    for what, ln, want, got in setbeta_cases():
        if got != want:
            fails.append(dict(signature=dict(oracle='beta-in-force', level='unit', zero=bool(want == 0)),
                              what=f'`{what}` holds the transmissibility {got!r}; the user set it to {want!r}'
                                   + (' — transmission that was switched off stays on' if want == 0 else '')))
            break
    return fails


def agcall_lines(calls, spec_of, base=0):
    """ driver lines replaying AgeGroup.__call__ sequences: `agnew` at the first call of an object, then one `agcall` per call """
    lines = []; idx = []; seen = set()
    for c in calls:
        sl = base + c['slot']
        if sl not in seen:
            seen.add(sl)
            lo, hi, dc = spec_of(c)
            lines.append(f"agnew {sl} {enc(lo)} {'-' if hi is None else enc(hi)} {0 if dc is False else 1}")
        idx.append(len(lines))
        lines.append(f"agcall {sl} {c['ti']} {nat_list(c['au'])} {enc_list(c['age'])}")
    return lines, idx


def compare_agcalls(ctx, calls, lines, idx, out, what, data):
    for c, i in zip(calls, idx):
        o = out[i]
        m = parse_kv(o) if o != 'bad-op' and o.startswith('U=') else None
        ctx.count('agegroup_calls_compared')
        if m is None or [int(x) for x in m['U']] != c['out'].tolist():
            mu = None if m is None else [int(x) for x in m['U']]
            diff = sorted(set(mu or []) ^ set(c['out'].tolist()))[:8]
            ctx.broke('correspondence', 'C12.agegroup', f"{what}: AgeGroup slot {c['slot']} called at ti={c['ti']} returned {len(c['out'])} agents, the model "
                      f"{'rejected the line' if mu is None else f'returns {len(mu)}'} (differing uids {diff})", data=data)
            return False
    return True


def unit_agegroup(ctx):
    """ real ss.AgeGroup objects (default / do_cache=True / do_cache=False) called after steps, repeatedly within a step and
        after ages were edited within a step, vs AgeGroup.call of the model """
    for j in range(ctx.budget(2, 8)):
        seed = ctx.seed * 100 + j
        calls = c12_groups.agegroup_trace(seed, 40)
        lines, idx = agcall_lines(calls, lambda c: (c['low'], c['high'], c['do_cache']))
        out = ctx.drive(DRIVER, lines)
        ctx.case(('agegroup', tuple(lines)), nontrivial=len({tuple(c['out'].tolist()) for c in calls}) > 3,
                 sample=dict(kind='agegroup', calls=len(calls), steps=len({c['ti'] for c in calls})))
        if not compare_agcalls(ctx, calls, lines, idx, out, f'direct calls (trace {seed})', dict(kind='agegroup', seed=seed, nops=40)):
            return


def parse_rat_enc(s):
    if '@' in s:
        m, e = s.split('@'); return fractions.Fraction(int(m), 2 ** int(e))
    return fractions.Fraction(s)


def prepare_run(ctx, R, tag, data, base=0):
    """ driver lines of one recorded run: every infect() call, every pool step (also from the group parameters), every AgeGroup
        call (driver slots of AgeGroup objects start at `base`, so several runs can share one driver process).
        Returns (lines, index) or None when the call structure already diverges (reported). """
    lines = []; index = []
    agslots = set()
    for rec in R.infects:
        err = attach_calls(rec)
        if err:
            ctx.broke('correspondence', 'C12.infect', f"{tag}{rec['cls']} ti={rec['ti']}: {err}", data=data)
            return None
        ls = infect_lines(rec)
        index.append(('infect', rec, len(lines), len(ls))); lines += ls
    for rec in R.pools:
        ls, idx = pool_lines(rec, agslots, base)
        index.append(('pool', (rec, idx), len(lines), len(ls))); lines += ls
    agspecs = getattr(R, 'agspecs', {})
    agc = [c for c in R.agcalls if c['slot'] in agspecs]
    if agc:      # every AgeGroup.__call__ of the run, per object in order, against the model's cache automaton
        ls, aidx = agcall_lines(agc, lambda c: (agspecs[c['slot']]['age'][0], agspecs[c['slot']]['age'][1], agspecs[c['slot']].get('do_cache')), base)
        index.append(('agcalls', (agc, aidx), len(lines), len(ls))); lines += ls
    return lines, index


def correspond_run(ctx, cfg, R, stats, tag, data):
    """ one recorded run against the model.  Returns False when a divergence was reported. """
    prep = prepare_run(ctx, R, tag, data)
    if prep is None:
        return False
    lines, index = prep
    if not lines:
        return True
    return compare_run(ctx, cfg, lines, index, ctx.drive(DRIVER, lines), stats, tag, data)


def compare_run(ctx, cfg, lines, index, out, stats, tag, data):
    for kind, rec, off, n in index:
        o = out[off:off + n]
        if kind == 'agcalls':
            if not compare_agcalls(ctx, rec[0], lines[off:off + n], rec[1], o, f"{tag}sim", data):
                return False
            continue
        if kind == 'infect':
            div = compare_infect(ctx, cfg, rec, o)
            ntrans = sum(len(c['t_out']) for c in rec['calls'])
            stats['infect_calls'] += 1; stats['kernel_calls'] += len(rec['calls'])
            stats['edges'] += sum(len(c['src']) for c in rec['calls']); stats['transmissions'] += ntrans
            ctx.case(('infect', tuple(lines[off:off + n])), nontrivial=ntrans > 0,
                     sample=dict(kind='infect', disease=rec['cls'], ti=rec['ti'], routes=[r['key'] for r in rec['routes']],
                                 betas=[r['b'] for r in rec['routes']], kernel_calls=len(rec['calls']), new_cases=len(rec['out'][0])))
            if div:
                ctx.broke('correspondence', 'C12.infect', f"{tag}{rec['cls']} ti={rec['ti']}: {div['why']}",
                          data=dict(data, ti=rec['ti'], disease=rec['disease']))
                return False
        else:
            prec, idx = rec
            div = compare_pool(ctx, prec, idx, o)
            ncase = sum(len(e['uids']) for e in prec['prog'])
            stats['pool_steps'] += 1; stats['pool_cases'] += ncase
            ctx.case(('pool', tuple(lines[off:off + n])), nontrivial=ncase > 0,
                     sample=dict(kind='pool', ti=prec['ti'], beta=prec['beta'], n_src=len(prec['src']), n_dst=len(prec['dst']), cases=ncase))
            if div:
                ctx.broke('correspondence', 'C12.pool', tag + div['why'], data=dict(data, ti=prec['ti']))
                return False
    return True


ZOO_RUNS = {}     # zoo entry -> recorded run, made in correspond() and re-used by search() in the same process


def zoo_run_cached(name, cfg):
    if name not in ZOO_RUNS:
        ZOO_RUNS[name] = run_recorded_zoo(cfg)
    return ZOO_RUNS[name]


def correspond_zoo(ctx, stats):
    """ the model follows whole runs of the shared zoo: every entry is recorded (and kept for the oracle), every second one
        (rotating with the seed) is compared call by call with the driver """
    from harness import zoo
    batch = []; all_lines = []
    for i, (name, cfg) in enumerate(zoo.configs()):
        if not zoo_has_transmission(cfg):
            continue
        try:
            R = zoo_run_cached(name, cfg)
        except Exception as e:
            ctx.count('zoo_exceptions'); ctx.notes['last_zoo_exception'] = f'{name}: {type(e).__name__}: {e}'; continue
        if (i + ctx.seed) % 2:
            continue
        tag = f'[zoo:{name}] '; data = dict(kind='zoo-sim', name=name, cfg=cfg)
        try:
            prep = prepare_run(ctx, R, tag, data, base=10000 * (len(batch) + 1))
        except Exception as e:
            ctx.count('zoo_exceptions'); ctx.notes['last_zoo_exception'] = f'{name} (correspondence): {type(e).__name__}: {e}'; continue
        if prep is None:
            return
        batch.append((name, cfg, tag, data, len(all_lines), prep[0], prep[1])); all_lines += prep[0]
    if not all_lines:
        return
    out = ctx.drive(DRIVER, all_lines)      # one driver process for the whole zoo (start-up dominates short runs)
    for name, cfg, tag, data, off, lines, index in batch:
        ctx.count('zoo_runs_compared')
        try:
            ok = compare_run(ctx, cfg, lines, index, out[off:off + len(lines)], stats, tag, data)
        except Exception as e:
            ctx.count('zoo_exceptions'); ctx.notes['last_zoo_exception'] = f'{name} (correspondence): {type(e).__name__}: {e}'; continue
        if not ok:
            return


def correspond(ctx):
    import starsim as ss
    facts = (ctx.extracted.get('TransmissionFacts') or {}).get('facts') or {}
    ctx.notes['source_expressions'] = facts
    unit_netbeta(ctx)
    unit_validate(ctx)
    unit_unique(ctx)
    unit_boundary(ctx)
    unit_agegroup(ctx)
    unit_setbeta(ctx)
    nsims = ctx.budget(14, 110)
    fams = ['plain', 'sexual', 'maternal', 'pool', 'mixed', 'churn']
    stats = dict(infect_calls=0, kernel_calls=0, edges=0, transmissions=0, pool_steps=0, pool_cases=0)
    fixed = c12_extra.fixed_scenarios(ctx.seed)
    for k in range(nsims + len(fixed)):
        cfg = fixed[k] if k < len(fixed) else gen_cfg(ctx.rng, fams[k % len(fams)] if k < 2 * len(fams) + len(fixed) else None)
        try:
            R = run_recorded(cfg)
        except Exception as e:
            import traceback
            ctx.broke('correspondence', 'C12.run', f'generated sim raised {type(e).__name__}: {e}\n{traceback.format_exc()[-1200:]}', data=dict(kind='sim', cfg=cfg))
            continue
        ctx.count('sims'); ctx.count('family_' + cfg['family'])
        for d in cfg['diseases']: ctx.count('disease_' + d['type'])
        if not correspond_run(ctx, cfg, R, stats, '', dict(kind='sim', cfg=cfg)):
            return
    correspond_zoo(ctx, stats)
    ctx.notes['correspondence_stats'] = stats


# ---------------------------------------------------------------------------
# oracle on the real code

def oracle_records(R, cfg):
    """ Event-level admissibility from the recorded snapshots.  Returns a list of failures (signature, what). """
    fails = []

    def F(oracle, what, **sig):
        if len(fails) < 8:
            s = dict(oracle=oracle); s.update(sig)
            fails.append(dict(signature=s, what=what))

    try:
        conf = configured_betas(cfg)
    except Exception:
        conf = {}

    def applied(v, ops):
        for op, x in ops:
            v = v * x if op in ('imul', 'mul') else v / x if op == 'idiv' else float(x)
        return v

    def expected_step_value(v, factor):
        """ per-step value of a probability-per-time `v` for the conversion factor the code holds (the factor itself is
            judged by `timepar-beta-dt`; unit conversion is C06's) """
        if v == 0: return 0.0
        if v == 1: return 1.0
        return float(1 - np.exp(np.log(1 - v) / factor))

    for rec in R.infects:
        tag = f"{rec['cls']} ti={rec['ti']}"
        # the beta IN FORCE on every route and direction is the one the configuration (and the user's changes during the
        # run) denotes: the value as given, and its per-step value for the factor the code holds
        want_of = conf.get(rec['disease'])
        for i, r in enumerate(rec['routes']):
            if 'base' not in r: continue
            for dd in (0, 1):
                have = r['base'][dd]
                if want_of is not None:
                    w0 = want_of(r['std'], dd)
                    if w0 is not None:
                        want = applied(w0, rec.get('sched_ops', []))
                        if have != want and not (abs(have - want) <= 1e-12 * max(abs(have), abs(want))):
                            crossing = [int(t) for t, n_ in zip(rec['out'][0].tolist(), rec['out'][2].tolist()) if n_ == i]
                            how = (f" after the user's changes {rec['sched_ops']}" if rec.get('sched_ops') else '')
                            F('beta-in-force', f"{tag}: the transmissibility configured for {r['key']} direction {dd} is {want!r}{how} (given as {w0!r}), but the beta in force is "
                                               f"{have!r} (per step {r['b'][dd]!r})" + (f": {len(crossing)} infections crossed this route in the step, e.g. agents {crossing[:4]}" if crossing and want == 0 else ''),
                              zero=bool(want == 0))
                            break
                if r['factor'][dd] is not None and r['factor'][dd] > 0 and 0 <= have <= 1:
                    ev = expected_step_value(have, r['factor'][dd])
                    if abs(ev - r['b'][dd]) > 1e-9 * max(abs(ev), 1e-300) + 1e-15:
                        F('beta-in-force', f"{tag}: beta of {r['key']} direction {dd} is held as {have!r} per unit time, but the per-step value used is {r['b'][dd]!r} "
                                           f"instead of {ev!r} (conversion factor {r['factor'][dd]!r})", zero=bool(have == 0))
                        break
        err = attach_calls(rec)
        if err:
            F('call-structure', f'{tag}: {err}')
            continue
        T, S, N = rec['out']
        sus, inf, rs, rt, n = rec['sus'], rec['inf'], rec['rs'], rec['rt'], rec['n']
        active = np.zeros(n, bool); active[rec['au']] = True
        # once
        if len(set(T.tolist())) != len(T):
            dup = [int(x) for x in T if list(T).count(x) > 1][:3]
            F('once', f'{tag}: infect() reports agents {dup} more than once in one step')
        for t, s, i in zip(T.tolist(), S.tolist(), N.tolist()):
            if t >= n or not active[t]:
                F('target-active', f'{tag}: new case {t} is not an active agent'); continue
            if not sus[t]:
                F('target-susceptible', f'{tag}: agent {t} was infected (source {s}, route {i}) but was not susceptible before transmission')
            if rs[t] == 0:
                F('zero-factor', f'{tag}: agent {t} was infected with relative susceptibility 0', factor='rel_sus')
            if s >= n or not active[s] or not inf[s]:
                F('source-infectious', f'{tag}: recorded source {s} of new case {t} was not infectious')
            elif rt[s] == 0:
                F('zero-factor', f'{tag}: source {s} of new case {t} has relative transmissibility 0', factor='rel_trans')
            if not (0 <= i < len(rec['routes'])) or not rec['routes'][i]['isnet']:
                F('source-joined', f'{tag}: new case {t} is attributed to route {i}, which is not a network'); continue
            r = rec['routes'][i]
            fwd = (r['p1'] == s) & (r['p2'] == t)
            bwd = (r['p2'] == s) & (r['p1'] == t)
            joined = (fwd.any() and r['b'][0] > 0) or (bwd.any() and r['b'][1] > 0)
            if not joined:
                F('source-joined', f"{tag}: no edge of {r['key']} joins source {s} to target {t} in a direction with positive beta (betas {r['b']}, "
                                   f"p1->p2 edges {int(fwd.sum())}, p2->p1 edges {int(bwd.sum())})")
            else:
                w = 0.0; pt = 0.0      # largest weight / largest per-step transmissibility among the joining edges
                for dd, m in ((0, fwd), (1, bwd)):
                    if r['b'][dd] > 0 and m.any():
                        w = max(w, float(r['beta'][m].max()))
                        pt = max(pt, float(per_step_transmissibility(r, r['b'][dd])[m].max()))
                if w <= 0:
                    F('zero-factor', f"{tag}: transmission {s}->{t} over {r['key']} although every joining edge has weight 0", factor='edge-beta')
                elif pt <= 0:
                    F('zero-factor', f"{tag}: transmission {s}->{t} over {r['key']} although every joining edge has zero per-step transmissibility "
                                     f"(no acts in the step: acts {r['acts'][fwd | bwd].tolist()[:4]}, dt {r['dt']})", factor='acts')
        # first source: the reported source is the one of the first kernel call (in order) that returned the target
        first = {}
        for c in rec['calls']:
            for t, s in zip(c['t_out'].tolist(), c['s_out'].tolist()):
                first.setdefault(t, (s, c['route']))
        if set(first) != set(T.tolist()):
            F('every-transmission-reported', f'{tag}: kernel calls transmitted to {sorted(set(first) - set(T.tolist()))[:5]} / infect() reports {sorted(set(T.tolist()) - set(first))[:5]} without a kernel transmission')
        else:
            for t, s, i in zip(T.tolist(), S.tolist(), N.tolist()):
                if first[t] != (s, i):
                    F('first-source', f'{tag}: new case {t} is attributed to source {s} on route {i}, but the first transmitting event was source {first[t][0]} on route {first[t][1]}')
                    break
        # kernel level
        for c in rec['calls']:
            r = rec['routes'][c['route']]
            ktag = f"{tag} {r['key']} dir={c['dir']}"
            if not c['as_modelled']:
                F('direction', f'{ktag}: the kernel was called with endpoints that are not (p1,p2)/(p2,p1) of that direction')
                continue
            # effective factors on active agents
            au = rec['au']
            if not np.array_equal(c['rt'][au].astype(np.float64), np.where(inf[au], rt[au], 0.0)):
                F('effective-factor', f'{ktag}: the transmissibility array given to the kernel is not infectious*rel_trans', factor='rel_trans')
            if not np.array_equal(c['rs'][au].astype(np.float64), np.where(sus[au], rs[au], 0.0)):
                F('effective-factor', f'{ktag}: the susceptibility array given to the kernel is not susceptible*rel_sus', factor='rel_sus')
            # per-step transmissibility of the edge
            beta = r['b'][c['dir']]
            expb = per_step_transmissibility(r, beta)
            if len(expb) != len(c['b']) or not np.allclose(c['b'], expb, rtol=3e-7, atol=1e-15):
                j = int(np.argmax(np.abs(c['b'] - expb))) if len(expb) == len(c['b']) else 0
                F('net-beta', f"{ktag}: beta_per_dt of edge {j} is {c['b'][j]!r}, expected {expb[j]!r} from edge weight {r['beta'][j]!r} and beta {beta!r}"
                              + (f" with {r['acts'][j]!r} acts a year at dt {r['dt']!r}" if r['kind'] != 'plain' else ''))
            # output == (p > r), p = rel_trans[src]*rel_sus[trg]*beta_per_dt, from the arguments the kernel got
            p = (c['rt'][c['src']] * c['rs'][c['trg']]) * c['b']
            mask = p > c['r']
            near = near_ties(c)
            exp_t = c['trg'][mask]; exp_s = c['src'][mask]
            if not (np.array_equal(exp_t, c['t_out']) and np.array_equal(exp_s, c['s_out'])):
                # tolerate differences confined to near-ties
                got = set(zip(c['t_out'].tolist(), c['s_out'].tolist())); want = set(zip(exp_t.tolist(), exp_s.tolist()))
                tie = set(zip(c['trg'][near].tolist(), c['src'][near].tolist()))
                if (got ^ want) - tie:
                    ex = sorted((got ^ want) - tie)[:3]
                    F('kernel-probability', f'{ktag}: kernel output differs from rel_trans[src]*rel_sus[trg]*beta_per_dt > r on (target, source) pairs {ex}')
        # per-step value of TimePar betas must be the value for the disease's own step length
        for tp in rec['timepars']:
            wf = tp.get('want_factor')
            if wf is not None and wf > 0 and abs(tp['factor'] - wf) > 1e-9 * max(abs(wf), abs(tp['factor'])):
                # values = 1 - (1 - v)^(1/factor): the per-step probability for a step of the PARENT timeline the TimePar was given
                F('timepar-beta-dt', f"{tag}: the disease steps every {rec['module_dt']} {tp['module_unit']}(s) but its beta ss.beta({tp['v']}, per {tp['unit']}) was converted for "
                                     f"steps of {tp['parent_dt']} {tp['parent_unit']}(s) (per-step value {tp['values']!r} instead of {1 - (1 - tp['v']) ** (1 / wf)!r})")
                break
        # congenital split and the infection log
        if 'age' in rec:
            age = rec['age']
            for e in rec['prog']:
                bad = [int(u) for u in e['uids'] if (age[u] <= 0) != (e['kind'] == 'set_congenital')]
                if bad:
                    F('congenital-split', f"{tag}: {e['kind']} was called for agents {bad[:5]} aged {[float(age[u]) for u in bad[:5]]} (congenital means age <= 0)")
        if 'log_new' in rec:
            ev = {(int(s_), int(t_)) for t_, s_ in zip(T.tolist(), S.tolist())}
            logged = set()
            for s_, t_, k_ in rec['log_new']:
                if s_ != s_ or (int(s_), int(t_)) not in ev:
                    F('log-admissible', f'{tag}: the infection log gained the entry {s_!r}->{t_!r} at {k_!r}, which is not a transmission event reported by this step')
                elif abs(k_ - rec['now']) > 1e-9:
                    F('log-admissible', f"{tag}: log entry {s_}->{t_} is stamped {k_!r}, the step's time is {rec['now']!r}")
                else:
                    logged.add(int(t_))
            if len(rec['log_new']) != len({(a, b) for a, b, _ in rec['log_new']}):
                F('log-admissible', f'{tag}: an event is logged twice')
            if 'age' in rec:
                born = [t_ for t_ in T.tolist() if rec['age'][t_] > 0]
                missing = sorted(set(born) - logged)
                if missing:
                    # not a failure: the property constrains the transmission events that happen (and what a log entry may
                    # say), it does not require the optional log to be complete (Ebola / Syphilis never write it)
                    LOG_INCOMPLETE[rec['cls']] = LOG_INCOMPLETE.get(rec['cls'], 0) + len(missing)
        # outcomes: everything infect() returned was given a prognosis, and nothing else
        if 'returned' in rec:
            given = np.concatenate([e['uids'] for e in rec['prog']]) if rec['prog'] else np.zeros(0, int)
            if sorted(given.tolist()) != sorted(T.tolist()):
                F('outcome', f'{tag}: infect() returned {len(T)} new cases but prognoses were set for {len(given)} agents (difference {sorted(set(given.tolist()) ^ set(T.tolist()))[:5]})')
            post = rec['sus_post']
            still = [t for t in T.tolist() if t < len(post) and post[t] and rec['age'][t] > 0]
            if still:
                F('outcome', f'{tag}: new cases {still[:5]} are still susceptible after the disease step')
            pre_full = np.zeros(len(post), bool); pre_full[:n] = sus
            flipped = set(np.nonzero(pre_full & ~post)[0].tolist())
            extra = flipped - set(T.tolist())
            if extra:
                F('outside-event', f'{tag}: agents {sorted(extra)[:5]} stopped being susceptible during the disease step without a transmission event')
    for e in R.stray:
        if len(e['uids']):
            F('outside-event', f"{e['disease']} ti={e['ti']}: {e['kind']} called for {len(e['uids'])} agents outside Infection.step / MixingPool.step")
            break
    # pools
    for rec in R.pools:
        progs = [e for e in rec['prog'] if e['kind'] == 'set_prognoses']
        src, dst = rec['src'], rec['dst']
        tag0 = f"pool {rec['pool']} ti={rec['ti']}"; ncases = sum(len(e['uids']) for e in progs)
        if rec.get('beta_cfg') is not None and 'beta_base' in rec:
            want = applied(rec['beta_cfg'][0], rec.get('sched_ops', []))
            have = rec['beta_base']
            if have != want and not (abs(have - want) <= 1e-12 * max(abs(have), abs(want))):
                how = (f" after the user's changes {rec['sched_ops']}" if rec.get('sched_ops') else '')
                F('beta-in-force', f"{tag0}: the pool's transmissibility is configured as {want!r}{how}, but the beta in force is {have!r} (per step {rec['beta']!r})"
                                   + (f": {ncases} infections crossed the pool" if want == 0 and ncases else ''), zero=bool(want == 0))
            elif rec.get('beta_factor') and 0 <= have <= 1:
                ev = expected_step_value(have, rec['beta_factor'])
                if abs(ev - rec['beta']) > 1e-9 * max(abs(ev), 1e-300) + 1e-15:
                    F('beta-in-force', f"{tag0}: the pool's beta is held as {have!r} per unit time, but the per-step value used is {rec['beta']!r} instead of {ev!r}", zero=bool(have == 0))
        if ncases and rec['beta'] <= 0:
            F('pool-zero', f'{tag0}: infections with beta {rec["beta"]}')
        for k, dn in enumerate(rec['diseases']):
            tag = f"pool {rec['pool']}/{dn} ti={rec['ti']}"
            if k >= len(progs):
                continue
            cases = progs[k]['uids']
            pre = rec['pre'][dn]
            sus, inf, rs, rt = pre['sus'], pre['inf'], pre['rs'], pre['rt']
            if len(set(cases.tolist())) != len(cases):
                F('pool-once', f'{tag}: an agent is infected twice')
            srcinf = [v for v in src.tolist() if v < pre['n'] and inf[v] and rt[v] > 0]
            ppl = rec.get('people')
            want_dst = None
            if rec.get('spec') is not None and ppl is not None:
                # the groups the PARAMETERS denote on the population of this step, re-derived from the configuration
                ssrc, sdst, na = rec['spec']
                agemap = lambda u: (round(float(ppl['age'][u]), 2) if u < ppl['n'] and u in set(ppl['au'].tolist()) else 'not active')
                for side, spec, used in (('source', ssrc, src), ('destination', sdst, dst)):
                    want = c12_groups.expected_group(spec, ppl, na)
                    if side == 'destination': want_dst = set(want.tolist())
                    if k == 0 and set(want.tolist()) != set(used.tolist()):
                        extra = sorted(set(used.tolist()) - set(want.tolist()))[:4]; missing = sorted(set(want.tolist()) - set(used.tolist()))[:4]
                        F('pool-group', f"{tag} (sim step {rec['sti']}): the {side} group used by MixingPool.step is not the group its parameter {c12_groups.describe(spec)} "
                                        f"denotes now: wrongly included (uid, age) {[(u, agemap(u)) for u in extra]}, missing {[(u, agemap(u)) for u in missing]}", side=side)
            active = set(ppl['au'].tolist()) if ppl is not None else None
            for u in cases.tolist():
                if active is not None and u not in active:
                    F('pool-target-active', f'{tag}: new case {u} is not an active agent'); break
                if want_dst is not None and u not in want_dst:
                    F('pool-destination', f"{tag}: new case {u} (age {float(ppl['age'][u]) if u < ppl['n'] else None!r}) does not belong to the destination group "
                                          f"{c12_groups.describe(rec['spec'][1])} on this step"); break
                if u not in set(dst.tolist()):
                    F('pool-destination', f'{tag}: new case {u} is not in the destination group'); break
                if u >= pre['n'] or not sus[u]:
                    F('pool-susceptible', f'{tag}: new case {u} was not susceptible'); break
                if rs[u] == 0 or rec['contacts'][u] == 0:
                    F('pool-zero', f'{tag}: new case {u} has relative susceptibility {rs[u]} and {rec["contacts"][u]} contacts'); break
                if not srcinf:
                    F('pool-source', f'{tag}: new case {u} although no member of the source group is infectious with positive transmissibility'); break
            if dn in rec.get('log_new', {}):
                lg = rec['log_new'][dn]
                lt = sorted(int(t_) for s_, t_, k_ in lg)
                if lt != sorted(cases.tolist()) or any(s_ == s_ for s_, t_, k_ in lg) or any(abs(k_ - rec['now'][dn]) > 1e-9 for s_, t_, k_ in lg):
                    F('pool-log', f"{tag}: log entries {lg[:4]} do not match the pool's new cases {cases.tolist()[:6]} (source unknown, time {rec['now'][dn]})")
            if k < len(rec['ppf']):
                ppf = rec['ppf'][k]
                if len(src) and len(ppf['p']) == len(dst):
                    trans = float(np.mean(np.where(inf[src], rt[src], 0.0)))
                    expp = rec['beta'] * trans * rec['contacts'][dst] * np.where(sus[dst], rs[dst], 0.0)
                    if not np.allclose(ppf['p'], expp, rtol=TOL_POOL, atol=1e-12):
                        j = int(np.argmax(np.abs(ppf['p'] - expp)))
                        F('pool-probability', f"{tag}: acquisition probability of agent {int(dst[j])} is {ppf['p'][j]!r}, expected beta*mean_src(infectious*rel_trans)*contacts*susceptible*rel_sus = {expp[j]!r}")
                    acc = dst[ppf['acc']] if len(ppf['acc']) == len(dst) else None
                    if acc is not None and not np.array_equal(acc, cases):
                        F('pool-filter', f'{tag}: agents given a prognosis {cases.tolist()[:8]} are not the ones accepted by the Bernoulli filter {acc.tolist()[:8]}')
    return fails


def per_step_transmissibility(r, beta):
    """ the property's per-step transmissibility of every edge of a recorded route: weight x beta, and for sexual networks
        weight x (1 - (1 - beta)^(acts in the step)) """
    if r['kind'] == 'plain':
        return r['beta'] * beta
    return r['beta'] * (1 - (1 - beta) ** (r['acts'] * r['dt']))


def oracle_netbeta(dts=(1.0, 0.25, 1 / 365)):
    """ net_beta of real network objects called directly on constructed edge weights and act counts — including weight 0,
        acts 0 and fewer than one act per step — against the formula of the property, for a float and for the sim's own TimePar beta """
    import starsim as ss
    fails = []
    ws = np.array([0.0, 1.0, 0.5, 0.25, 2.0, 1.0, 1.0, 0.75], dtype=np.float32)
    acts = np.array([3, 0, 1, 2, 0, 80, 1, 5])
    for dt in dts:
        sim = ss.Sim(n_agents=40, dur=3 * dt, dt=dt, start=2000, diseases=ss.SIS(beta=0.3, init_prev=0.2), verbose=0, rand_seed=3,
                     networks=[ss.RandomNet(n_contacts=2), ss.MFNet(), ss.MSMNet(), ss.EmbeddingNet()])
        sim.init(); sim.run_one_step()
        for net in sim.networks.values():
            n = len(net.edges.beta)
            if n == 0: continue
            w = np.resize(ws, n); a = np.resize(acts, n)
            net.edges.beta[:] = w
            sexual = isinstance(net, ss.SexualNetwork)
            if sexual: net.edges.acts[:] = a
            for b in (0.0, 0.05, 0.6, 1.0, sim.diseases[0].pars.beta):
                bf = beta_float(b)
                got = np.asarray(net.net_beta(disease_beta=b), dtype=np.float64)
                want = w.astype(np.float64) * ((1 - (1 - bf) ** (np.asarray(net.edges.acts, dtype=np.float64) * float(net.t.dt))) if sexual else bf)
                if got.shape != want.shape or not np.allclose(got, want, rtol=3e-7, atol=1e-15):
                    j = int(np.argmax(np.abs(got - want))) if got.shape == want.shape else 0
                    extra = f", {int(net.edges.acts[j])} acts a year at dt {float(net.t.dt)!r} ({float(net.edges.acts[j]) * float(net.t.dt)!r} acts in the step)" if sexual else ''
                    fails.append(dict(signature=dict(oracle='net-beta', level='unit'),
                                      what=f"{type(net).__name__}.net_beta(disease_beta={b!r}) gives {got[j]!r} for an edge of weight {float(w[j])!r}{extra}; "
                                           f"the per-step transmissibility of that edge is {want[j]!r}", dts=[dt]))
                    return fails
    return fails


def oracle_run(cfg):
    R = run_recorded(cfg)
    return oracle_records(R, cfg), R


# -- monotonicity in beta -----------------------------------------------------

def numeric_betas(cfg):
    def num(o): return not (isinstance(o, dict) and o.get('tp'))
    for d in cfg['diseases']:
        b = d['beta']
        if b['kind'] == 'scalar':
            if not num(b): return False
        else:
            for v in b['entries'].values():
                for x in (v if isinstance(v, list) else [v]):
                    if not num(x): return False
    return True


def raised(beta, variant, idx):
    """ the beta parameter (as live python value) raised according to the variant """
    import copy
    b = copy.deepcopy(beta)
    f = variant.get('factor', 2.0)
    def up(x): return min(beta_float(x) * f, 1.0)   # live per-step value (a number given as beta is held as ss.beta)
    if variant['kind'] == 'scale':
        if isinstance(b, dict):
            return {k: ([up(x) for x in v] if isinstance(v, (list, tuple)) else up(v)) for k, v in b.items()}
        return up(b)
    if variant['kind'] == 'zero-to-positive' and idx == variant['disease']:
        v = b[variant['key']]
        v = list(v) if isinstance(v, (list, tuple)) else [v, v]
        v[variant['dir']] = variant['value']
        b[variant['key']] = v
    return b


def monotone_case(cfg, k, variant, builder=None):
    """ Run to step k, fork, raise betas in the fork, take one step in both: new cases must grow. Returns failures. """
    import starsim as ss, sciris as sc
    cases = {}
    orig = ss.Infection.infect
    def w(d):
        out = orig(d)
        cases.setdefault(id(d.sim), {}).setdefault(d.name, []).append(set(int(x) for x in out[0]))
        return out
    ss.Infection.infect = w
    try:
        np.random.seed(cfg.get('rand_seed', 1))
        sim = (builder or build)(cfg); sim.init()
        for _ in range(k): sim.run_one_step()
        A = sc.dcp(sim); B = sc.dcp(sim)
        if variant['kind'] == 'lower-inplace':
            # the LOWER side is made by the user's own handle on the live parameter (`pars.beta *= f`, f in [0, 1], in place)
            ch = make_beta_sched([])
            for i, d in enumerate(A.diseases.values()):
                if isinstance(d, ss.Infection):
                    ch.change(d.pars, 'beta', variant.get('op', 'imul'), variant['factor'])
        else:
          for i, d in enumerate(B.diseases.values()):
            if isinstance(d, ss.Infection):
                d.pars.beta = raised(d.pars.beta, variant, i)
        st = np.random.get_state()
        A.run_one_step()
        np.random.set_state(st)
        B.run_one_step()
    finally:
        ss.Infection.infect = orig
    fails = []
    for name, la in cases.get(id(A), {}).items():
        lb = cases.get(id(B), {}).get(name, [])
        if la and lb:
            # the FIRST call after the fork starts from the same state with the same random numbers; a disease on a finer
            # timeline calls infect() again within the sim step, from states that already differ
            la = la[:1]; lb = lb[:1]
            lost = la[-1] - lb[-1]
            if variant['kind'] == 'lower-inplace' and variant['factor'] == 0 and la[-1]:
                fails.append(dict(signature=dict(oracle='zero-factor', factor='beta'),
                                  what=f"{name} step {k}: after `pars.beta {'*=' if variant.get('op', 'imul') == 'imul' else '.set'} 0` on every beta of the disease, infect() still "
                                       f"reports {len(la[-1])} new cases (e.g. agents {sorted(la[-1])[:6]}): infections crossed zero transmissibility"))
            if lost:
                boundary = 'zero-to-positive' if variant['kind'] == 'zero-to-positive' else 'lowered-to-zero' if (variant['kind'] == 'lower-inplace' and variant['factor'] == 0) else 'same-zeros'
                fails.append(dict(signature=dict(oracle='monotone-beta', boundary=boundary),
                                  what=f"{name} step {k}: from the same state and seed, raising beta ({variant}) infects {len(lb[-1])} agents instead of {len(la[-1])}, "
                                       f"but agents {sorted(lost)[:6]} infected at the lower beta are no longer infected"))
    return fails, (sum(len(x[0]) for x in cases.get(id(A), {}).values() if x), sum(len(x[0]) for x in cases.get(id(B), {}).values() if x))


def pool_churn_cfg(seed, variant):
    """ a mixing pool whose groups are explicit uid lists (fixed at construction), a disease that does not clear its
        flags on death (SIS has no step_die), and heavy background mortality: dead members must leave the groups """
    src, dst = [('uids_mid', 'uids_lo'), ('all', 'uids_hi')][variant % 2]
    return dict(family='pool', n_agents=90, rand_seed=1000 + int(seed) % 1000 + variant, dt=1.0, npts=9,
                networks=[dict(type='pool', src=src, dst=dst, beta=0.8, timepar=False, contacts=3, n_agents=90)],
                demographics=[dict(type='deaths', death_rate=250)],
                diseases=[dict(type='sis', init_prev=0.5, beta=dict(kind='scalar', v=0.3, tp=False))], rel=None)


def search(ctx):
    for f in c12_extra.oracle_boundary():
        ctx.fail(f['signature'], f['what'], dict(kind='boundary'))
    for f in oracle_unique():
        ctx.fail(f['signature'], f['what'], dict(kind='unique', arr=f['arr']))
    for f in oracle_netbeta():
        ctx.fail(f['signature'], f['what'], dict(kind='netbeta-unit', dts=f['dts']))
    for f in oracle_setbeta():
        ctx.fail(f['signature'], f['what'], dict(kind='setbeta-unit'))
    for j in range(ctx.budget(3, 12)):      # real AgeGroup objects called directly: membership now, for every cache setting
        seed = ctx.seed * 100 + 50 + j
        fails, ncalls, skipped = c12_groups.oracle_agegroup(seed, 40)
        ctx.count('agegroup_oracle_calls', ncalls); ctx.count('agegroup_cached_same_step_not_judged', skipped)
        for f in fails:
            ctx.fail(f['signature'], f['what'], dict(kind='agegroup', seed=seed, nops=40))
    n = ctx.budget(8, 60)
    fams = ['plain', 'sexual', 'maternal', 'pool', 'mixed', 'churn']
    ev = dict(events=0, kernel_calls=0, pool_cases=0)
    fixed = c12_extra.fixed_scenarios(ctx.seed + 1) + [pool_churn_cfg(ctx.seed, 0), pool_churn_cfg(ctx.seed, 1), c12_extra.poolsmix_cfg(ctx.seed, 1),
                                                       c12_extra.poolorder_cfg(ctx.seed, 1), c12_extra.poolbool_cfg(ctx.seed, 1),
                                                       c12_extra.betazero_cfg(ctx.seed, 1), c12_extra.betasched_cfg(ctx.seed, 2)]
    for k in range(n + len(fixed)):
        cfg = fixed[k] if k < len(fixed) else gen_cfg(ctx.rng, fams[k % len(fams)])
        try:
            fails, R = oracle_run(cfg)
        except Exception as e:
            ctx.broke('search', 'C12.oracle-run', f'generated sim raised {type(e).__name__}: {e}', data=dict(kind='sim', cfg=cfg))
            continue
        ctx.count('oracle_sims')
        ev['events'] += sum(len(r['out'][0]) for r in R.infects); ev['kernel_calls'] += sum(len(r['calls']) for r in R.infects)
        ev['pool_cases'] += sum(len(e['uids']) for r in R.pools for e in r['prog'])
        for f in fails:
            ctx.fail(f['signature'], f['what'], dict(kind='sim', cfg=cfg, oracle=f['signature']['oracle']))
    ctx.notes['oracle_events'] = ev
    # the precision switch: ss.options(precision=32) (int32 / float32 everywhere).  precision=64 cannot be exercised: with
    # float64 agent arrays multi_random.combine_rvs views 8-byte floats as uint32 and Infection.infect raises a shape error.
    try:
        pcfgs = [fixed[0], gen_cfg(ctx.rng, 'mixed'), gen_cfg(ctx.rng, 'pool')][:ctx.budget(2, 3)]
        res, err = c12_extra.run_precision(pcfgs, 32)
        if res is None:
            ctx.broke('search', 'C12.precision', f'precision-32 subprocess failed: {err}')
        else:
            ctx.notes['precision_run'] = [dict(dtype=r['dtype'], events=r['events'], fails=len(r['fails'])) for r in res]
            for cfg, r in zip(pcfgs, res):
                ctx.count('oracle_sims_precision32')
                for f in r['fails']:
                                        ctx.fail(f['signature'], '[precision=32] ' + f['what'], dict(kind='sim', cfg=cfg, oracle=f['signature']['oracle'], precision=32))
    except Exception as e:
        ctx.broke('search', 'C12.precision', f'{type(e).__name__}: {e}')
    # monotonicity: same zero pattern (must hold)
    m = ctx.budget(5, 40); done = 0; tries = 0
    while done < m and tries < 6 * m:
        tries += 1
        cfg = gen_cfg(ctx.rng, ctx.rng.choice(['plain', 'sexual', 'mixed', 'churn']))
        if not numeric_betas(cfg): continue
        cfg['rel'] = cfg['rel'] and dict(cfg['rel'])
        k = ctx.rng.randint(1, max(1, cfg['npts'] - 2))
        variant = dict(kind='scale', factor=ctx.rng.choice([1.5, 3.0, 10.0]))
        if done % 2 == 1:     # every second case: the lower side is produced through the public in-place handles (0 included)
            variant = dict(kind='lower-inplace', op=ctx.rng.choice(['imul', 'set']), factor=[0.0, 0.5][(done // 2) % 2])
            if variant['op'] == 'set' and variant['factor'] != 0: variant['op'] = 'imul'
        try:
            fails, sizes = monotone_case(cfg, k, variant)
        except Exception as e:
            ctx.broke('search', 'C12.monotone', f'monotone run raised {type(e).__name__}: {e}', data=dict(kind='monotone', cfg=cfg, k=k, variant=variant))
            done += 1; continue
        done += 1
        ctx.count('monotone_cases'); ctx.count('monotone_nontrivial', int(sizes[1] > sizes[0]))
        for f in fails:
            ctx.fail(f['signature'], f['what'], dict(kind='monotone', cfg=cfg, k=k, variant=variant))
    search_zoo(ctx)
    # the recorded finding: zero -> positive shifts the random stream of later directions
    try:
        fails, _ = monotone_case(KNOWN_MONOTONE['cfg'], KNOWN_MONOTONE['k'], KNOWN_MONOTONE['variant'])
        for f in fails:
            ctx.fail(f['signature'], f['what'], dict(kind='monotone', **KNOWN_MONOTONE))
    except Exception as e:
        ctx.broke('search', 'C12.monotone-known', f'{type(e).__name__}: {e}')


def search_zoo(ctx):
    """ every entry of the shared zoo that has a disease: the whole event-level oracle on the recorded run (targets susceptible and
        active, once per disease and step, sources infectious and joined over a positive-beta direction of that step's edges, zero
        factors, per-edge probability and net_beta, effective factors, outcomes only inside transmission windows, pool groups /
        destination / probability, TimePar betas of own-timestep diseases), plus one monotone-in-beta fork per entry """
    from harness import zoo
    ev = dict(events=0, kernel_calls=0, pool_cases=0)
    for i, (name, cfg) in enumerate(zoo.configs()):
        if not zoo_has_transmission(cfg):
            ctx.count('zoo_skipped_no_disease'); continue      # killer-only: no disease, nothing can be transmitted
        try:
            R = zoo_run_cached(name, cfg)
            fails = oracle_records(R, cfg)
        except Exception as e:
            ctx.count('zoo_exceptions'); ctx.notes['last_zoo_exception'] = f'{name}: {type(e).__name__}: {e}'; continue
        ctx.count('zoo_runs')
        ev['events'] += sum(len(r['out'][0]) for r in R.infects); ev['kernel_calls'] += sum(len(r['calls']) for r in R.infects)
        ev['pool_cases'] += sum(len(e['uids']) for r in R.pools for e in r['prog'])
        for f in fails:
            ctx.fail(f['signature'], f'[zoo:{name}] ' + f['what'], dict(kind='zoo-sim', name=name, cfg=cfg, oracle=f['signature']['oracle']))
        # monotone in beta: needs a network route with a non-zero beta to be meaningful; pools-only entries have disease beta unused
        nsteps = max((r['ti'] for r in R.infects), default=0)
        if not R.infects or not any(c for r in R.infects for c in r['calls']):
            ctx.count('zoo_monotone_not_applicable'); continue
        k = 1 + (i + ctx.seed) % max(1, min(nsteps, 4))
        variant = zoo_monotone_variant(cfg, i, ctx.seed)
        try:
            mf, sizes = monotone_case(cfg, k, variant, builder=zoo_build)
        except Exception as e:
            ctx.count('zoo_exceptions'); ctx.notes['last_zoo_exception'] = f'{name} (monotone): {type(e).__name__}: {e}'; continue
        ctx.count('zoo_monotone_runs'); ctx.count('zoo_monotone_nontrivial', int(sizes[1] > sizes[0]))
        for f in mf:
            ctx.fail(f['signature'], f'[zoo:{name}] ' + f['what'], dict(kind='zoo-monotone', name=name, cfg=cfg, k=k, variant=variant))
    ctx.notes['zoo_oracle_events'] = ev


def replay(ctx, data):
    if data.get('kind') == 'zoo-sim':
        fails = oracle_records(run_recorded_zoo(data['cfg']), data['cfg'])
        for f in fails: print('  ', f['signature'], f['what'][:300])
        want = data.get('oracle')
        return any(want is None or f['signature']['oracle'] == want for f in fails)
    if data.get('kind') == 'zoo-monotone':
        fails, sizes = monotone_case(data['cfg'], data['k'], data['variant'], builder=zoo_build)
        for f in fails: print('  ', f['signature'], f['what'][:300])
        return bool(fails)
    if data.get('kind') == 'boundary':
        fails = c12_extra.oracle_boundary()
        for f in fails: print('  ', f['what'][:300])
        return bool(fails)
    if data.get('kind') == 'unique':
        fails = oracle_unique([data['arr']] if data.get('arr') is not None else None)
        for f in fails: print('  ', f['what'][:300])
        return bool(fails)
    if data.get('kind') == 'netbeta-unit':
        fails = oracle_netbeta(tuple(data.get('dts') or (1.0, 0.25, 1 / 365)))
        for f in fails: print('  ', f['signature'], f['what'][:300])
        return bool(fails)
    if data.get('kind') == 'setbeta-unit':
        fails = oracle_setbeta()
        for f in fails: print('  ', f['signature'], f['what'][:300])
        return bool(fails)
    if data.get('kind') == 'agegroup':
        fails, _, _ = c12_groups.oracle_agegroup(data['seed'], data.get('nops', 40))
        for f in fails: print('  ', f['signature'], f['what'][:300])
        return bool(fails)
    if data.get('kind') == 'sim' and data.get('precision'):
        res, err = c12_extra.run_precision([data['cfg']], data['precision'])
        fails = res[0]['fails'] if res else []
        for f in fails: print('  ', f['signature'], f['what'][:300])
        return any(f['signature']['oracle'] == data.get('oracle') for f in fails)
    if data.get('kind') == 'sim':
        fails, _ = oracle_run(data['cfg'])
        want = data.get('oracle')
        for f in fails:
            print('  ', f['signature'], f['what'][:300])
        return any(want is None or f['signature']['oracle'] == want for f in fails) or (bool(fails) and want is None)
    if data.get('kind') == 'monotone':
        fails, sizes = monotone_case(data['cfg'], data['k'], data['variant'])
        for f in fails:
            print('  ', f['signature'], f['what'][:300])
        return bool(fails)
    return False
