"""
C16 round 6: the INDEX VALUES of data tables (reference times, age-bin starts) as the user WRITES them.

Hole closed: every table of rounds 1-5 was stamped with whole calendar years and whole-number age starts and was handed over as a
DataFrame, so anything on the way from the written table to the lookup (`ss.standardize_data`, the per-module `standardize_*_data`) could
coarsen, round, cast or re-key the index without any lookup changing.  Here the tables carry fractional reference times (mid-period
x.5, survey dates x.25 / x.75 / x.9, two rows inside one calendar year) and fractional age starts (0.5, 4.5, 49.5), arrive as DataFrame,
Series (MultiIndex) and dict, and every reference is computed from the table AS WRITTEN (never read back from the module's standardized
data):
  * `frac_table`   Deaths table: at EVERY time index of the module, every agent's per-step probability = written cell of
                   (nearest written stamp, sex, last written age start <= age) x rate_units x rel x step in years;
  * `frac_births`  Births year series: per-step probability = value of the nearest written stamp x step, at every time index;
  * `frac_fert`    Pregnancy table stamped mid-year (yearly spacing): row nearest to now - dur_pregnancy, written age bins;
  * `table_run`    consumption over a REAL run (`run_one_step`): one hot cell (stamp, sex, age start) with a rate that clips to 1 and zeros
                   elsewhere -> deaths on a step = living agents of that sex and bin iff the hot stamp is the nearest written one, else 0;
                   births only while the nearest written stamp has a positive crude birth rate.  Exact, no statistics.
A table that the unchanged tree accepts and that is rejected (exception) is reported as well (signature oracle=table-index, law=rejected).
Correspondence: `nearest` / `agebin` of the Lean model over the WRITTEN stamps / starts, then the model's number form at the chosen cell,
against the real per-step probability.
"""
import math
from fractions import Fraction as Fr
import numpy as np

U = 2.0 ** -53
FORMS = ['dataframe', 'series', 'dict']   # a dict is accepted for the fertility table only (Births / Deaths: the default is a time parameter, `set(**dict)` rejects it)
FORMS2 = ['dataframe', 'series']


def F(sig, what):
    return dict(signature=sig, what=what)


# ---------------------------------------------------------------------------
# scenarios (JSON-able)

STAMPS = [
    [2000.5, 2001.5, 2002.5],           # mid-year stamps
    [2000.5, 2001.75],                  # irregular survey dates
    [1999.75, 2000.25, 2001.9],         # two rows within ~ one year, one late
    [2000.0, 2000.5, 2001.0, 2002.25],  # half-year table: two rows in one calendar year
    [2000.4, 2002.6],                   # sparse
]
AGE_STARTS = [[0, 0.5, 1, 4.5, 15, 49.5, 65], [0, 2.5, 17.5, 40], [0, 50], [0.25, 12.75, 33.3]]
SIMS6 = [(['year', 0.25, 3], {}), (['year', 0.1, 3], {}), (['year', 0.5, 4], {}), (['year', 1 / 12, 3], {}), (['day', 30, 900], dict(unit='year', dt=0.2)),
         (['year', 1.0, 4], dict(unit='month', dt=3))]


def death_rows(stamps, starts, rng, hot=None):
    rows = dict(Time=[], Sex=[], AgeGrpStart=[], mx=[])
    for y in stamps:
        for s in ('Female', 'Male'):
            for g in starts:
                if hot is None: v = round(rng.uniform(0.001, 0.3), 4)
                else: v = 1000.0 if [y, s, g] == list(hot) else 0.0
                rows['Time'].append(y); rows['Sex'].append(s); rows['AgeGrpStart'].append(g); rows['mx'].append(v)
    return rows


def as_form(rows, form, index_cols, value_col):
    """ the same written table in one of the accepted input forms """
    import pandas as pd
    if form == 'dict': return {k: list(v) for k, v in rows.items()}
    df = pd.DataFrame(rows)
    if form == 'series': return df.set_index(index_cols)[value_col]
    return df


def nearest_set(stamps, now):
    """ all written stamps at minimal distance from now (a tie leaves both acceptable) """
    d = min(abs(y - now) for y in stamps)
    return [y for y in stamps if abs(y - now) <= d + 1e-9]


def scenarios(rng):
    out = []
    for k, (sim, mod) in enumerate(SIMS6):
        out.append(dict(sim=sim, mod=mod, stamps=STAMPS[k % len(STAMPS)] if k < len(STAMPS) else rng.choice(STAMPS), starts=AGE_STARTS[k % len(AGE_STARTS)], form=FORMS2[k % 2]))
    out.append(dict(sim=SIMS6[0][0], mod={}, stamps=rng.choice(STAMPS), starts=rng.choice(AGE_STARTS), form=rng.choice(FORMS2)))
    return out


# ---------------------------------------------------------------------------
# oracles

def _build(c16, kind, a, table, extra, n_agents=60):
    su, sdt, dur = a['sim']
    return c16.build(kind, su, sdt, dur, a['mod'], table, extra, n_agents=n_agents)


def _rejected(process, a, e):
    return [F(dict(oracle='table-index', process=process, form=a.get('form', 'dataframe'), law='rejected'),
              f"{process} table with reference times {a.get('stamps')} given as {a.get('form', 'dataframe')} is rejected: {type(e).__name__}: {str(e)[:160]}")]


def o_frac_table(a, c16):
    import starsim as ss
    from harness.props import c16_round2 as r2
    c06 = c16.c06
    ru = a.get('ru', 1e-3); rel = a.get('rel', 1); rows = a['table']; form = a.get('form', 'dataframe')
    try:
        sim, d = _build(c16, 'deaths', a, as_form(rows, form, ['Time', 'Sex', 'AgeGrpStart'], 'mx'), dict(rate_units=ru, rel_death=rel))
    except Exception as e:
        return _rejected('deaths', dict(a, stamps=sorted(set(rows['Time']))), e)
    ppl = sim.people
    stamps = sorted(set(rows['Time'])); starts = sorted(set(rows['AgeGrpStart']))
    cell = {(y, s_, g): v for y, s_, g, v in zip(rows['Time'], rows['Sex'], rows['AgeGrpStart'], rows['mx'])}
    step = c16.dt_year_exact(d.t.unit, d.t.dt)
    ages = np.array(ppl.age[ppl.auids], dtype=float); fem = np.array(ppl.female[ppl.auids])
    tis = a.get('tis') or list(range(min(d.t.npts, 48)))
    for ti in tis:
        if ti >= d.t.npts: continue
        r2.set_ti(sim, d, ti)
        now = float(sim.t.now('year'))
        ok_years = nearest_set(stamps, now)
        probs = np.asarray(ss.Deaths.make_death_prob_fn(d, sim, ppl.auids), dtype=float)
        for k in range(len(ages)):
            below = [g for g in starts if g <= ages[k]]
            wants = []
            for y in ok_years:
                rate = cell[(y, 'Female' if fem[k] else 'Male', below[-1])] if below else 0.0
                wants.append(min(max(c06.fr(np.float32(rate)) * c06.fr(ru) * c06.fr(rel) * step, 0), 1))
            if not any(c06.close(w, c06.fr(probs[k]), 2.0 ** -20, 1e-300) for w in wants):
                return [F(dict(oracle='table-index', process='deaths', form=form, law='wrong-entry'),
                          f"death-rate table ({form}; reference times {stamps}, age starts {starts}) in a module stepping {d.t.dt} {d.t.unit}: at {now:.4f} (ti={ti}) the "
                          f"{'female' if fem[k] else 'male'} agent aged {ages[k]:.3f} gets per-step probability {probs[k]!r}; the entry of the nearest reference time "
                          f"{ok_years[0]}, age start {below[-1] if below else '-inf'} gives {float(wants[0])!r}")]
    return []


def o_frac_births(a, c16):
    c06 = c16.c06
    from harness.props import c16_round2 as r2
    ru = a.get('ru', 1e-3); form = a.get('form', 'dataframe')
    rows = dict(Year=list(a['stamps']), CBR=list(a['vals']))
    try:
        sim, b = _build(c16, 'births', a, as_form(rows, form, ['Year'], 'CBR'), dict(rate_units=ru))
    except Exception as e:
        return _rejected('births', a, e)
    step = c16.dt_year_exact(b.t.unit, b.t.dt)
    for ti in a.get('tis') or range(min(b.t.npts, 48)):
        if ti >= b.t.npts: continue
        r2.set_ti(sim, b, ti)
        now = float(sim.t.now('year'))
        p = float(np.atleast_1d(np.asarray(c16.births_prob(b), dtype=float))[0])
        oks = nearest_set(a['stamps'], now)
        wants = [min(max(c06.fr(a['vals'][a['stamps'].index(y)]) * c06.fr(ru) * step, 0), 1) for y in oks]
        if not any(c06.close(w, c06.fr(p), 32 * U, 1e-300) for w in wants):
            return [F(dict(oracle='table-index', process='births', form=form, law='wrong-entry'),
                      f"birth-rate series ({form}) {dict(zip(a['stamps'], a['vals']))} in a module stepping {b.t.dt} {b.t.unit}: at {now:.4f} (ti={ti}) the per-step probability is "
                      f"{p!r}; the nearest reference time is {oks[0]} -> expected {float(wants[0])!r}")]
    return []


def o_frac_fert(a, c16):
    """ fertility table stamped y0+1/2, y0+3/2, ... (yearly spacing: the 1-year re-indexing keeps every written row), or irregularly (judged
        only where the sought time is at / beyond the first or last written stamp) """
    import starsim as ss
    from harness.props import c16_round2 as r2
    c06 = c16.c06
    ru = a.get('ru', 1e-3); rows = a['table']; form = a.get('form', 'dataframe')
    try:
        sim, pg = _build(c16, 'preg', a, as_form(rows, form, ['Time', 'AgeGrp'], 'ASFR'), dict(rate_units=ru), n_agents=120)
    except Exception as e:
        return _rejected('fertility', dict(a, stamps=sorted(set(rows['Time']))), e)
    ppl = sim.people; uids = ppl.female.uids
    step = c16.dt_year_exact(pg.t.unit, pg.t.dt)
    stamps = sorted(set(rows['Time'])); starts = sorted(set(rows['AgeGrp']))
    cell = {(y, g): v for y, g, v in zip(rows['Time'], rows['AgeGrp'], rows['ASFR'])}
    ages = np.array(ppl.age[uids], dtype=float); fec = np.array(pg.fecund[uids])
    regular = all(float(y - stamps[0]).is_integer() for y in stamps)
    for ti in a.get('tis') or range(min(pg.t.npts, 24)):
        if ti >= pg.t.npts: continue
        r2.set_ti(sim, pg, ti)
        now = float(pg.t.now('year')); shift = float(pg.pars.dur_pregnancy.to('year').values)
        oks = nearest_set(stamps, now - shift)
        if not regular:   # between irregular stamps the module interpolates on a yearly grid (not judged here); at or beyond the first / last written
            if stamps[0] < now - shift < stamps[-1]: continue   # time every reading (nearest row, interpolation held constant) gives the boundary row
            oks = [stamps[-1]] if now - shift >= stamps[-1] else [stamps[0]]
        pr = np.asarray(ss.Pregnancy.make_fertility_prob_fn(pg, sim, uids), dtype=float)
        for k in range(len(uids)):
            below = [g for g in starts + [max(starts) + 1] if g <= ages[k]]
            g = below[-1] if below else None
            elig = fec[k] and pg.pars.min_age <= ages[k] <= pg.pars.max_age
            wants = []
            for y in oks:
                if not elig or g is None or g == max(starts) + 1: wants.append(Fr(0))
                else: wants.append(min(max(c06.fr(np.float32(cell[(y, g)])) * c06.fr(ru) * step, 0), 1))
            if not any(c06.close(w, c06.fr(pr[k]), 2.0 ** -19, 1e-300) for w in wants):
                law = 'wrong-entry'
                try:   # classification of the failure only (the reference above never reads the module's data)
                    stored = [float(x) for x in pg.fertility_rate_data.index]
                    if any(all(abs(y - x) > 1e-9 for x in stored) for y in stamps): law = 'row-dropped-by-yearly-reindex'
                except Exception: pass
                return [F(dict(oracle='table-index', process='fertility', form=form, law=law),
                          f"fertility table ({form}; reference times {stamps}, age starts {starts}) in a module stepping {pg.t.dt} {pg.t.unit}, at {now:.4f} (ti={ti}): woman aged "
                          f"{ages[k]:.2f} has conception probability {pr[k]!r}; the row nearest to now-{shift} is {oks[0]}, age bin {g} -> expected {float(wants[0])!r}")]
    return []


def o_table_run(a, c16):
    """ a real run, step by step: which table entry is CONSUMED on which step (exact: the hot cell clips to probability 1, all others are 0) """
    import starsim as ss
    su, sdt, dur = a['sim']; form = a.get('form', 'dataframe'); stamps = list(a['stamps']); starts = list(a['starts']); hot = a['hot']
    rows = death_rows(stamps, starts, None, hot=hot)
    brow = dict(Year=stamps, CBR=list(a['cbr']))
    try:   # two sims: newborns of the same step would otherwise fall into the hot cell
        sims = []
        for mod in (ss.Deaths(death_rate=as_form(rows, form, ['Time', 'Sex', 'AgeGrpStart'], 'mx'), rate_units=1), ss.Births(birth_rate=as_form(brow, form, ['Year'], 'CBR'))):
            s_ = ss.Sim(n_agents=a.get('n', 400), unit=su, dt=sdt, dur=dur, demographics=mod, rand_seed=a.get('seed', 1), verbose=0)
            s_.init(); sims.append(s_)
    except Exception as e:
        return _rejected('deaths+births', a, e)
    sim, simb = sims
    dm = sim.demographics[0]; bm = simb.demographics[0]
    k_hot = starts.index(hot[2]); hi = starts[k_hot + 1] if k_hot + 1 < len(starts) else math.inf
    late = 0; late_steps = 0
    for ti in range(sim.t.npts):
        now = float(sim.t.now('year')); oks = nearest_set(stamps, now)
        ppl = sim.people
        age = np.array(ppl.age[ppl.auids], dtype=float); fem = np.array(ppl.female[ppl.auids])
        n_t = int(np.sum((fem == (hot[1] == 'Female')) & (age >= hot[2]) & (age < hi)))
        allowed = {n_t if y == hot[0] else 0 for y in oks}
        sim.run_one_step(); simb.run_one_step()
        gd = int(dm.results.new[ti]); gb = int(bm.results.new[ti])
        if gd not in allowed:
            return [F(dict(oracle='table-index', process='deaths', form=form, law='wrong-entry-consumed'),
                      f"run with a death-rate table ({form}; reference times {stamps}, age starts {starts}; only {hot} has a rate, which clips to 1) stepping {sdt} {su}: on the step at "
                      f"{now:.4f} {gd} agents died; the nearest reference time is {oks[0]}, so exactly {sorted(allowed)[0]} ({hot[1]} agents in the bin from {hot[2]}) must die")]
        cb = {a['cbr'][stamps.index(y)] for y in oks}
        if cb == {0.0} and gb != 0:
            return [F(dict(oracle='table-index', process='births', form=form, law='wrong-entry-consumed'),
                      f"run with a birth-rate series ({form}) {dict(zip(stamps, a['cbr']))} stepping {sdt} {su}: {gb} births on the step at {now:.4f} although the nearest reference time "
                      f"{oks[0]} has a crude birth rate of 0")]
        if 0.0 not in cb: late += gb; late_steps += 1
    if late_steps >= 4 and late == 0 and len(sim.people.auids) > 50:
        return [F(dict(oracle='table-index', process='births', form=form, law='wrong-entry-consumed'),
                  f"run with a birth-rate series ({form}) {dict(zip(stamps, a['cbr']))} stepping {sdt} {su}: no birth on any of the {late_steps} steps whose nearest reference time has a positive rate")]
    return []


ORACLES = dict(frac_table=o_frac_table, frac_births=o_frac_births, frac_fert=o_frac_fert, table_run=o_table_run)


def run_args(sc_, rng):
    stamps = sc_['stamps']; starts = sc_['starts']
    hot = [rng.choice(stamps[1:] if len(stamps) > 1 and rng.random() < 0.7 else stamps), rng.choice(['Female', 'Male']), rng.choice(starts)]
    cbr = [rng.choice([0.0, 40.0, 25.0]) for _ in stamps]
    if all(c == 0 for c in cbr): cbr[-1] = 40.0
    if all(c > 0 for c in cbr): cbr[0] = 0.0
    return dict(sim=sc_['sim'], stamps=stamps, starts=starts, hot=hot, cbr=cbr, form=sc_['form'], seed=rng.randint(1, 10 ** 6))


def search(ctx, c16, run_oracle):
    rng = ctx.rng
    for k, sc_ in enumerate(scenarios(rng)):
        base = dict(sim=sc_['sim'], mod=sc_['mod'], form=sc_['form'])
        run_oracle(ctx, 'frac_table', dict(base, table=death_rows(sc_['stamps'], sc_['starts'], rng), ru=rng.choice([1e-3, 1]), rel=rng.choice([1, 0.5])))
        run_oracle(ctx, 'frac_births', dict(base, form=FORMS2[(k + 1) % 2], stamps=sc_['stamps'], vals=[round(rng.uniform(5, 60), 1) for _ in sc_['stamps']]))
        if sc_['sim'][0] == 'year' and not sc_['mod']:
            run_oracle(ctx, 'table_run', run_args(dict(sc_, form=FORMS2[(k // 2) % 2]), rng))
    for k, (y0, n) in enumerate([(1999.5, 4), (2000.5, 2), (1998.25, 5)]):
        ages = sorted(rng.sample([15, 17.5, 20, 25, 30, 32.5, 40, 45], 4)); rows = dict(Time=[], AgeGrp=[], ASFR=[])
        for i in range(n):
            for g in ages:
                rows['Time'].append(y0 + i); rows['AgeGrp'].append(g); rows['ASFR'].append(round(rng.uniform(5, 250), 1))
        sim, mod = SIMS6[k]
        run_oracle(ctx, 'frac_fert', dict(sim=sim, mod=mod, table=rows, form=FORMS[k % 3]))
    st = rng.choice([[2000.5, 2001.75], [1999.75, 2000.25, 2001.9], [2000.0, 2000.5, 2001.0]]); rows = dict(Time=[], AgeGrp=[], ASFR=[])
    for y in st:   # irregular reference times
        for g in (15, 25, 35):
            rows['Time'].append(y); rows['AgeGrp'].append(g); rows['ASFR'].append(round(rng.uniform(5, 250), 1))
    run_oracle(ctx, 'frac_fert', dict(sim=['year', 0.25, 4], mod={}, table=rows, form=rng.choice(FORMS)))


# ---------------------------------------------------------------------------
# correspondence: the model's `nearest` / `agebin` over the WRITTEN stamps and starts, then its number form at that cell

def correspond(ctx, c16):
    import starsim as ss
    from harness.props import c16_round2 as r2
    c06 = c16.c06; rng = ctx.rng
    tn, to_, tu = c06.tok_num, c06.tok_opt, c06.tok_unit
    lines = []; recs = []
    for sc_ in scenarios(rng)[:4]:
        su, sdt, dur = sc_['sim']; stamps = sc_['stamps']; starts = sc_['starts']
        rows = death_rows(stamps, starts, rng)
        vals = [round(rng.uniform(5, 60), 1) for _ in stamps]
        try:
            sim, d = c16.build('deaths', su, sdt, dur, sc_['mod'], as_form(rows, sc_['form'], ['Time', 'Sex', 'AgeGrpStart'], 'mx'), dict(rate_units=1e-3))
            simb, b = c16.build('births', su, sdt, dur, sc_['mod'], as_form(dict(Year=stamps, CBR=vals), sc_['form'], ['Year'], 'CBR'), dict(rate_units=1e-3))
        except Exception as e:
            ctx.broke('correspondence', 'C16.frac-table', f"a table with reference times {stamps} ({sc_['form']}) is rejected: {type(e).__name__}: {str(e)[:120]}", data=dict(scenario=sc_))
            return
        cell = {(y, s_, g): v for y, s_, g, v in zip(rows['Time'], rows['Sex'], rows['AgeGrpStart'], rows['mx'])}
        ppl = sim.people; ages = np.array(ppl.age[ppl.auids], dtype=float); fem = np.array(ppl.female[ppl.auids])
        tis = sorted(rng.sample(range(min(d.t.npts, 40)), min(5, d.t.npts)))
        for ti in tis:
            r2.set_ti(sim, d, ti); r2.set_ti(simb, b, ti)
            now = float(sim.t.now('year'))
            if len(nearest_set(stamps, now)) > 1: continue   # a tie: either row is the nearest
            probs = np.asarray(ss.Deaths.make_death_prob_fn(d, sim, ppl.auids), dtype=float)
            pb = float(np.atleast_1d(np.asarray(c16.births_prob(b), dtype=float))[0])
            rec = dict(li=len(lines), stamps=stamps, starts=starts, cell=cell, vals=vals, agents=[], pb=pb, now=now, ti=ti, sc=sc_, rows=rows,
                       t=(d.t.unit, d.t.dt, sim.t.unit, sim.t.dt))
            lines.append(f"nearest {','.join(tn(y) for y in stamps)} {tn(now)}")
            for k in rng.sample(range(len(ages)), min(6, len(ages))):
                rec['agents'].append(dict(la=len(lines), age=float(ages[k]), sex='Female' if fem[k] else 'Male', p=float(probs[k])))
                lines.append(f"agebin {','.join(tn(g) for g in starts)} {tn(ages[k])}")
            recs.append(rec)
    if not lines: return
    out = c16.drive(ctx, lines)
    lines2 = []; idx = []
    for rec in recs:
        yi = int(out[rec['li']].split(' ')[1]); year = rec['stamps'][yi]
        mu, mdt, su_, sdt_ = rec['t']
        idx.append((len(lines2), rec, None, year, rec['vals'][yi]))
        lines2.append(f"number births {tu(mu)} {to_(mdt)} {tu(su_)} {to_(sdt_)} {tn(rec['vals'][yi])} {tn(1e-3)} {tn(1)}")
        for ag in rec['agents']:
            bi = int(out[ag['la']].split(' ')[1])
            rate = float(np.float32(rec['cell'][(year, ag['sex'], rec['starts'][bi - 1])])) if bi > 0 else 0.0
            idx.append((len(lines2), rec, ag, year, rate))
            lines2.append(f"number deaths {tu(mu)} {to_(mdt)} {tu(su_)} {to_(sdt_)} {tn(rate)} {tn(1e-3)} {tn(1)}")
    out2 = c16.drive(ctx, lines2)
    for li, rec, ag, year, rate in idx:
        m = c16.model_prob(out2[li]); p = rec['pb'] if ag is None else ag['p']
        ctx.case(('frac', lines2[li], rec['now'], None if ag is None else ag['age']), True,
                 sample=dict(kind='table with fractional reference times', now=rec['now'], year=year, rate=rate, model=out2[li]))
        ctx.count('cmp_frac_table')
        if isinstance(m, str) or not c06.close(m, c06.fr(p), 2.0 ** -20, 1e-300):
            who = 'births series' if ag is None else f"deaths table, {ag['sex']} aged {ag['age']:.3f}"
            ctx.broke('correspondence', 'C16.frac-table', f"{who} (reference times {rec['stamps']}, {rec['sc']['form']}) at {rec['now']:.4f}: real per-step probability {p!r}; the model picks "
                      f"the written reference time {year} and rate {rate} -> {out2[li]}", data=dict(scenario=rec['sc'], ti=rec['ti'], table=rec['rows'], vals=rec['vals'], agent=ag))
            return
