"""
C09 — Pausing, copying or saving a run never changes its outcome.

correspond(): operation scripts on real sims (generated configurations without global-generator readers; sometimes a
              disease on its own timestep): run(until) with stop times before/at/between/after time points (and the
              falsy 0), sim.run_one_step, loop.run_one_step bursts that land at arbitrary function boundaries (inside a
              step, right after step_die, between finish_steps), restores (same object / sc.dcp / pickle round trip /
              sim.save + ss.load), a twin fork (copy and original continued independently), operations after
              completion (run, finalize, run_one_step, loop.run_one_step) and occasionally a manual mid-run finalize.
              After every operation (loop.index, sim.ti, every module ti, complete, results_ready, error kind) is
              compared with Model/RunState.lean; at the end all results, agent states and network edges are compared
              with an uninterrupted reference run, exactly.
search():     the same differential on the real code only (no model) with pause points drawn from all function
              boundaries and every restore mode, plus the re-run / re-finalise guards (results must not change).
zoo:          every entry of harness/zoo.py on every run: one operation script in correspond() (control state vs the model, end
              state vs the reference) and one pause / restore / twin / stop-time / resume variant in search() (`oracle_zoo`).
"""
import os, pickle, tempfile, warnings
from fractions import Fraction
import numpy as np
from harness import impl
from harness.props import c08

PROP = 'C09'
GENERATED = ['PhaseOrder', 'LoopFacts', 'ClosureFacts']
DRIVER = 'Drivers/C09.lean'
DRIVER_MODULES = ['StarsimModel.Model.RunState', 'StarsimModel.Model.Loop', 'StarsimModel.Model.Proto']
RULE = ('generated sim configurations (impl.gen_sim_config without global-generator readers, pop_scale in {1, 2.5, 10}, '
        'sometimes a disease on half/double the sim timestep) x operation scripts of 3-9 operations drawn from run(until) / '
        'run_one_step / bursts of loop.run_one_step / restore in {none, deepcopy, pickle, save+load} / twin fork / post-completion '
        'operations / rare manual finalize. distinct = distinct (configuration, script); non-trivial = at least one pause strictly '
        'inside the plan and one real restore; plus every entry of the fixed scenario zoo (harness/zoo.py, 46 configurations) x 1 script')
TRUSTED = ['CPython copy/pickle and sciris dcp/save/load are exercised, not modelled: that a restored object graph is observationally '
           'equal is established by exact comparison of control state after every operation and of all results / agent states / '
           'network edges at the end (partial, DESIGN section 8)']
ASSUMPTIONS = ['configurations in which agents can die AND a network builds edges from array positions (ErdosRenyiNet, DiskNet: C14 finding) '
               'are excluded: Infection.infect then reads np.empty memory (Arr.asnew) at removed agents, which makes runs allocation-dependent',
               'configurations that read the process-global NumPy generator (C01 findings: Births, RandomNet with odd n_contacts, NCD, '
               'non-leaky sir_vaccine) are excluded: twins of such sims differ for a reason attributed to C01',
               'zoo entries of that kind (Births, NCD: births-own-dt, births-deaths, disk-births-deaths, pop-scale-fraction, own-people, ncd) '
               'are NOT skipped: their twin is continued with numpy.random restored to its state at the fork (search) / they get no twin (correspond)',
               'sim.run_one_step() with a falsy sim.now (numeric start 0) runs to the end of the plan: modelled as the code does it']

MODES = ['none', 'deepcopy', 'pickle', 'saveload']
OBSERVERS = ['to_json', 'shrink_copy', 'save_shrunk', 'repr', 'loop_df']


# ---------------------------------------------------------------------------
# configurations

DUR_DISTS = [None, None, ('weibull', 2.0, 4.5), ('gamma', 2.0, 2.0), ('scipy_beta', 2.0, 3.0, 8.0), ('normal', 5.0, 1.0), ('uniform', 1.0, 8.0),
             ('expon', 4.0), ('lognorm_im', 1.2, 0.4), ('histogram',)]


def make_dist(spec):
    """ A duration distribution of any family, NumPy-backed or SciPy-backed (the latter draw through scipy's frozen dist) """
    import starsim as ss, scipy.stats as sps
    k = spec[0]
    if k == 'weibull': return ss.weibull(c=spec[1], scale=spec[2])
    if k == 'gamma': return ss.gamma(a=spec[1], scale=spec[2])
    if k == 'scipy_beta': return ss.Dist(dist=sps.beta, a=spec[1], b=spec[2], scale=spec[3])
    if k == 'normal': return ss.normal(loc=spec[1], scale=spec[2])
    if k == 'uniform': return ss.uniform(low=spec[1], high=spec[2])
    if k == 'expon': return ss.expon(scale=spec[1])
    if k == 'lognorm_im': return ss.lognorm_im(mean=spec[1], sigma=spec[2])
    if k == 'histogram': return ss.histogram(values=[1, 3, 2, 1], bins=[1, 2, 4, 6, 9])
    raise ValueError(spec)


def gen_config(rng):
    cfg = impl.gen_sim_config(rng, small=True, allow_global_readers=False)
    cfg['pop_scale'] = rng.choice([None, 2.5, 10.0, 2.5])
    # (round 1 excluded ErdosRenyiNet/DiskNet together with deaths: /repo commit d09c6aa builds their edges from UIDs, so no more)
    if rng.random() < 0.25:
        extra = rng.choice([dict(type='erdosrenyi', p=0.05), dict(type='disk', r=0.2, v=0.1)])
        if not any(n['type'] == extra['type'] for n in cfg['networks']):
            cfg['networks'].append(extra)
    if rng.random() < 0.3 and cfg['unit'] == 'year':
        cfg['disease_dt_ratio'] = rng.choice([0.5, 2.0])
    # the diseases' duration distributions range over the distribution families (NumPy- and SciPy-backed)
    cfg['dur_dists'] = [rng.choice(DUR_DISTS) for _ in cfg['diseases']]
    return cfg


def fixed_config():
    """ Always-exercised configuration: SciPy-backed and NumPy-backed duration distributions, two diseases (one on half the
        sim timestep), random + MF + Erdos-Renyi networks, deaths and disease deaths, pop_scale != 1 """
    return dict(n_agents=120, rand_seed=4242, unit='year', dt=0.5, start=2000, dur=4.0, pop_scale=2.5, disease_dt_ratio=0.5,
                diseases=[dict(type='sir', beta=0.3, init_prev=0.2, dur_inf=5, p_death=0.3), dict(type='sis', beta=0.3, init_prev=0.2, dur_inf=5, waning=0.05)],
                dur_dists=[('weibull', 2.0, 4.5), ('gamma', 2.0, 2.0)],
                networks=[dict(type='random', n_contacts=4, dur=0), dict(type='mf', duration=3), dict(type='erdosrenyi', p=0.05)],
                demographics=[dict(type='deaths', death_rate=40)])


def _killer_class():
    """ impl.make_killer defines its Intervention class inside a function, so instances cannot be pickled BY PYTHON's rules
        (a local class has no importable name) — nothing starsim could do about it.  The same class (copied from
        impl.make_killer) is therefore created once here and registered under a module-level name, so that the pickle and
        save/load restore modes apply to the zoo's killer entries as well. """
    import starsim as ss
    if 'Killer' not in globals():
        class Killer(ss.Intervention):
            def __init__(self, p=0.05, **kw2):
                super().__init__(**kw2)
                self.define_pars(p_kill=ss.bernoulli(p=p))
            def step(self):
                uids = self.pars.p_kill.filter(self.sim.people.auids)
                if len(uids): self.sim.people.request_death(uids)
                return uids
        Killer.__module__ = __name__
        Killer.__qualname__ = 'Killer'
        globals()['Killer'] = Killer
    return globals()['Killer']


def build_zoo(cfg):
    """ a configuration in plain harness/impl.py format (the scenario zoo): impl.build_sim, with the interventions built here
        (same order) so that a `killer` is an instance of the picklable module-level copy of impl.make_killer's class """
    intv = []
    for i in cfg.get('interventions', []):
        if i['type'] == 'killer':
            intv.append(_killer_class()(i.get('p', 0.05), name=i.get('name', 'killer'), **impl._own_time(i)))
        else:
            intv.append(impl._intervention(i))
    return impl.build_sim(dict(cfg, interventions=[]), extra_interventions=intv)


def shared_config():
    """ Always-exercised configuration of the family "one helper object consulted by several scheduled functions of one step":
        ONE ss.AgeGroup (a callable with a per-step cache) is the source of one separately scheduled MixingPool, the destination
        of a second one and the eligibility of a routine vaccination; a second AgeGroup is shared by the second pool and a second
        vaccination; both pools share one ss.beta object and one product-free contacts family.  Deaths change the population
        between steps, so a stale cache shows. """
    return dict(shared='agegroups', n_agents=400, rand_seed=5, unit='year', dt=1.0, start=2000, dur=6, cut=15,
                disease=dict(beta=0.1, init_prev=0.1, dur_inf=4, p_death=0.1), pool_beta=0.3, contacts=3.0,
                vx=[dict(name='kids_vx', group='kids', prob=0.5, efficacy=0.9), dict(name='adult_vx', group='adults', prob=0.2, efficacy=0.7)],
                death_rate=30, dur_dists=None)


def build_shared(cfg):
    import starsim as ss
    kids = ss.AgeGroup(0, cfg['cut']); adults = ss.AgeGroup(cfg['cut'], None)
    groups = dict(kids=kids, adults=adults)
    beta = ss.beta(cfg['pool_beta'])
    school = ss.MixingPool(name='school', src=kids, dst=None, beta=beta, contacts=ss.poisson(lam=cfg['contacts']))
    home = ss.MixingPool(name='home', src=adults, dst=kids, beta=beta, contacts=ss.poisson(lam=cfg['contacts']))
    vxs = [ss.routine_vx(name=v['name'], eligibility=groups[v['group']], prob=v['prob'], product=ss.sir_vaccine(name=v['name'] + '_prod', efficacy=v['efficacy']))
           for v in cfg['vx']]
    d = cfg['disease']
    sir = ss.SIR(beta=ss.beta(d['beta']), init_prev=d['init_prev'], dur_inf=d['dur_inf'], p_death=d['p_death'])
    return ss.Sim(n_agents=cfg['n_agents'], rand_seed=cfg['rand_seed'], unit=cfg['unit'], dt=cfg['dt'], start=cfg['start'], dur=cfg['dur'], verbose=0,
                  diseases=sir, networks=[school, home], interventions=vxs, demographics=[ss.Deaths(death_rate=cfg['death_rate'])])


# ---------------------------------------------------------------------------
# the family "behaviour supplied by the user as a callable" (round 5).  Every function below is module-level (so that Python
# can pickle it by reference), keeps NO state of its own and acts only on the sim / module it is GIVEN: whatever a copied sim
# calls must therefore follow the copy.  They act at (almost) every step, so a pause anywhere lies before a later effect.

def _c09_record(sim, name, value):
    mod = sim.analyzers[name]
    if getattr(mod, 'record', None) is None:
        mod.record = np.full(int(sim.t.npts), np.nan)
    mod.record[int(sim.ti)] = value


def c09_protect(sim):
    """ intervention given as a plain function: every second step a moving slice of the living agents becomes immune """
    if sim.ti % 2 == 0:
        uids = sim.people.auids[(sim.ti // 2) % 5::5]
        sim.diseases.sir.rel_sus[uids] = 0.0


def c09_boost(sim):
    """ intervention made by Intervention.from_func: every third step the oldest infected transmit more """
    if sim.ti % 3 == 1:
        sir = sim.diseases.sir
        uids = (sir.infected & (sim.people.age > 35)).uids
        sir.rel_trans[uids] = sir.rel_trans[uids] * 1.5


def c09_count(sim):
    """ analyzer given as a plain function """
    sir = sim.diseases.sir
    _c09_record(sim, 'c09_count', float(np.count_nonzero(sir.rel_sus.raw[sim.people.auids] == 0.0)))


def c09_mean_age(sim):
    """ analyzer made by Analyzer.from_func """
    sir = sim.diseases.sir
    uids = sir.infected.uids
    _c09_record(sim, 'c09_mean_age', float(sim.people.age[uids].mean()) if len(uids) else -1.0)


def c09_pdeath(module, sim, uids):
    """ callable distribution parameter (called with the module, the sim and the uids at every draw) """
    return 0.03 + 0.25 * (np.asarray(sim.people.age[uids]) > 40) + 0.01 * (sim.ti % 4)


def c09_dur_mean(module, sim, uids):
    return 3.0 + 0.05 * np.asarray(sim.people.age[uids])


def c09_eligible(sim):
    """ eligibility given as a function of the sim """
    return (sim.people.age < 30 + sim.ti).uids


def _user_classes():
    """ the same behaviour as ordinary user-defined module classes (module-level names: picklable), holding the callable as an attribute """
    import starsim as ss
    if 'UserIntervention' not in globals():
        class UserIntervention(ss.Intervention):
            def __init__(self, rule=None, **kw):
                super().__init__(**kw)
                self.rule = rule
            def step(self):
                return self.rule(self.sim)
        class UserAnalyzer(ss.Analyzer):
            def __init__(self, rule=None, **kw):
                super().__init__(**kw)
                self.rule = rule
                self.record = None
            def step(self):
                return self.rule(self.sim)
        for c in (UserIntervention, UserAnalyzer):
            c.__module__ = __name__; c.__qualname__ = c.__name__
            globals()[c.__name__] = c
    return globals()['UserIntervention'], globals()['UserAnalyzer']


def callables_config(func_modules=True):
    """ Always-exercised configurations of the family "behaviour supplied as a callable": interventions and analyzers given as plain
        functions and via from_func (func_modules=True) or as user-defined classes holding the function (False), an eligibility
        function, callable distribution parameters, a network built by a graph-generator callable; deaths change the population """
    return dict(callables=True, func_modules=bool(func_modules), no_pickle=bool(func_modules), n_agents=300, rand_seed=11 if func_modules else 12,
                unit='year', dt=1.0, start=2000, dur=9, beta=0.08, init_prev=0.08, vx_prob=0.3, efficacy=0.8, death_rate=25, static_p=0.01, dur_dists=None)


def build_callables(cfg):
    import starsim as ss, networkx as nx
    sir = ss.SIR(beta=ss.beta(cfg['beta']), init_prev=ss.bernoulli(p=cfg['init_prev']), dur_inf=ss.normal(loc=c09_dur_mean, scale=1.0),
                 p_death=ss.bernoulli(p=c09_pdeath))
    vx = ss.routine_vx(name='young_vx', eligibility=c09_eligible, prob=cfg['vx_prob'], product=ss.sir_vaccine(name='young_vx_prod', efficacy=cfg['efficacy']))
    if cfg['func_modules']:
        intv = [c09_protect, ss.Intervention.from_func(c09_boost), vx]
        ana = [c09_count, ss.Analyzer.from_func(c09_mean_age)]
    else:
        UI, UA = _user_classes()
        intv = [UI(rule=c09_protect, name='c09_protect'), UI(rule=c09_boost, name='c09_boost'), vx]
        ana = [UA(rule=c09_count, name='c09_count'), UA(rule=c09_mean_age, name='c09_mean_age')]
    nets = [ss.RandomNet(n_contacts=ss.constant(4)), ss.StaticNet(graph=nx.fast_gnp_random_graph, p=cfg['static_p'])]
    return ss.Sim(n_agents=cfg['n_agents'], rand_seed=cfg['rand_seed'], unit=cfg['unit'], dt=cfg['dt'], start=cfg['start'], dur=cfg['dur'], verbose=0,
                  diseases=sir, networks=nets, interventions=intv, analyzers=ana, demographics=[ss.Deaths(death_rate=cfg['death_rate'])])


def build(cfg):
    """ impl.build_sim plus an optional own timestep / duration distribution for the diseases (copied from impl.build_sim, which
        has no such options) """
    import starsim as ss
    if cfg.get('shared'):
        return build_shared(cfg)
    if cfg.get('callables'):
        return build_callables(cfg)
    if 'dur_dists' not in cfg and 'disease_dt_ratio' not in cfg:
        return build_zoo(cfg)       # plain impl format (zoo entries); this module's own generators always set dur_dists
    pars = dict(n_agents=cfg['n_agents'], rand_seed=cfg.get('rand_seed', 1), verbose=0)
    for k in ('unit', 'dt', 'start', 'dur', 'stop', 'pop_scale'):
        if cfg.get(k) is not None:
            pars[k] = cfg[k]
    ds = [impl._disease(d) for d in cfg.get('diseases', [])]
    if cfg.get('disease_dt_ratio'):
        for d in ds:
            d.t.update(dt=cfg['dt'] * cfg['disease_dt_ratio'], unit=cfg['unit'])
    for d, spec in zip(ds, cfg.get('dur_dists') or []):
        if spec is not None:
            d.pars.dur_inf = make_dist(tuple(spec))
    pars['diseases'] = ds
    pars['networks'] = [impl._network(n, cfg['n_agents']) for n in cfg.get('networks', [])]
    dem = [impl._demog(d) for d in cfg.get('demographics', [])]
    if dem: pars['demographics'] = dem
    return ss.Sim(**pars)


def fresh_sim(cfg):
    with warnings.catch_warnings():
        warnings.simplefilter('ignore')
        sim = build(cfg)
        sim.init()
    return sim


# ---------------------------------------------------------------------------
# observation

def snapshot(sim):
    """ Everything the property speaks about at the end of a run: results, agent states, network edges """
    out = {}
    for k, v in impl.flat_results(sim).items():
        out['res:' + k] = v
    ppl = sim.people
    au = np.asarray(ppl.auids).copy()
    out['auids'] = au
    try:
        for name, st in ppl.states.items():
            out[f'people.{name}'] = np.asarray(st.raw[au]).copy()
    except Exception:
        pass
    for mod in sim.modules:
        for st in getattr(mod, 'states', []):
            try: out[f'{mod.name}.{st.name}'] = np.asarray(st.raw[au]).copy()
            except Exception: pass
        rec = getattr(mod, 'record', None)      # what a function-based / user-defined analyzer of this harness has written down
        if isinstance(rec, np.ndarray):
            out[f'{mod.name}.record'] = rec.copy()
    for net in sim.networks():
        try:
            for key in ('p1', 'p2', 'beta'):
                out[f'net.{net.name}.{key}'] = np.asarray(net.edges[key]).copy()
        except Exception:
            pass
    return out


def control(sim):
    return dict(index=int(sim.loop.index), ti=[int(sim.t.ti)] + [int(m.t.ti) for m in sim.modules],
                complete=int(bool(sim.complete)), ready=int(bool(sim.results_ready)))


def err_kind(e):
    import starsim as ss
    if isinstance(e, ss.sim.AlreadyRunError) or type(e).__name__ == 'AlreadyRunError':
        return 'E:AlreadyRun'
    return 'E:Other'


def restore(sim, mode, tmpdir):
    import starsim as ss, sciris as sc
    with warnings.catch_warnings():
        warnings.simplefilter('ignore')
        if mode == 'none':
            return sim
        if mode == 'deepcopy':
            return sc.dcp(sim)
        if mode == 'pickle':
            return pickle.loads(pickle.dumps(sim))
        if mode == 'saveload':
            fn = os.path.join(tmpdir, 'c09.sim')
            sim.save(fn, shrink=False) if sim.results_ready else sim.save(fn)
            out = ss.load(fn)
            os.remove(fn)
            return out
    raise ValueError(mode)


def observe(sim, kind, tmpdir):
    """ Read-only uses of a (paused or finished) sim: must leave it exactly as it was """
    if kind == 'to_json':
        try:
            sim.to_json(keys=['pars'] if not sim.results_ready else None)
        except TypeError:
            pass        # to_json cannot serialise some parameter objects (e.g. SciPy-backed Dists): not this property's business;
                        # what matters here is that the attempt leaves the sim as it was
    elif kind == 'shrink_copy':
        small = sim.shrink(inplace=False)
        assert small is not sim
    elif kind == 'save_shrunk':
        fn = os.path.join(tmpdir, 'c09_shrunk.sim')
        sim.save(fn, shrink=True)
        os.remove(fn)
    elif kind == 'repr':
        repr(sim); repr(sim.loop); str(sim.people)
    elif kind == 'loop_df':
        sim.loop.to_df()
    else:
        raise ValueError(kind)


def until_value(sim, spec):
    """ JSON-able stop-time spec -> (python value for sim.run, exact rational for the model) """
    import starsim as ss
    kind, v = spec
    if kind == 'none':
        return None, 'none'
    if kind == 'num':
        fr = Fraction(float(v))
        return float(v), f'{fr.numerator}/{fr.denominator}'
    if kind == 'date':
        d = ss.date(v)
        return d, str(d.toordinal())
    raise ValueError(kind)


def timevec_rats(sim):
    tv = sim.t.timevec
    out = []
    for x in tv:
        if hasattr(x, 'toordinal'):
            out.append(str(x.toordinal()))
        else:
            fr = Fraction(float(x))
            out.append(f'{fr.numerator}/{fr.denominator}')
    return out


# ---------------------------------------------------------------------------
# scripts

def gen_until(rng, sim):
    tv = sim.t.timevec
    numeric = not hasattr(tv[0], 'toordinal')
    j = rng.randrange(len(tv))
    r = rng.random()
    if numeric:
        dt = float(sim.t.dt)
        x = float(tv[j])
        if r < 0.5: v = x
        elif r < 0.7: v = x + 0.37 * dt
        elif r < 0.8: v = float(tv[0]) - dt
        elif r < 0.9: v = float(tv[-1]) + dt
        elif r < 0.95: v = 0.0
        else: v = 5.0          # the "until=5" of test_deepcopy_until: a calendar year far in the past
        return ('num', v)
    else:
        import datetime as dtm
        d = tv[j]
        off = rng.choice([0, 0, 1, -1, 400, -400])
        return ('date', (dtm.date(d.year, d.month, d.day) + dtm.timedelta(days=off)).isoformat())


def gen_ops(rng, sim, nplan, nfuncs, n, allow_twin=True, allow_finalize=True):
    ops = []
    for _ in range(n):
        r = rng.random()
        if r < 0.22:
            ops.append(['run', gen_until(rng, sim)])
        elif r < 0.37:
            ops.append(['step'])
        elif r < 0.67:
            # a burst of single functions: deliberately lands inside a step
            k = rng.choice([1, 2, 3, rng.randint(1, max(1, nfuncs)), rng.randint(1, max(1, 2 * nfuncs)), rng.randint(1, max(1, nplan))])
            ops.append(['lstep', int(k)])
        elif r < 0.84:
            ops.append(['restore', rng.choice(MODES[1:])])
        elif r < 0.88:
            # a copy of a copy: restores applied back to back, in either order
            for mode in rng.sample(MODES[1:], rng.choice([2, 3])):
                ops.append(['restore', mode])
        elif r < 0.92:
            ops.append(['observe', rng.choice(OBSERVERS)])
        elif r < 0.95 and allow_finalize:
            ops.append(['finalize'])
        else:
            ops.append(['restore', 'none'])
    return ops


def gen_script(rng, sim, nplan, nfuncs):
    ops = gen_ops(rng, sim, nplan, nfuncs, rng.randint(2, 6), allow_finalize=rng.random() < 0.15)
    # make sure at least one real restore strictly inside the run in most scripts
    if rng.random() < 0.8:
        ops.insert(0, ['lstep', rng.randint(1, max(1, nplan - 1))])
        ops.insert(1, ['restore', rng.choice(MODES[1:])])
    twin = None
    if rng.random() < 0.5:
        at = rng.randint(1, len(ops))
        twin = dict(at=at, mode=rng.choice(MODES[1:]), ops=gen_ops(rng, sim, nplan, nfuncs, rng.randint(0, 3), allow_finalize=False))
    tail = [['run', ('none', None)]]
    for _ in range(rng.choice([0, 1, 2, 3])):
        tail.append(rng.choice([['run', ('none', None)], ['finalize'], ['step'], ['lstep', 1], ['restore', rng.choice(MODES)],
                                ['run', gen_until(rng, sim)], ['observe', rng.choice(OBSERVERS)]]))
    return dict(ops=ops, twin=twin, tail=tail)


def without_pickle(script):
    """ the same script with every plain-pickle restore replaced by a deep copy: Python's pickle cannot serialise a module made by
        Module.from_func (its step is a function defined inside from_func), before anything has run and with or without a pause —
        a loud refusal, not a changed outcome; save+load (dill) and deep copies do apply """
    sub = lambda ops: [['restore', 'deepcopy'] if (o[0] == 'restore' and o[1] == 'pickle') else o for o in ops]
    twin = script['twin']
    if twin is not None:
        twin = dict(twin, mode='deepcopy' if twin['mode'] == 'pickle' else twin['mode'], ops=sub(twin['ops']))
    return dict(ops=sub(script['ops']), twin=twin, tail=sub(script['tail']))


def run_ops(sim, ops, tmpdir, lines, obs):
    """ Execute ops on a real sim, appending model lines and observations; returns the (possibly replaced) sim """
    for op in ops:
        kind = op[0]
        if kind == 'lstep':
            reps = [('lstep',)] * op[1]
        else:
            reps = [tuple(op)]
        for o in reps:
            res = 'ok'
            try:
                with warnings.catch_warnings():
                    warnings.simplefilter('ignore')
                    if o[0] == 'run':
                        val, txt = until_value(sim, o[1])
                        lines.append(f'run {txt}')
                        sim.run(until=val)
                    elif o[0] == 'step':
                        lines.append('step'); sim.run_one_step()
                    elif o[0] == 'lstep':
                        lines.append('lstep'); sim.loop.run_one_step()
                    elif o[0] == 'finalize':
                        lines.append('finalize'); sim.finalize()
                    elif o[0] == 'restore':
                        lines.append(f'restore {o[1]}'); sim = restore(sim, o[1], tmpdir)
                    elif o[0] == 'observe':
                        lines.append('observe'); observe(sim, o[1], tmpdir)
                    else:
                        raise ValueError(o)
            except Exception as e:
                res = err_kind(e)
                if res == 'E:Other' and o[0] != 'lstep':
                    res = f'E:Other({type(e).__name__}: {str(e)[:120]})'
            c = control(sim); c['res'] = res
            obs.append(c)
            if o[0] == 'lstep' and res != 'ok':
                break           # past the end of the plan: one refused call is enough
    return sim


def cfg_line(sim, desc):
    ml = c08.model_line(desc)            # "plan <mods> <tvecs>"
    _, ms, ts = ml.split(' ')
    return f"cfg {ms} {ts} {','.join(timevec_rats(sim))}"


def execute_script(cfg, script, tmpdir):
    """
    Run a script on real sims.  Returns dict(lines_a, obs_a, lines_b, obs_b, finals=[(label, snapshot, finalized_normally)],
    desc, nplan).  Twin: `a` is the original, `b` the copy.
    """
    sim = fresh_sim(cfg)
    desc = c08.describe(sim)
    head = cfg_line(sim, desc)
    ops, twin, tail = script['ops'], script['twin'], script['tail']
    la, oa = [head], [dict(control(sim), res='ok')]
    out = dict(desc=desc, nplan=len(sim.loop.plan), nfuncs=len(sim.loop.funcs))
    if twin is None:
        sim = run_ops(sim, ops + tail, tmpdir, la, oa)
        out.update(lines_a=la, obs_a=oa, lines_b=None, obs_b=None, finals=[('resumed', sim)])
        return out
    at = twin['at']
    sim = run_ops(sim, ops[:at], tmpdir, la, oa)
    lb, ob = list(la), list(oa)
    # fork
    try:
        copy = restore(sim, twin['mode'], tmpdir)
        lb.append(f"restore {twin['mode']}"); ob.append(dict(control(copy), res='ok'))
    except Exception as e:
        lb.append(f"restore {twin['mode']}"); ob.append(dict(control(sim), res=f'E:Other({type(e).__name__}: {str(e)[:120]})'))
        copy = None
    # continue the copy first, then the original (so that state shared between them shows in the original)
    if copy is not None:
        copy = run_ops(copy, twin['ops'] + tail, tmpdir, lb, ob)
    sim = run_ops(sim, ops[at:] + tail, tmpdir, la, oa)
    finals = [('original', sim)] + ([('copy', copy)] if copy is not None else [])
    out.update(lines_a=la, obs_a=oa, lines_b=lb, obs_b=ob, finals=finals)
    return out


def has_manual_finalize(script):
    return any(o[0] == 'finalize' for o in script['ops']) or any(o[0] == 'finalize' for o in (script['twin'] or {}).get('ops', []))


def parse_model(line):
    parts = line.split(' ')
    out = dict(res=parts[0])
    for p in parts[1:]:
        if '=' in p:
            k, v = p.split('=', 1); out[k] = v
    return out


def compare_obs(lines, obs, mlines):
    for i, (ln, o, ml) in enumerate(zip(lines, obs, mlines)):
        if ml == 'bad-op':
            return f'op {i} `{ln[:60]}`: model rejected the line'
        m = parse_model(ml)
        impl_res = o['res'] if not o['res'].startswith('E:Other(') else 'E:Other'
        if m['res'] != impl_res:
            return f"op {i} `{ln[:60]}`: outcome impl={o['res']} model={m['res']}"
        if int(m['index']) != o['index']:
            return f"op {i} `{ln[:60]}`: loop.index impl={o['index']} model={m['index']}"
        mti = [int(x) for x in m['ti'].split(',')]
        if mti != o['ti']:
            return f"op {i} `{ln[:60]}`: (sim.ti, module ti...) impl={o['ti']} model={mti}"
        if int(m['complete']) != o['complete']:
            return f"op {i} `{ln[:60]}`: complete impl={o['complete']} model={m['complete']}"
        if int(m['ready']) != o['ready']:
            return f"op {i} `{ln[:60]}`: results_ready impl={o['ready']} model={m['ready']}"
    return None


_ref_cache = {}


def reference(cfg):
    key = repr(sorted(cfg.items(), key=lambda kv: kv[0]))
    if key not in _ref_cache:
        if len(_ref_cache) > 4: _ref_cache.clear()
        sim = fresh_sim(cfg)
        with warnings.catch_warnings():
            warnings.simplefilter('ignore')
            sim.run()
        _ref_cache[key] = snapshot(sim)
    return _ref_cache[key]


def reads_global(cfg):
    """ does the OUTCOME of this configuration depend on the process-global NumPy generator (C01 findings: Births.get_births,
        NCD, RandomNet with an odd n_contacts, non-leaky sir_vaccine)?  Structural, because almost every run merely TOUCHES that
        generator (RandomNet's sc.randround of a whole number draws from it without using the draw) """
    return (any(d['type'] == 'births' for d in cfg.get('demographics', [])) or any(d['type'] in ('ncd', 'syphilis') for d in cfg.get('diseases', []))
            or any(n['type'] == 'random' and n.get('n_contacts', 4) % 2 for n in cfg.get('networks', []))
            or any(i['type'] == 'sir_vx' and i.get('leaky') is False for i in cfg.get('interventions', [])))


def final_diffs(cfg, ex, script):
    """ Compare the end state of every continued sim with the uninterrupted reference; list of (signature, what) """
    fails = []
    if has_manual_finalize(script):
        return fails
    ref = reference(cfg)
    for label, sim in ex['finals']:
        if not (sim.complete and sim.results_ready):
            fails.append((dict(oracle='resume', what='not-complete', who=label), f'the {label} sim did not complete after the final run()'))
            continue
        same, why = impl.arrays_equal(snapshot(sim), ref)
        if not same:
            fails.append((dict(oracle='resume', what='final-state-differs', who=label),
                          f'the {label} sim finishes with results/states different from the uninterrupted run: {why}'))
    return fails


# ---------------------------------------------------------------------------

def correspond(ctx):
    import starsim as ss
    nconf = ctx.budget(14, 60)
    per = 3
    all_lines = []; index = []
    from harness import zoo
    with tempfile.TemporaryDirectory(prefix='c09_') as tmpdir:
        # generated configurations (3 scripts each), then every entry of the scenario zoo (1 script each)
        todo = [(None, None)] * (nconf + 4) + list(zoo.configs())
        for ci, (zname, zcfg) in enumerate(todo):
            pre = f'[zoo:{zname}] ' if zname else ''
            try:
                cfg = zcfg if zname else (fixed_config() if ci == 0 else shared_config() if ci == 1 else callables_config(ci == 2) if ci in (2, 3) else gen_config(ctx.rng))
                probe = fresh_sim(cfg)
                nplan, nfuncs = len(probe.loop.plan), len(probe.loop.funcs)
                desc0 = c08.describe(probe)
            except Exception as e:
                if zname: ctx.count('zoo_exceptions'); ctx.notes['last_zoo_exception'] = f'{zname} (correspond): {type(e).__name__}: {e}'
                else: ctx.count('rejected_' + type(e).__name__)
                continue
            if not c08.separated(desc0, nfuncs):
                # (the model's plan order is C08's; entries whose module times are closer than the tie-break resolution are C08's business)
                ctx.count('zoo_skipped_not_separated' if zname else 'skipped_not_separated'); continue
            for _ in range(1 if zname else per):
                script = gen_script(ctx.rng, probe, nplan, nfuncs)
                if cfg.get('no_pickle'):
                    script = without_pickle(script)
                if zname and reads_global(cfg):
                    script['twin'] = None      # a twin of a sim whose outcome depends on the process-global generator is C01's finding
                try:
                    ex = execute_script(cfg, script, tmpdir)
                except Exception as e:
                    import traceback
                    if zname:
                        ctx.count('zoo_exceptions'); ctx.notes['last_zoo_exception'] = f'{zname} (correspond): {type(e).__name__}: {e}'; continue
                    ctx.broke('correspondence', 'C09.harness', f'executing a script raised {type(e).__name__}: {e}\n{traceback.format_exc()[-800:]}', data=dict(cfg=cfg, script=script))
                    continue
                if zname: ctx.count('zoo_scripts')
                for f_sig, f_what in final_diffs(cfg, ex, script):
                    ctx.fail(f_sig, pre + f_what, dict(kind='script', cfg=cfg, script=script))
                for tag in ('a', 'b'):
                    lines = ex[f'lines_{tag}']
                    if lines is None: continue
                    index.append((cfg, script, tag, len(all_lines), lines, ex[f'obs_{tag}'], pre))
                    all_lines += lines
                nontrivial = any(o[0] == 'restore' and o[1] != 'none' for o in script['ops']) or script['twin'] is not None
                ctx.case(('c09', repr(cfg), repr(script)), nontrivial,
                         sample=dict(cfg={k: cfg.get(k) for k in ('unit', 'dt', 'start', 'dur', 'n_agents', 'pop_scale')}, zoo=zname, plan=nplan,
                                     ops=script['ops'][:6], twin=(script['twin'] or {}).get('mode'), tail=script['tail']))
                for o in script['ops'] + script['tail'] + (script['twin'] or {}).get('ops', []):
                    ctx.count('op_' + o[0] + ('_' + o[1] if o[0] == 'restore' else ''))
                if script['twin']: ctx.count('twin_' + script['twin']['mode'])
        out = ctx.drive(DRIVER, all_lines) if all_lines else []
    for cfg, script, tag, off, lines, obs, pre in index:
        ml = out[off:off + len(lines)]
        div = compare_obs(lines, obs, ml)
        for o in obs:
            if o['res'].startswith('E:'): ctx.count('err_' + o['res'][:12])
        if div:
            ctx.broke('correspondence', 'C09.control', f'{pre}run-control state diverges from Model/RunState.lean ({"copy" if tag == "b" else "original"} line): {div}',
                      data=dict(cfg=cfg, script=script, lines=lines[1:40]))
            break


# ---------------------------------------------------------------------------
# oracle on the real code only

def foreign_refs(copy, orig):
    """ Object-graph form of "a restored copy is bound to ITSELF" (the model's `Binding.wellBound`): no scheduled function of the
        copy's plan may hold — as the receiver of a bound method, as an argument of a functools.partial, or in a closure cell — the
        original sim, its people, its loop or one of its modules.  Returns [(function label, which original object)]. """
    import functools
    if copy is orig:
        return []
    og = {id(orig): 'sim', id(orig.people): 'people', id(orig.loop): 'loop'}
    for m in orig.modules:
        og[id(m)] = f'module {m.name}'
    bad = []; seen = set()
    for label, f in zip(copy.loop.plan.func_label, copy.loop.plan.func):
        if label in seen: continue
        seen.add(label)
        refs = [getattr(f, '__self__', None)]
        g = f
        if isinstance(f, functools.partial):
            refs += list(f.args) + list((f.keywords or {}).values()); g = f.func
        g = getattr(g, '__func__', g)
        for cell in (getattr(g, '__closure__', None) or ()):
            try: refs.append(cell.cell_contents)
            except ValueError: pass
        for r in refs:
            if id(r) in og:
                bad.append((label, og[id(r)]))
    return bad


def oracle_pause(cfg, k, mode, twin, tmpdir, via='lstep', until=None):
    """ Pause after k functions (or, with `until`, by sim.run(until=...)), restore by `mode`, (twin: continue original as well), run
        to the end; compare with reference """
    fails = []
    sim = fresh_sim(cfg)
    with warnings.catch_warnings():
        warnings.simplefilter('ignore')
        if until is not None:
            sim.run(until=until_value(sim, tuple(until))[0])
            k = int(sim.loop.index)
        else:
            for _ in range(k):
                sim.loop.run_one_step()
        try:
            copy = restore(sim, mode, tmpdir)
        except Exception as e:
            return [(dict(oracle='resume', what='restore-raised', mode=mode), f'{mode} of a sim paused after {k} functions raised {type(e).__name__}: {e}')]
        pre = control(sim)
        if control(copy) != pre:
            fails.append((dict(oracle='resume', what='control-state-changed', mode=mode), f'{mode} after {k} functions changed the control state {pre} -> {control(copy)}'))
        bad = foreign_refs(copy, sim)
        if bad:
            fails.append((dict(oracle='resume', what='copy-calls-original', mode=mode),
                          f'{mode} after {k} functions: {len(bad)} scheduled function(s) of the copy still hold objects of the ORIGINAL sim, e.g. {bad[0][0]} -> {bad[0][1]}'))
        try:
            copy.run()
            if twin and copy is not sim:
                post = control(sim)
                if post != pre:
                    fails.append((dict(oracle='resume', what='copy-moves-original', mode=mode),
                                  f'running the {mode} copy (paused after {k} functions) changed the original: {pre} -> {post}'))
                sim.run()
        except Exception as e:
            fails.append((dict(oracle='resume', what='resume-raised', mode=mode), f'resuming after {k} functions + {mode} raised {type(e).__name__}: {e}'))
            return fails
    ref = reference(cfg)
    sims = [('copy', copy)] + ([('original', sim)] if twin and copy is not sim else [])
    for label, s in sims:
        same, why = impl.arrays_equal(snapshot(s), ref)
        if not same:
            fails.append((dict(oracle='resume', what='final-state-differs', mode=mode),
                          f'paused after {k} of {len(s.loop.plan)} functions, restored by {mode}: the {label} finishes different from the uninterrupted run: {why}'))
    return fails


def boundary_points(sim):
    """ One pause point of every boundary kind: before anything, after the very first function, inside a step (after a
        module's `step`), right after people.step_die, between two finish_steps, right after sim.finish_step (between
        steps), before the very last function, after it """
    labels = list(sim.loop.plan.func_label); names = list(sim.loop.plan.func_name)
    n = len(labels)
    pts = {'start': 0, 'after-first': 1, 'before-last': n - 1, 'end': n}
    mid = n // 3
    def first_after(pred, lo=mid):
        for i in range(lo, n):
            if pred(i): return i + 1
        return None
    pts['inside-step'] = first_after(lambda i: names[i] == 'step' and names[i + 1 if i + 1 < n else i] != 'finish_step')
    pts['after-step_die'] = first_after(lambda i: labels[i] == 'people.step_die')
    pts['between-finish_steps'] = first_after(lambda i: names[i] == 'finish_step' and i + 1 < n and names[i + 1] == 'finish_step' and not labels[i].startswith('people'))
    pts['after-sim-finish_step'] = first_after(lambda i: labels[i] == 'sim.finish_step')
    pts['after-start_step'] = first_after(lambda i: names[i] == 'start_step' and i + 1 < n and names[i + 1] != 'start_step')
    return {k: v for k, v in pts.items() if v is not None}


def oracle_until(cfg, spec):
    """ run(until=u) must stop right after the FIRST function after which u is truthy and sim.now > u (or at the end),
        and must not declare the sim complete before the plan is exhausted """
    fails = []
    a = fresh_sim(cfg); b = fresh_sim(cfg)
    val, _ = until_value(a, spec)
    n = len(a.loop.plan)
    with warnings.catch_warnings():
        warnings.simplefilter('ignore')
        try:
            a.run(until=val)
        except Exception as e:
            return [(dict(oracle='until', what='run-raised'), f'sim.run(until={spec[1]}) raised {type(e).__name__}: {e}')]
        expect = n
        for i in range(n):
            b.loop.run_one_step()
            if val and b.now > val:
                expect = i + 1; break
    if a.loop.index != expect:
        fails.append((dict(oracle='until', what='stop-point'), f'sim.run(until={spec[1]}) stopped after {a.loop.index} functions; the first function after which sim.now > until is #{expect} of {n}'))
    if bool(a.complete) != (a.loop.index == n):
        fails.append((dict(oracle='until', what='complete-flag'), f'after sim.run(until={spec[1]}): complete={a.complete} with {a.loop.index} of {n} functions executed'))
    return fails


def oracle_multisim(cfg, k):
    """ A paused sim handed to a MultiSim (which copies it): the copy it runs finishes like the uninterrupted run, the base
        stays paused where it was and can still be finished """
    import starsim as ss
    fails = []
    sim = fresh_sim(cfg)
    with warnings.catch_warnings():
        warnings.simplefilter('ignore')
        for _ in range(k): sim.loop.run_one_step()
        pre = control(sim)
        try:
            ms = ss.MultiSim(sims=[sim], inplace=False, shrink=False, reseed=False)
            ms.run(parallel=False)
            copy = ms.sims[0]
        except Exception as e:
            return [(dict(oracle='resume', what='multisim-raised'), f'MultiSim of a sim paused after {k} functions raised {type(e).__name__}: {e}')]
        if copy is sim:
            return fails
        if control(sim) != pre:
            fails.append((dict(oracle='resume', what='copy-moves-original', mode='multisim'), f'running a MultiSim copy of a sim paused after {k} functions changed the base: {pre} -> {control(sim)}'))
        try:
            sim.run()
        except Exception as e:
            fails.append((dict(oracle='resume', what='resume-raised', mode='multisim'), f'finishing the base sim after a MultiSim run raised {type(e).__name__}: {e}'))
            return fails
    ref = reference(cfg)
    for label, s_ in (('MultiSim copy', copy), ('base', sim)):
        same, why = impl.arrays_equal(snapshot(s_), ref)
        if not same:
            fails.append((dict(oracle='resume', what='final-state-differs', mode='multisim'), f'the {label} of a sim paused after {k} functions finishes different from the uninterrupted run: {why}'))
    return fails


def oracle_guards(cfg):
    """ A completed sim refuses run / finalize and its results do not change """
    import starsim as ss
    fails = []
    sim = fresh_sim(cfg)
    with warnings.catch_warnings():
        warnings.simplefilter('ignore')
        sim.run()
        before = snapshot(sim)
        for name, call in (('run', lambda: sim.run()), ('finalize', lambda: sim.finalize())):
            try:
                call()
                fails.append((dict(oracle='guard', what=f're-{name}-not-refused'), f'sim.{name}() on a completed sim did not raise AlreadyRunError'))
            except ss.sim.AlreadyRunError:
                pass
            except Exception as e:
                fails.append((dict(oracle='guard', what=f're-{name}-other-error'), f'sim.{name}() on a completed sim raised {type(e).__name__}: {e}'))
            same, why = impl.arrays_equal(snapshot(sim), before)
            if not same:
                fails.append((dict(oracle='guard', what=f're-{name}-changes-results'), f'sim.{name}() on a completed sim changed its results: {why}'))
                before = snapshot(sim)
        ctl = control(sim)
        if ctl['ti'][0] != sim.t.npts - 1:
            fails.append((dict(oracle='guard', what='final-ti'), f'after completion sim.ti = {ctl["ti"][0]} != npts-1 = {sim.t.npts - 1}'))
    return fails


# ---------------------------------------------------------------------------
# the scenario zoo (harness/zoo.py): the pause / restore / resume oracle on every entry, one variant each

ZOO_KINDS = ['after-step_die', 'after-people-update_results', 'before-finish_steps', 'between-finish_steps', 'after-people-finish_step',
             'inside-step', 'after-sim-finish_step']


def step_points(sim, s):
    """ pause points (number of executed functions) inside the s-th step of the sim's own timeline, by kind.  The first five lie
        between death resolution (people.step_die) and the end of the step (sim.finish_step): deaths resolved but not yet
        counted / counted but the dead not yet removed / some modules' clocks advanced and others not / the dead removed but
        the sim clock not yet advanced """
    labels = list(sim.loop.plan.func_label); names = list(sim.loop.plan.func_name)
    starts = [i for i, l in enumerate(labels) if l == 'sim.start_step']
    ends = [i for i, l in enumerate(labels) if l == 'sim.finish_step']
    s = max(0, min(s, len(starts) - 1, len(ends) - 1))
    lo, hi = starts[s], ends[s]
    rng = range(lo, hi + 1)
    def after(pred):
        for i in rng:
            if pred(i): return i + 1
        return None
    die = next((i for i in rng if labels[i] == 'people.step_die'), None)
    pts = {
        'inside-step': after(lambda i: names[i] == 'step' and not labels[i].startswith('people')),
        'after-step_die': after(lambda i: labels[i] == 'people.step_die'),
        'after-people-update_results': after(lambda i: labels[i] == 'people.update_results'),
        'before-finish_steps': after(lambda i: die is not None and i >= die and i + 1 <= hi and names[i] != 'finish_step' and names[i + 1] == 'finish_step'),
        'between-finish_steps': after(lambda i: names[i] == 'finish_step' and i + 1 <= hi and names[i + 1] == 'finish_step' and not labels[i].startswith('people')),
        'after-people-finish_step': after(lambda i: labels[i] == 'people.finish_step'),
        'after-sim-finish_step': hi + 1,
    }
    return {k: v for k, v in pts.items() if v is not None}, s


def zoo_plan(name, cfg, i, seed):
    """ the one variant of zoo entry number i: a pause after a single function inside a step (kind rotating; five of the seven
        kinds lie between death resolution and the end of the step), one restore mode (rotating), a second mid-step pause of
        another kind two steps later on the copy, and a pause via a stop time (at / between time points after the pause, or already in its past; rotating) on the original """
    probe = fresh_sim(cfg)
    npts = int(probe.t.npts)
    s1 = max(1, npts // 3)
    pts1, s1 = step_points(probe, s1)
    kinds1 = [k for k in ZOO_KINDS if k in pts1]
    kind = kinds1[(i + seed) % len(kinds1)]
    pts2, s2 = step_points(probe, min(s1 + 2, npts - 2))
    kinds2 = [k for k in ZOO_KINDS if k in pts2]
    kind2 = kinds2[(i + seed + 3) % len(kinds2)]
    k, k2 = pts1[kind], pts2[kind2]
    tv = probe.t.timevec
    j = min(npts - 1, s1 + 1 + (i + seed) % 3)
    between = ((i + seed) // 3) % 2 == 1
    if (i + seed) % 5 == 4:
        j = max(0, s1 - 1)          # a stop time already in the past of the pause: exactly one more function runs
    if hasattr(tv[0], 'toordinal'):
        import datetime as dtm
        d = tv[j]
        until = ('date', (dtm.date(d.year, d.month, d.day) + dtm.timedelta(days=1 if between else 0)).isoformat())
    else:
        until = ('num', float(tv[j]) + (0.37 * float(probe.t.dt) if between else 0.0))
    return dict(kind=kind, k=int(k), kind2=kind2, k2=int(k2) if k2 > k else None, mode=MODES[1 + (i + seed) % 3], until=list(until),
                # entries whose outcome depends on the process-global NumPy generator (C01 findings; by structure, since the
                # zoo's `global-rng` tag misses pop-scale-fraction, which has Births): that generator is not part of the Sim
                # object, so a twin of such a sim cannot be independent of its original (attributed to C01); the original is
                # continued from the generator state of the moment of the fork.  Everything else is checked as for any entry.
                shield=bool(reads_global(cfg)))


def oracle_zoo(cfg, plan, tmpdir):
    """
    One sim: single-step to a pause inside a step -> restore (twin fork) -> the COPY is single-stepped to the end (recording
    sim.now after every function), restored once more at a second mid-step point, finished with run(); the ORIGINAL must not
    have moved; it then does run(until=u) (the stop point is re-derived from the copy's trace of sim.now: right after the first
    function after which `u and sim.now > u`), is restored again at that stop and finished with run().  Both must end exactly
    like the uninterrupted reference run.
    """
    fails = []
    mode, k, kind = plan['mode'], plan['k'], plan['kind']
    sig = lambda what, **kw: dict(dict(oracle='resume', what=what, mode=mode, boundary=kind), **kw)
    ref = reference(cfg)
    sim = fresh_sim(cfg)
    n = len(sim.loop.plan)
    with warnings.catch_warnings():
        warnings.simplefilter('ignore')
        for _ in range(k):
            sim.loop.run_one_step()
        try:
            copy = restore(sim, mode, tmpdir)
        except Exception as e:
            return [(sig('restore-raised'), f'{mode} of a sim paused after {k} of {n} functions ({kind}) raised {type(e).__name__}: {e}')]
        pre = control(sim)
        if control(copy) != pre:
            fails.append((sig('control-state-changed'), f'{mode} after {k} functions ({kind}) changed the control state {pre} -> {control(copy)}'))
        bad = foreign_refs(copy, sim)
        if bad:
            fails.append((sig('copy-calls-original'), f'{mode} after {k} functions ({kind}): {len(bad)} scheduled function(s) of the copy still hold objects of the ORIGINAL sim, e.g. {bad[0][0]} -> {bad[0][1]}'))
        gstate = np.random.get_state() if plan.get('shield') else None
        # --- the copy: one function at a time to the end
        trace = {}
        try:
            for i in range(k, n):
                if plan.get('k2') is not None and i == plan['k2']:
                    copy = restore(copy, mode, tmpdir)
                copy.loop.run_one_step()
                trace[i] = copy.now
            copy.run()
        except Exception as e:
            fails.append((sig('resume-raised'), f'single-stepping / finishing the {mode} copy made after {k} of {n} functions ({kind}; restored again after {plan.get("k2")}) raised {type(e).__name__}: {e}'))
            return fails
        post = control(sim)
        if post != pre:
            fails.append((sig('copy-moves-original'), f'running the {mode} copy (paused after {k} functions, {kind}) changed the original: {pre} -> {post}'))
        if gstate is not None:
            np.random.set_state(gstate)
        # --- the original: a pause via a stop time, a restore at that pause, then to the end
        val, _ = until_value(sim, tuple(plan['until']))
        try:
            sim.run(until=val)
        except Exception as e:
            fails.append((dict(oracle='until', what='run-raised'), f'sim.run(until={plan["until"][1]}) on a sim paused after {k} functions raised {type(e).__name__}: {e}'))
            return fails
        expect = n
        for i in range(k, n):
            if val and trace[i] > val:
                expect = i + 1; break
        if sim.loop.index != expect:
            fails.append((dict(oracle='until', what='stop-point'), f'sim.run(until={plan["until"][1]}) from function {k} stopped after {sim.loop.index} functions; the first function after which sim.now > until is #{expect} of {n}'))
        if bool(sim.complete) != (sim.loop.index == n):
            fails.append((dict(oracle='until', what='complete-flag'), f'after sim.run(until={plan["until"][1]}): complete={sim.complete} with {sim.loop.index} of {n} functions executed'))
        stop_at = int(sim.loop.index)
        try:
            sim = restore(sim, mode, tmpdir)
            if not sim.complete:
                sim.run()
        except Exception as e:
            fails.append((sig('resume-raised'), f'{mode} + run() of the original stopped by until={plan["until"][1]} after {stop_at} of {n} functions raised {type(e).__name__}: {e}'))
            return fails
    for label, s_, how in (('copy', copy, f'single-stepped to the end, restored again after {plan.get("k2")} ({plan.get("kind2")})'),
                           ('original', sim, f'run(until={plan["until"][1]}) stopped after {stop_at}, restored by {mode}, run()')):
        if not (s_.complete and s_.results_ready):
            fails.append((dict(oracle='resume', what='not-complete', who=label), f'the {label} ({how}) did not complete after the final run()'))
            continue
        same, why = impl.arrays_equal(snapshot(s_), ref)
        if not same:
            fails.append((sig('final-state-differs'), f'paused after {k} of {n} functions ({kind}), restored by {mode}: the {label} ({how}) finishes different from the uninterrupted run: {why}'))
    return fails


def search_shared(ctx, tmpdir):
    """ helper objects shared by several scheduled functions of one step (shared_config): a pause at EVERY boundary of one whole
        step (so also between any two functions that consult the same object, whichever they are) x every copy-based restore
        (quick: all three modes between two acting functions `step` / `step_state`, one rotating mode at the other boundaries), twins on
        alternate boundaries """
    cfg = shared_config()
    try:
        probe = fresh_sim(cfg)
        labels = list(probe.loop.plan.func_label); names = list(probe.loop.plan.func_name)
        starts = [i for i, l in enumerate(labels) if l == 'sim.start_step']; ends = [i for i, l in enumerate(labels) if l == 'sim.finish_step']
        s = 2 + ctx.seed % 2
        ks = list(range(starts[s], ends[s] + 2))
    except Exception as e:
        ctx.count('shared_exceptions'); ctx.notes['last_shared_exception'] = f'{type(e).__name__}: {e}'; return
    for k in ks:
        acting = k < len(labels) and k > 0 and names[k - 1] in ('step', 'step_state') and names[k] in ('step', 'step_state')
        modes = MODES[1:] if (ctx.thorough or acting) else [MODES[1 + (k + ctx.seed) % 3]]
        for mode in modes:
            twin = k % 2 == 0
            try:
                fails = oracle_pause(cfg, k, mode, twin, tmpdir)
            except Exception as e:
                ctx.count('shared_exceptions'); ctx.notes['last_shared_exception'] = f'k={k} {mode}: {type(e).__name__}: {e}'; continue
            ctx.count('shared_pauses'); ctx.count('oracle_mode_' + mode)
            between = f'{labels[k - 1] if k else "-"} | {labels[k] if k < len(labels) else "-"}'
            for f_sig, f_what in fails:
                ctx.fail(dict(f_sig, boundary='step-sweep'), f'[shared-objects, between {between}] ' + f_what, dict(kind='pause', cfg=cfg, k=k, mode=mode, twin=twin))


def search_callables(ctx, tmpdir):
    """ behaviour supplied as a callable (callables_config): function-based interventions / analyzers (plain and from_func), an
        eligibility function, callable distribution parameters, a graph-generator callable.  The function-module configuration is
        paused right after init and at EVERY boundary of one whole step, restored by deepcopy / save+load alternately (both next to
        a function that runs user code), twins on alternate boundaries, plus pauses by a stop time and a MultiSim copy; the
        class-based twin configuration (picklable by plain pickle) at every third boundary with all three modes rotating. """
    for func_modules in (True, False):
        cfg = callables_config(func_modules)
        modes_ok = [m for m in MODES[1:] if not (cfg['no_pickle'] and m == 'pickle')]
        try:
            probe = fresh_sim(cfg)
            labels = list(probe.loop.plan.func_label); names = list(probe.loop.plan.func_name)
            starts = [i for i, l in enumerate(labels) if l == 'sim.start_step']; ends = [i for i, l in enumerate(labels) if l == 'sim.finish_step']
            s = 2 + ctx.seed % 3
            ks = [0] + list(range(starts[s], ends[s] + 2))
            if not func_modules and not ctx.thorough:
                ks = ks[(ctx.seed % 3)::3]
            tv = [float(x) for x in probe.t.timevec]
        except Exception as e:
            ctx.count('callables_exceptions'); ctx.notes['last_callables_exception'] = f'{type(e).__name__}: {e}'; continue
        user = lambda i: 0 <= i < len(labels) and names[i] in ('step', 'step_state') and not labels[i].startswith(('people', 'randomnet', 'staticnet', 'deaths'))
        todo = []
        for k in ks:
            near = user(k - 1) or user(k)
            modes = modes_ok if (ctx.thorough or (near and func_modules)) else [modes_ok[(k + ctx.seed) % len(modes_ok)]]
            todo += [(k, m, None) for m in modes]
        for j, u in enumerate([tv[s + 1], tv[s + 2] + 0.4, tv[0] - 1.0] if func_modules else [tv[s + 1] + 0.4]):
            todo.append((None, modes_ok[(j + ctx.seed) % len(modes_ok)], ['num', u]))
        for k, mode, until in todo:
            twin = (k or 0) % 2 == 0
            try:
                fails = oracle_pause(cfg, k, mode, twin, tmpdir, until=until)
            except Exception as e:
                ctx.count('callables_exceptions'); ctx.notes['last_callables_exception'] = f'k={k} until={until} {mode}: {type(e).__name__}: {e}'; continue
            ctx.count('callables_pauses'); ctx.count('oracle_mode_' + mode)
            where = f'stopped by run(until={until[1]})' if until else f'between {labels[k - 1] if k else "-"} | {labels[k] if k < len(labels) else "-"}'
            for f_sig, f_what in fails:
                ctx.fail(dict(f_sig, boundary='callables'), f'[user-callables{"" if func_modules else " (class-based)"}, {where}] ' + f_what,
                         dict(kind='pause', cfg=cfg, k=k, mode=mode, twin=twin, until=until))
        if func_modules:
            k = next((i + 1 for i in range(starts[s], ends[s]) if user(i)), starts[s] + 1)
            try:
                for f_sig, f_what in oracle_multisim(cfg, k):
                    ctx.fail(dict(f_sig, boundary='callables'), '[user-callables] ' + f_what, dict(kind='multisim', cfg=cfg, k=k))
                ctx.count('callables_multisim')
            except Exception as e:
                ctx.count('callables_exceptions'); ctx.notes['last_callables_exception'] = f'multisim: {type(e).__name__}: {e}'


def search_zoo(ctx, tmpdir):
    """ every zoo configuration under one pause / restore / resume variant (rotating with the entry number and the seed) """
    from harness import zoo
    for i, (name, cfg) in enumerate(zoo.configs()):
        try:
            plan = zoo_plan(name, cfg, i, ctx.seed)
            fails = oracle_zoo(cfg, plan, tmpdir)
        except Exception as e:
            ctx.count('zoo_exceptions'); ctx.notes['last_zoo_exception'] = f'{name}: {type(e).__name__}: {e}'; continue
        ctx.count('zoo_runs'); ctx.count('zoo_boundary_' + plan['kind']); ctx.count('zoo_mode_' + plan['mode'])
        for f_sig, f_what in fails:
            ctx.fail(f_sig, f'[zoo:{name}] ' + f_what, dict(kind='zoo', name=name, cfg=cfg, plan=plan))


def search(ctx):
    nconf = ctx.budget(6, 30)
    with tempfile.TemporaryDirectory(prefix='c09s_') as tmpdir:
        # inputs a broken correspondence pointed at: replay them on the real code (final comparison)
        for b in ctx.broken:
            d = b.get('data') or {}
            if isinstance(d, dict) and 'script' in d and 'cfg' in d:
                try:
                    ex = execute_script(d['cfg'], d['script'], tmpdir)
                    for sig, what in final_diffs(d['cfg'], ex, d['script']):
                        ctx.fail(sig, what, dict(kind='script', cfg=d['cfg'], script=d['script']))
                except Exception:
                    pass
        # --- always exercised: every boundary kind x every restore mode on the fixed configuration (SciPy-backed dists,
        #     two timelines, deaths, Erdos-Renyi), stop times of every kind, a MultiSim copy
        fx = fixed_config()
        probe = fresh_sim(fx)
        pts = boundary_points(probe)
        for j, (kind, k) in enumerate(sorted(pts.items())):
            for mode in (MODES[1:] if ctx.thorough else [MODES[1 + (j + ctx.seed) % 3], MODES[1 + (j + ctx.seed + 1) % 3]]):
                for f_sig, f_what in oracle_pause(fx, k, mode, j % 2 == 0, tmpdir):
                    ctx.fail(dict(f_sig, boundary=kind), f'[{kind}] ' + f_what, dict(kind='pause', cfg=fx, k=k, mode=mode, twin=j % 2 == 0))
                ctx.count('boundary_' + kind); ctx.count('oracle_mode_' + mode)
        tvv = [float(x) for x in probe.t.timevec]
        for spec in [('num', tvv[2]), ('num', tvv[3] + 0.1), ('num', tvv[0] - 1.0), ('num', tvv[-1]), ('num', tvv[-1] + 3.0), ('num', tvv[-2]), ('num', 5.0), ('num', 0.0)]:
            for f_sig, f_what in oracle_until(fx, spec):
                ctx.fail(f_sig, f_what, dict(kind='until', cfg=fx, spec=list(spec)))
            ctx.count('oracle_until')
        for f_sig, f_what in oracle_multisim(fx, pts.get('inside-step', 10)):
            ctx.fail(f_sig, f_what, dict(kind='multisim', cfg=fx, k=pts.get('inside-step', 10)))
        ctx.count('oracle_multisim')
        for f_sig, f_what in oracle_guards(fx):
            ctx.fail(f_sig, f_what, dict(kind='guards', cfg=fx))
        # --- always exercised: objects shared by several scheduled functions of one step, every boundary of a step
        search_shared(ctx, tmpdir)
        # --- always exercised: behaviour supplied as a callable (function-based modules, callable parameters / eligibility / graph)
        search_callables(ctx, tmpdir)
        # --- always exercised: the fixed zoo of unusual-but-valid configurations
        search_zoo(ctx, tmpdir)
        for i in range(nconf):
            cfg = gen_config(ctx.rng)
            if i == 0:
                cfg['pop_scale'] = 2.5
            try:
                probe = fresh_sim(cfg)
            except Exception:
                ctx.count('oracle_rejected'); continue
            nplan = len(probe.loop.plan); nf = len(probe.loop.funcs)
            for f_sig, f_what in oracle_guards(cfg):
                ctx.fail(f_sig, f_what, dict(kind='guards', cfg=cfg))
            ctx.count('oracle_guard_runs')
            ks = sorted({ctx.rng.randint(1, nplan - 1), ctx.rng.randint(1, min(nplan - 1, 2 * nf)), ctx.rng.randint(0, nplan)})
            if ctx.thorough and nplan <= 300:
                ks = list(range(0, nplan + 1, max(1, nplan // 40)))
            if i < 2:
                spec = gen_until(ctx.rng, probe)
                for f_sig, f_what in oracle_until(cfg, spec):
                    ctx.fail(f_sig, f_what, dict(kind='until', cfg=cfg, spec=list(spec)))
                ctx.count('oracle_until')
            for k in ks:
                mode = ctx.rng.choice(MODES[1:]) if not ctx.thorough else MODES[1 + (k % 3)]
                twin = ctx.rng.random() < 0.5
                for f_sig, f_what in oracle_pause(cfg, k, mode, twin, tmpdir):
                    ctx.fail(f_sig, f_what, dict(kind='pause', cfg=cfg, k=k, mode=mode, twin=twin))
                ctx.count('oracle_pauses'); ctx.count('oracle_mode_' + mode)


def replay(ctx, data):
    with tempfile.TemporaryDirectory(prefix='c09r_') as tmpdir:
        kind = data.get('kind')
        if kind == 'pause':
            fails = oracle_pause(data['cfg'], data['k'], data['mode'], data.get('twin', False), tmpdir, until=data.get('until'))
        elif kind == 'guards':
            fails = oracle_guards(data['cfg'])
        elif kind == 'until':
            fails = oracle_until(data['cfg'], tuple(data['spec']))
        elif kind == 'multisim':
            fails = oracle_multisim(data['cfg'], data['k'])
        elif kind == 'script':
            ex = execute_script(data['cfg'], data['script'], tmpdir)
            fails = final_diffs(data['cfg'], ex, data['script'])
        elif kind == 'zoo':
            fails = oracle_zoo(data['cfg'], data['plan'], tmpdir)
        else:
            fails = []
    for sig, what in fails:
        print('  ', what)
    return bool(fails)
