"""
SimCore — whole-run correspondence of the COMPOSED step model (lean/StarsimModel/Model/SimCore.lean) with real SIR runs.

The Lean model composes, in the order regenerated from `Loop.collect_funcs`, the per-agent SIR functions regenerated from
`starsim/diseases/sir.py` with hand-written `People` death handling, `remove_dead`, `grow` and the `update_results`
formulas of `People`, `Disease` and `Infection`.  It does not compute WHO is infected / born / dies of other causes: those
events are recorded here from the real run and handed to the model; everything downstream of the events is compared
exactly: every row of `n_alive`, `new_deaths`, `cum_deaths`, `n_susceptible`, `n_infected`, `n_recovered`,
`new_infections`, `cum_infections`, `prevalence` (as the float of the model's exact quotient), and at the end every agent
ever created: `alive`, membership of `auids`, `people.ti_dead`, the three flags and the three timers (exact rationals).

The statements proved about the model for all event histories (Props/C13.lean, section "whole runs") are also evaluated
here on the REAL results (S + I + R = n_alive in every row; no `set_prognoses` on a non-susceptible agent).
"""
from fractions import Fraction
import numpy as np

DRIVER = 'Drivers/SimCore.lean'
MODULES = ['StarsimModel.Model.SimCore', 'StarsimModel.Model.Proto']

FIXED = [
    dict(name='sir-random-deaths', n=120, seed=3, dur=14, dt=1.0, net='random', beta=0.25, init_prev=0.15, dur_inf=4.0, p_death=0.3, births=0, deaths=25),
    dict(name='sir-births-deaths-halfstep', n=90, seed=5, dur=9, dt=0.5, net='random', beta=0.4, init_prev=0.2, dur_inf=2.5, p_death=0.5, births=40, deaths=30),
    dict(name='sir-static-nodeath', n=80, seed=7, dur=12, dt=1.0, net='static', beta=0.5, init_prev=0.1, dur_inf=3.0, p_death=0.0, births=0, deaths=0),
    dict(name='sir-mf-lethal', n=100, seed=11, dur=10, dt=1.0, net='mf', beta=0.9, init_prev=0.3, dur_inf=1.5, p_death=1.0, births=20, deaths=0),
    # few births per step and a high death rate: the agent with the highest identifier dies before a further birth (seed C107b: identifier reuse)
    dict(name='sir-top-uid-dies-then-birth', n=60, seed=17, dur=30, dt=1.0, net='random', beta=0.3, init_prev=0.2, dur_inf=3.0, p_death=0.2, births=60, deaths=120),
    dict(name='sir-erdosrenyi-quarter', n=70, seed=13, dur=4, dt=0.25, net='erdosrenyi', beta=0.6, init_prev=0.25, dur_inf=1.0, p_death=0.4, births=35, deaths=35),
]


def gen_cfg(rng, k):
    return dict(name=f'gen{k}', n=rng.randint(40, 160), seed=rng.randint(1, 10**6), dur=rng.choice([6, 10, 15]), dt=rng.choice([1.0, 1.0, 0.5, 0.25, 2.0]),
                net=rng.choice(['random', 'static', 'mf', 'erdosrenyi']), beta=rng.choice([0.1, 0.3, 0.6, 0.95]), init_prev=rng.choice([0.05, 0.2, 0.5]),
                dur_inf=rng.choice([0.7, 2.0, 5.0]), p_death=rng.choice([0.0, 0.1, 0.5, 1.0]), births=rng.choice([0, 0, 30, 60]), deaths=rng.choice([0, 20, 50]))


def build(cfg):
    import starsim as ss
    nets = dict(random=lambda: ss.RandomNet(n_contacts=4), static=lambda: ss.StaticNet(n_contacts=4), mf=lambda: ss.MFNet(),
                erdosrenyi=lambda: ss.ErdosRenyiNet(p=0.05))
    sir = ss.SIR(beta=ss.beta(cfg['beta']), init_prev=cfg['init_prev'], dur_inf=ss.lognorm_ex(mean=ss.dur(cfg['dur_inf']), std=ss.dur(max(0.3, cfg['dur_inf'] / 2))),
                 p_death=cfg['p_death'])
    dem = []
    if cfg['births']: dem.append(ss.Births(birth_rate=cfg['births']))
    if cfg['deaths']: dem.append(ss.Deaths(death_rate=cfg['deaths']))
    pars = dict(n_agents=cfg['n'], rand_seed=cfg['seed'], start=2000, dur=cfg['dur'], dt=cfg['dt'], unit='year', diseases=sir, networks=nets[cfg['net']](), verbose=0)
    if dem: pars['demographics'] = dem
    return ss.Sim(**pars)


def frac(x):
    x = float(x)
    if x != x: return None
    return Fraction(x)


def show_time(x):
    f = frac(x)
    if f is None: return 'nan'
    return str(f.numerator) if f.denominator == 1 else f'{f.numerator}/{f.denominator}'


def zoo_candidates():
    """ zoo entries inside the composed model's scope: one SIR on the sim's clock, demographics only plain Births / Deaths on
        the sim's clock, no interventions, no population scaling """
    from harness import zoo, impl
    out = []
    for name, cfg in zoo.configs():
        ds = cfg.get('diseases', [])
        if len(ds) != 1 or ds[0]['type'] != 'sir' or any(k in ds[0] for k in impl.TIME_KEYS) or isinstance(ds[0].get('beta'), dict): continue
        if cfg.get('interventions') or cfg.get('pop_scale') or cfg.get('total_pop') or cfg.get('own_people'): continue
        if any(d['type'] not in ('births', 'deaths') or any(k in d for k in impl.TIME_KEYS) or 'death_table' in d for d in cfg.get('demographics', [])): continue
        if any(any(k in n for k in impl.TIME_KEYS) or n['type'] == 'agepools' for n in cfg.get('networks', [])): continue
        out.append(dict(name='zoo:' + name, zoo=name, seed=cfg.get('rand_seed', 1)))
    return out


def record(cfg):
    """ run the real simulation with the event sources wrapped; return (initial agents, events per step, sim) """
    import starsim as ss
    np.random.seed(cfg['seed'])
    if cfg.get('zoo'):
        from harness import zoo, impl
        sim = impl.build_sim(zoo.configs(names=[cfg['zoo']])[0][1])
    else:
        sim = build(cfg)
    sim.init()
    sir = sim.diseases[0]
    ppl = sim.people
    n0 = len(ppl.uid.raw)
    au = set(int(u) for u in ppl.auids)

    def agent_line(u):
        bits = ''.join('1' if bool(getattr(sir, f).raw[u]) else '0' for f in ('susceptible', 'infected', 'recovered'))
        return (f"agent {int(bool(ppl.alive.raw[u]))} {int(u in au)} {show_time(ppl.ti_dead.raw[u])} {bits} "
                f"{show_time(sir.ti_infected.raw[u])} {show_time(sir.ti_recovered.raw[u])} {show_time(sir.ti_dead.raw[u])}")

    n_init = int(max(ppl.auids)) + 1 if len(ppl.auids) else 0
    init_lines = [f'init {int(sim.ti)}'] + [agent_line(u) for u in range(n_init)]
    events = {}
    flag = dict(in_sir=False, late=0)

    def ev(ti):
        return events.setdefault(int(ti), dict(births=0, background=[], calls=[], died=False))

    SIR, People = type(sir), type(ppl)
    o_sp, o_ss, o_rd, o_grow, o_sd = SIR.set_prognoses, SIR.step_state, People.request_death, People.grow, People.step_die

    def w_sp(self, uids, sources=None):
        us = [int(u) for u in np.asarray(uids)]
        ti = self.t.ti
        before = {u: (frac(self.ti_recovered.raw[u]), frac(self.ti_dead.raw[u])) for u in us}
        r = o_sp(self, uids, sources)
        call = []
        for u in us:
            rec, dead = frac(self.ti_recovered.raw[u]), frac(self.ti_dead.raw[u])
            wd = dead is not None and dead != before[u][1] or (dead is not None and rec == before[u][0] and rec is None)
            t = dead if wd else rec
            d = (t - Fraction(int(ti))) if t is not None else Fraction(0)
            call.append((u, d, bool(wd)))
        ev(self.sim.ti)['calls'].append(call)
        return r

    def w_ss(self):
        flag['in_sir'] = True
        try: return o_ss(self)
        finally: flag['in_sir'] = False

    def w_rd(self, uids):
        if not flag['in_sir']:
            e = ev(self.sim.ti)
            if e['died']: flag['late'] += 1
            e['background'] += [int(u) for u in np.asarray(uids)]
        return o_rd(self, uids)

    def w_grow(self, n=None, new_slots=None):
        r = o_grow(self, n, new_slots)
        ev(self.sim.ti)['births'] += len(r)
        return r

    def w_sd(self):
        e = ev(self.sim.ti)
        e['died'] = True
        e['background_before_die'] = list(e['background'])
        return o_sd(self)

    Sim = type(sim)
    o_fs = Sim.finish_step
    snaps = [dict(ti=None, n_ids=int(ppl.uid.len_used), alive=np.array(ppl.alive.raw[:ppl.uid.len_used], dtype=bool), active=set(au))]
    SNAPS[0] = snaps

    def w_fs(self):
        p = self.people
        n = int(p.uid.len_used)
        snaps.append(dict(ti=int(self.ti), n_ids=n, alive=np.array(p.alive.raw[:n], dtype=bool), active=set(int(u) for u in p.auids)))
        return o_fs(self)

    SIR.set_prognoses, SIR.step_state, People.request_death, People.grow, People.step_die = w_sp, w_ss, w_rd, w_grow, w_sd
    # the loop's plan holds bound methods taken at init: the scheduled functions are wrapped in the plan itself
    plan = sim.loop.plan
    for k in range(len(plan)):
        f = plan.func[k]
        fn, owner = getattr(f, '__func__', None), getattr(f, '__self__', None)
        if fn is o_fs and owner is sim:
            plan.at[k, 'func'] = (lambda: w_fs(sim))
        elif fn is o_sd and owner is ppl:
            plan.at[k, 'func'] = (lambda: w_sd(ppl))
    try:
        sim.run()
    finally:
        SIR.set_prognoses, SIR.step_state, People.request_death, People.grow, People.step_die = o_sp, o_ss, o_rd, o_grow, o_sd
    return init_lines, events, sim, flag['late'], len(au)


def step_line(e):
    bg = ','.join(str(u) for u in e['background']) or '-'
    calls = '|'.join(';'.join(f"{u}:{d.numerator}/{d.denominator}:{int(w)}" for u, d, w in c) for c in e['calls']) if e['calls'] else '-'
    if e['calls'] and all(len(c) == 0 for c in e['calls']): calls = '-'
    return f"step {e['births']} {bg} {calls}"


def real_rows(sim):
    r = sim.results; d = r[sim.diseases[0].name]
    rows = []
    for ti in range(len(r.n_alive)):
        rows.append(dict(ti=ti, n_alive=int(r.n_alive[ti]), new_deaths=int(r.new_deaths[ti]), cum_deaths=int(r.cum_deaths[ti]),
                         nS=int(d.n_susceptible[ti]), nI=int(d.n_infected[ti]), nR=int(d.n_recovered[ti]),
                         new_inf=int(d.new_infections[ti]), cum_inf=int(d.cum_infections[ti]), prev=float(d.prevalence[ti])))
    return rows


def compare(cfg, out, init_lines, events, sim):
    """ -> list of differences between the model's answers and the real simulation """
    diffs = []
    n_lines = len(init_lines)
    if any(o.split()[0] != 'ok' for o in out[:n_lines]):
        return [f'the model rejected the initial state: {[o for o in out[:n_lines] if not o.startswith("ok")][:2]}']
    rows = real_rows(sim)
    nsteps = len(rows)
    for ti in range(nsteps):
        o = out[n_lines + ti].split()
        if o[0] != 'ok' or len(o) != 12:
            diffs.append(f'step {ti}: model answered `{" ".join(o)}`'); break
        m = dict(ti=int(o[1]), n_alive=int(o[2]), new_deaths=int(o[3]), cum_deaths=int(o[4]), nS=int(o[5]), nI=int(o[6]), nR=int(o[7]), new_inf=int(o[8]), cum_inf=int(o[9]))
        pn, pd = o[10].split('/')
        with np.errstate(all='ignore'):
            m['prev'] = float(np.float64(int(pn)) / np.float64(int(pd))) if True else 0.0
        r = rows[ti]
        for k in m:
            same = (m[k] == r[k]) or (k == 'prev' and m[k] != m[k] and r[k] != r[k])
            if not same:
                diffs.append(f"step {ti}: {k}: model {m[k]} vs simulation {r[k]}")
        if o[11] != 'bad=0':
            diffs.append(f'step {ti}: set_prognoses was called on an agent that was not susceptible and active')
        if len(diffs) > 6: break
    # final agents
    dump = out[n_lines + nsteps]
    ppl = sim.people; sir = sim.diseases[0]
    au = set(int(u) for u in ppl.auids)
    agents = dump[3:].split(';') if dump.startswith('ok ') and dump != 'ok -' else []
    ntot = len(ppl.uid.raw)
    # raw arrays may be longer than the number of agents ever created (growth in chunks): compare the agents the model has
    for u, a in enumerate(agents):
        f = a.split(',')
        real = [str(int(bool(ppl.alive.raw[u]))), str(int(u in au)), show_time(ppl.ti_dead.raw[u]),
                ''.join('1' if bool(getattr(sir, k).raw[u]) else '0' for k in ('susceptible', 'infected', 'recovered')),
                show_time(sir.ti_infected.raw[u]), show_time(sir.ti_recovered.raw[u]), show_time(sir.ti_dead.raw[u])]
        if f != real:
            diffs.append(f'agent {u} after the run: model {f} vs simulation {real} (alive, active, people.ti_dead, SIR flags, ti_infected, ti_recovered, ti_dead)')
            if len(diffs) > 8: break
    created = (max(au) + 1 if au else 0)
    if len(agents) < created:
        diffs.append(f'the model has {len(agents)} agents, the simulation has active uids up to {created - 1}')
    return diffs


SNAPS = [None]   # per-step snapshots of the last `record` call (identifier count, alive flags, active set at the end of each step)


def life_statements(snaps, events):
    """ C10_composed_dense_ids / _death_permanent / _active_alive / _request_same_step (Lemmas/SimCoreLife.lean) evaluated on
        the end-of-step snapshots of the real run """
    bad = []
    for prev, cur in zip(snaps, snaps[1:]):
        ti = cur['ti']
        e = events.get(ti, {})
        b = e.get('births', 0)
        if cur['n_ids'] != prev['n_ids'] + b:
            bad.append(f"step {ti}: {prev['n_ids']} identifiers before, {b} agents created, {cur['n_ids']} identifiers after")
        n = min(prev['n_ids'], cur['n_ids'])
        back = np.flatnonzero(~prev['alive'][:n] & cur['alive'][:n])
        if len(back):
            bad.append(f"step {ti}: agent {int(back[0])} was dead at the end of the previous step and is alive again")
        ret = sorted(u for u in cur['active'] if u < prev['n_ids'] and u not in prev['active'])
        if ret:
            bad.append(f"step {ti}: agent {ret[0]} had been removed from the active set and is active again")
        zombies = sorted(u for u in cur['active'] if u < cur['n_ids'] and not cur['alive'][u])
        if zombies:
            bad.append(f"step {ti}: agent {zombies[0]} is in the active set at the end of the step but is not alive")
        for u in e.get('background_before_die', []):
            if (u in prev['active'] or prev['n_ids'] <= u < cur['n_ids']) and (u in cur['active'] or cur['alive'][u]):
                bad.append(f"step {ti}: death of active agent {u} was requested before deaths were resolved, but at the end of the step "
                           f"alive={bool(cur['alive'][u])}, active={u in cur['active']}")
                break
    return bad


def real_statements(sim, events=None, n_active0=None):
    """ the theorems' statements evaluated on the real results alone: C13_run_rows_balanced and C10_composed_run_balance """
    bad = []
    prev = n_active0
    for r in real_rows(sim):
        if r['nS'] + r['nI'] + r['nR'] != r['n_alive']:
            bad.append(f"step {r['ti']}: n_susceptible + n_infected + n_recovered = {r['nS'] + r['nI'] + r['nR']} but n_alive = {r['n_alive']}")
        if events is not None and prev is not None:
            b = events.get(r['ti'], {}).get('births', 0)
            if r['n_alive'] + r['new_deaths'] != prev + b:
                bad.append(f"step {r['ti']}: n_alive + new_deaths = {r['n_alive']} + {r['new_deaths']} but there were {prev} active agents before the step and {b} births")
        prev = r['n_alive']
    snaps = SNAPS[0]
    if events is not None and n_active0 is not None and snaps and len(snaps) > 1:
        # C10_composed_conservation on the real run: active at the end + recorded deaths = active at the start + births
        rows = real_rows(sim)
        deaths, births = sum(r['new_deaths'] for r in rows), sum(e.get('births', 0) for e in events.values())
        if len(snaps[-1]['active']) + deaths != n_active0 + births:
            bad.append(f"whole run: {len(snaps[-1]['active'])} active agents at the end + {deaths} recorded deaths, but {n_active0} active at the start + {births} births")
    return bad


def run_cfg(ctx, cfg):
    init_lines, events, sim, late, n_active0 = record(cfg)
    nsteps = len(sim.results.n_alive)
    lines = list(init_lines)
    for ti in range(nsteps):
        lines.append(step_line(events.get(ti, dict(births=0, background=[], calls=[]))))
    lines.append('dump')
    out = ctx.drive(DRIVER, lines)
    snaps = SNAPS[0]
    return compare(cfg, out, init_lines, events, sim), real_statements(sim, events, n_active0 if late == 0 else None) + life_statements(snaps, events), dict(steps=nsteps, agents=len(init_lines) - 1,
        infections=sum(len(c) for e in events.values() for c in e['calls']), background=sum(len(e['background']) for e in events.values()),
        births=sum(e['births'] for e in events.values()), late=late)


def correspond(ctx):
    order = ctx.drive(DRIVER, ['order'])
    ctx.notes['simcore_schedule'] = order[0][3:] if order else None
    cfgs = [dict(c) for c in FIXED] + [gen_cfg(ctx.rng, k) for k in range(ctx.budget(3, 20))] + zoo_candidates()
    ctx.notes['simcore_zoo_entries'] = [c['zoo'] for c in cfgs if c.get('zoo')]
    tot = dict(steps=0, agents=0, infections=0, background=0, births=0, late=0)
    for cfg in cfgs:
        try:
            diffs, stm, stats = run_cfg(ctx, cfg)
        except Exception as e:
            ctx.count('simcore_exceptions'); ctx.notes['simcore_last_exception'] = f"{cfg['name']}: {type(e).__name__}: {e}"
            ctx.broke('correspondence', 'C13.simcore', f"{cfg['name']}: recording / driving raised {type(e).__name__}: {e}", data=dict(kind='simcore', cfg=cfg))
            continue
        for k in tot: tot[k] += stats[k]
        ctx.count('simcore_runs')
        ctx.case(('simcore', tuple(sorted((k, str(v)) for k, v in cfg.items()))), stats['infections'] > 0, sample=dict(kind='simcore-run', cfg=cfg, **stats))
        if diffs:
            ctx.broke('correspondence', 'C13.simcore', f"[{cfg['name']}] the composed step model (Model/SimCore.lean) and the simulation differ: " + '; '.join(diffs[:4]),
                      data=dict(kind='simcore', cfg=cfg, diffs=diffs[:8]))
        for s in stm[:1]:
            ctx.fail(dict(oracle='simcore-balance', disease='sir'), f"[{cfg['name']}] {s}", dict(kind='simcore', cfg=cfg))
    ctx.notes['simcore_totals'] = tot


def replay(ctx, data):
    _, events, sim, late, n0 = record(data['cfg'])
    bad = real_statements(sim, events, n0 if late == 0 else None) + life_statements(SNAPS[0], events)
    for b in bad[:2]: print('  ' + b)
    return bool(bad)
