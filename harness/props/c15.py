"""
C15 — Reported results are exact counts, sums and scalings of agent state.

correspond():  generated sims (sir/sis on their own timelines, deaths / pregnancy, pop_scale and total_pop forms) are run
               with every `update_results` of the loop plan wrapped: just before the module records, a probe copies the
               raw per-agent arrays (alive, ti_dead, disease flags, ti_infected over the active uids).  The Lean model
               (Model/Results.lean via Drivers/C15.lean) recomputes every series from those snapshots and the raw
               (pre-finalize) store, applies finalize / summarize / exports, and is compared with the real arrays,
               summary, to_df, to_json, shrink and save+load.  Also validate_total_pop and the summary rule.
search():      the property on the real code only: independent recounts, running sums, flows, prevalence bounds,
               scaled-vs-unscaled twins (exactly k x), exports vs arrays, finalize-once, summary rule.
"""
import os, json, tempfile, fractions, copy, zlib
import numpy as np
from harness import impl

PROP = 'C15'
GENERATED = ['ResultsTable']
DRIVER = 'Drivers/C15.lean'
DRIVER_MODULES = ['StarsimModel.Model.Results', 'StarsimModel.Model.Proto']
RULE = ('every run: 9 fixed scenario sims (cum_deaths witness; SIS + deaths with total_pop; module name containing n_; dying pregnant mother; '
        'disease and births on a finer timeline than the sim (2); fractional factor 2.5 with births + deaths + ErdosRenyi + custom analyzer on a coarser '
        'timeline + custom intervention; total_pop < n_agents with pregnancy, StaticNet and a coarser SIS; everybody dies) + generated sims: 60-250 agents, '
        '4-10 steps, 1-2 of SIR/SIS (optionally on a coarser or finer timeline, optionally with a name containing a key of the summary table), 1-2 networks, '
        'deaths / pregnancy / births (births on a finer timeline half of the time), optionally a custom analyzer / intervention declaring results via '
        'define_results, population scale given as nothing / integer pop_scale / float pop_scale (incl. < 1) / total_pop (integer ratio, fractional ratio, '
        'fewer people than agents). One case = one sim; distinct = distinct configuration; non-trivial = at least one death or infection recorded and a '
        'factor != 1. Per sim: recount of every people / disease series from per-agent snapshots, population-flow machine, op machine (finalize, rates, '
        'summary, exports). Plus random validate_total_pop inputs (incl. total_pop < n_agents). Plus the shared scenario zoo (harness/zoo.py, 46 fixed '
        'configurations built by impl.build_sim) on every run: search() applies every oracle to each entry as given and to one scaled variant of it '
        '(rotating scale forms; the entry as given is the unscaled twin); correspond() follows the scaled variant (recount, op machine, flows) with all '
        'driver lines of the zoo in one driver call per stage.')
TRUSTED = ['NumPy: count_nonzero / sum / cumsum / true division of int64 arrays; float64 product of an integer count and the scale factor is compared exactly when representable, else within 4 ulp (counted)',
           'sciris save/load, pandas DataFrame construction (values read back and compared with the arrays)']
ASSUMPTIONS = ['the probe reads Arr.raw[auids] directly; that `auids` are the active agents is property C10/C11',
               'module timelines: a module records at its own steps 0,1,2,... in order (property C08)']

F = fractions.Fraction
RTOL = 4 * 2.0 ** -52


# ---------------------------------------------------------------------------
# configurations

SCALE_FORMS = ['none', 'pop_scale_int', 'pop_scale_float', 'total_pop_int', 'total_pop_frac', 'total_pop_small']
TRICKY_NAMES = ['strain_a', 'sin_x', 'newvar_b', 'main_z']


def gen_cfg(rng, tricky=0.25, timelines=0.5, forms=None):
    cfg = impl.gen_sim_config(rng, small=True, allow_global_readers=False)
    # births (global-generator reader; run_probed seeds np.random, so twins stay comparable), sometimes on a finer timeline
    if not any(d['type'] == 'pregnancy' for d in cfg['demographics']) and rng.random() < 0.35:
        b = dict(type='births', birth_rate=rng.choice([30, 80, 200]))
        if rng.random() < 0.5:
            b.update(unit=cfg['unit'], dt=cfg['dt'] / rng.choice([2, 4]) if cfg['unit'] == 'year' else 1.0)
        cfg['demographics'] = [b] + cfg['demographics']
    # a custom analyzer / intervention declaring its own results (the scale rule applies to them too), sometimes on its own timeline
    if rng.random() < 0.5:
        cfg['custom'] = [dict(kind=rng.choice(['analyzer', 'intervention']), dt_mult=rng.choice([None, None, 2]))]
    # own timelines for the diseases
    for d in cfg['diseases']:
        if rng.random() < timelines:
            if cfg['unit'] == 'year':
                d['dt_mult'] = rng.choice([2, 2, 3, 0.5])
            else:
                d['dt_mult'] = rng.choice([2, 3])
        if rng.random() < tricky:
            d['name'] = rng.choice(TRICKY_NAMES) + str(len(d))
    names = [d.get('name', d['type']) for d in cfg['diseases']]
    if len(set(names)) != len(names):
        for i, d in enumerate(cfg['diseases']): d['name'] = f"{d['type']}{i}"
    form = rng.choice(forms or SCALE_FORMS)
    n = cfg['n_agents']
    cfg['scale_form'] = form
    if form == 'pop_scale_int': cfg['pop_scale'] = rng.choice([2, 7, 10])
    elif form == 'pop_scale_float': cfg['pop_scale'] = rng.choice([2.5, 0.5, 7.0, 3.3, 0.125])
    elif form == 'total_pop_int': cfg['total_pop'] = n * rng.choice([3, 7, 20])
    elif form == 'total_pop_frac': cfg['total_pop'] = rng.choice([1000, 3500, 12345])
    elif form == 'total_pop_small': cfg['total_pop'] = rng.choice([n // 2, n // 8, n - 1])   # fewer people than agents: factor < 1
    return cfg


def _disease(d, sim_dt):
    import starsim as ss
    kw = dict(beta=d.get('beta', 0.1), init_prev=d.get('init_prev', 0.05))
    for k in ('dur_inf', 'p_death', 'waning', 'name'):
        if k in d: kw[k] = d[k]
    if d.get('dt_mult'):
        kw['dt'] = sim_dt * d['dt_mult']
    t = d['type']
    if t == 'sir': return ss.SIR(**kw)
    if t == 'sis': return ss.SIS(**kw)
    cls = dict(measles=ss.Measles, ebola=ss.Ebola, cholera=ss.Cholera, ncd=ss.NCD)[t]
    extra = {k: v for k, v in d.items() if k not in ('type', 'dt_mult', 'beta', 'init_prev', 'dur_inf', 'p_death', 'waning')}
    if t == 'ncd': return cls(**extra)
    return cls(beta=d.get('beta', 0.1), init_prev=d.get('init_prev', 0.05), **extra)


def build(cfg, scale=True, **over):
    import starsim as ss
    pars = dict(n_agents=cfg['n_agents'], rand_seed=cfg.get('rand_seed', 1), verbose=0)
    for k in ('unit', 'dt', 'start', 'dur'):
        if cfg.get(k) is not None: pars[k] = cfg[k]
    if scale:
        for k in ('pop_scale', 'total_pop'):
            if cfg.get(k) is not None: pars[k] = cfg[k]
    pars['diseases'] = [_disease(d, cfg['dt']) for d in cfg.get('diseases', [])]
    pars['networks'] = [impl._network(n, cfg['n_agents']) for n in cfg.get('networks', [])]
    dem = []
    for d in cfg.get('demographics', []):
        if d.get('type') == 'births' and ('dt' in d or 'unit' in d):   # births on their own (finer) timeline
            dem.append(ss.Births(birth_rate=d.get('birth_rate', 20), **{k: d[k] for k in ('unit', 'dt') if k in d}))
        else:
            dem.append(impl._demog(d))
    if dem: pars['demographics'] = dem
    for c in cfg.get('custom', []):
        cls = custom_class(c['kind'])
        kw = dict(dt=cfg['dt'] * c['dt_mult']) if c.get('dt_mult') else {}
        pars.setdefault('analyzers' if c['kind'] == 'analyzer' else 'interventions', []).append(cls(**kw))
    pars.update(over)
    return ss.Sim(**pars)


_CUSTOM = {}


def custom_class(kind):
    """ A user-style module that declares results through define_results: an integer count (scale left at its default),
        a cumulative count, and two float results declared with scale=False """
    import starsim as ss
    if kind in _CUSTOM: return _CUSTOM[kind]
    base = ss.Analyzer if kind == 'analyzer' else ss.Intervention

    class Tally(base):
        def init_results(self):
            super().init_results()
            self.define_results(ss.Result('n_seen', dtype=int), ss.Result('new_adults', dtype=int, scale=True),
                                ss.Result('cum_adults', dtype=int, scale=True),
                                ss.Result('frac_adult', dtype=float, scale=False), ss.Result('mean_age', dtype=float, scale=False))

        def step(self):
            ppl = self.sim.people; ti = self.ti
            au = np.asarray(ppl.auids)
            alive = np.asarray(ppl.alive.raw[au]).astype(bool); age = np.asarray(ppl.age.raw[au])
            r = self.results
            r['n_seen'][ti] = int(alive.sum())
            r['new_adults'][ti] = int(np.count_nonzero(alive & (age >= 18) & (age < 18 + 1)))
            r['cum_adults'][ti] = np.sum(r['new_adults'][:ti + 1])
            r['frac_adult'][ti] = float(np.count_nonzero(alive & (age >= 18))) / max(int(alive.sum()), 1)
            r['mean_age'][ti] = float(age[alive].mean()) if alive.any() else 0.0

    name = 'C15Tally' + kind.capitalize()
    Tally.__name__ = name; Tally.__qualname__ = name; Tally.__module__ = __name__
    globals()[name] = Tally
    _CUSTOM[kind] = Tally
    return Tally


# ---------------------------------------------------------------------------
# instrumented run

def run_probed(cfg, scale=True, probe=True):
    """ Run the real sim; returns dict(sim, raw, meta, people, diseases) """
    import starsim as ss
    np.random.seed(cfg.get('rand_seed', 1) % 2**31)   # some modules read the global generator (C01 findings): make twins comparable
    if cfg.get('builder') == 'impl':      # a configuration of the shared scenario zoo (harness/zoo.py): built by impl.build_sim as it is
        sim = impl.build_sim(cfg if scale else {k: v for k, v in cfg.items() if k not in ('pop_scale', 'total_pop')})
    else:
        sim = build(cfg, scale=scale)
    sim.init()
    rec = dict(people=[], diseases={}, mods={}, n0=int(sim.people.uid.len_used), n_agents=int(sim.pars.n_agents))
    ppl = sim.people

    def snap_people():
        au = np.asarray(ppl.auids).copy()
        rec['people'].append(dict(ti=int(sim.ti), alive=np.asarray(ppl.alive.raw[au]).copy(),
                                  ti_dead=np.asarray(ppl.ti_dead.raw[au]).copy(), auids=au, n_uids=int(ppl.uid.len_used)))

    def snap_module(mod):
        au = np.asarray(ppl.auids)
        rec['mods'].setdefault(mod.name, dict(cls=type(mod).__name__, snaps=[]))['snaps'].append(
            dict(ti=int(mod.ti), sim_ti=int(sim.ti), n_uids=int(ppl.uid.len_used), n_alive=int(np.count_nonzero(ppl.alive.raw[au])),
                 counters={k: int(getattr(mod, k)) for k in ('n_births', 'n_deaths', 'n_pregnancies') if hasattr(mod, k)}))

    def snap_disease(mod):
        au = np.asarray(ppl.auids).copy()
        states = [s for s in mod._disease_states]
        flags = np.array([np.asarray(s.raw[au]) for s in states]).reshape(len(states), len(au))
        rec['diseases'].setdefault(mod.name, dict(cls=type(mod).__name__, mro=[c.__name__ for c in type(mod).__mro__],
                                                  states=[s.name for s in states], snaps=[]))['snaps'].append(
            dict(ti=int(mod.ti), sim_ti=int(sim.ti), auids=au, alive=np.asarray(ppl.alive.raw[au]).copy(), flags=flags.copy(),
                 ti_infected=np.asarray(mod.ti_infected.raw[au]).copy()))

    if probe:
        plan = sim.loop.plan
        funcs = list(plan['func'])
        for i, (f, name) in enumerate(zip(list(plan['func']), list(plan['func_name']))):
            if name != 'update_results':
                continue
            owner = f.__self__
            if owner is ppl:
                funcs[i] = (lambda f=f: (snap_people(), f())[1])
            elif isinstance(owner, ss.Infection):
                funcs[i] = (lambda f=f, o=owner: (snap_disease(o), f())[1])
            elif isinstance(owner, ss.Demographics):
                funcs[i] = (lambda f=f, o=owner: (snap_module(o), f())[1])
        plan['func'] = funcs
    raw = {}
    meta = {}
    orig_finalize = sim.finalize

    def finalize_and_capture():
        if not raw:
            for k, v in sim.results.flatten().items():
                raw[k] = np.array(v.values, copy=True)
                modname = k[:-(len(v.name) + 1)] if k != v.name else 'sim'   # (Result.module keeps the class-default name of a renamed module)
                meta[k] = dict(scale=bool(v.scale), dtype=str(np.asarray(v.values).dtype), module=modname, name=v.name)
        return orig_finalize()
    sim.finalize = finalize_and_capture
    sim.run()
    try: del sim.finalize
    except Exception: pass
    rec.update(sim=sim, raw=raw, meta=meta)
    return rec


def module_of(sim, modname):
    for m in sim.modules:
        if m.name == modname: return m
    return None


def table_row(facts, mro, name):
    """ (scale, dtype) of the Result literal for result `name` of a module with class list `mro` """
    for cls in mro:
        for c, n, s, dt in facts['results']:
            if c != cls: continue
            if n == name or (n.endswith('*') and name.startswith(n[:-1])):
                return s, dt, c
    return None


def cum_of(facts, mro, name):
    for cls in mro:
        for c, res, srcname, form in facts['cumulative']:
            if c == cls and res == name:
                return srcname, form
    return None


# ---------------------------------------------------------------------------
# encoding

def rat(x):
    x = float(x)
    if x != x or x in (float('inf'), float('-inf')):
        return None
    fr = F(x)
    return f'{fr.numerator}/{fr.denominator}' if fr.denominator != 1 else str(fr.numerator)


def parse_rat(s):
    return F(s)


def parse_rats(s):
    return [] if s == '-' else [F(x) for x in s.split(',')]


def tok_ti(x):
    return 'n' if x != x else str(int(x)) if float(x) == int(x) else 'n'   # a fractional ti never equals an integer step


def people_line(snaps, npts, off='table'):
    steps = []
    for s in snaps:
        toks = [f"{int(a)}:{tok_ti(d)}" for a, d in zip(s['alive'], s['ti_dead'])]
        steps.append(','.join(toks) if toks else '-')
    return f"people {off} {npts} {'|'.join(steps)}"


def disease_line(info, npts, inf_idx, off='table'):
    steps = []
    for s in info['snaps']:
        fl = s['flags']
        toks = [f"{int(a)}:{''.join('1' if fl[j, i] else '0' for j in range(fl.shape[0]))}:{tok_ti(t)}"
                for i, (a, t) in enumerate(zip(s['alive'], s['ti_infected']))]
        steps.append(','.join(toks) if toks else '-')
    return f"disease {off} {inf_idx} {len(info['states'])} {npts} {'|'.join(steps)}"


def kv(line):
    parts = line.split()
    out = dict(res=parts[0])
    for p in parts[1:]:
        if '=' in p:
            k, v = p.split('=', 1); out[k] = v
    return out


def close(a, b, n_ops=1):
    """ float vs exact rational: exact, or within n_ops*4 ulp """
    if a is None or b is None: return a is None and b is None, False
    if F(float(a)) == b: return True, False
    fb = float(b)
    return abs(float(a) - fb) <= RTOL * n_ops * max(abs(fb), 1e-300), True


# ---------------------------------------------------------------------------
# correspondence

EXCLUDE_DERIVED = {('Deaths', 'cmr'), ('Pregnancy', 'cbr')}   # computed in finalize from scaled series: checked by the oracle


def sim_lines(rec, facts):
    """ lines for the op machine + the list of keys in model order """
    sim = rec['sim']
    k = sim.pars.pop_scale
    keys = []; specs = []
    for key, m in rec['meta'].items():
        mod = module_of(sim, m['module'])
        mro = [c.__name__ for c in type(mod).__mro__] if mod is not None else ['Sim']
        row = table_row(facts, mro, m['name'])
        if row is None and mro[0].startswith('C15Tally'):
            row = (m['scale'], 'float' if m['dtype'].startswith('float') else 'int', mro[0])   # declared by the harness itself
        if row is None:
            continue
        if (row[2], m['name']) in EXCLUDE_DERIVED:
            continue
        c = cum_of(facts, mro, m['name'])
        cumkey = f"{m['module']}_{c[0]}" if (c and c[1] == 'cumsum') else '-'
        specs.append(f"{key}:{int(bool(row[0]))}:{cumkey}:{len(rec['raw'][key])}")
        keys.append(key)
    lines = [f"sim new {rat(k)} " + ' '.join(specs)]
    for key in keys:
        vals = [rat(v) for v in rec['raw'][key]]
        if any(v is None for v in vals):
            vals = [v if v is not None else '0' for v in vals]
        lines.append(f"sim writes {key} {','.join(vals)}")
    lines += ['sim view', 'sim tojson', 'sim finalize', 'sim view', 'sim summary', 'sim finalize', 'sim shrink', 'sim saveload', f"sim write {keys[0]} 0 1"]
    # rates that finalize computes from the (already scaled) final store
    for sp in rate_specs(rec):
        if sp['new'] in keys and 'n_alive' in keys:
            lines.append(f"sim rate {sp['key']} {sp['new']} n_alive {rat(sp['units'])} {','.join(map(str, sp['inds'])) if sp['inds'] else '-'}")
    return lines, keys


def parse_view(s):
    out = {}
    if not s: return out
    for part in s.split(';'):
        k, v = part.split('=', 1)
        out[k] = parse_rats(v)
    return out


def finite_mask(arr):
    a = np.asarray(arr, dtype=float)
    return np.isfinite(a)


def compare_series(ctx, name, impl_arr, model_vals, n_ops=1, mask=None):
    """ first divergence or None """
    if len(impl_arr) != len(model_vals):
        return f'{name}: length impl={len(impl_arr)} model={len(model_vals)}'
    for i, (a, b) in enumerate(zip(impl_arr, model_vals)):
        if mask is not None and not mask[i]: continue
        a = float(a)
        if a != a or a in (float('inf'), float('-inf')):
            return f'{name}[{i}]: impl={a} model={b}'
        ok, tol = close(a, b, n_ops)
        if tol: ctx.count('tolerance_uses')
        if not ok:
            return f'{name}[{i}]: impl={a!r} model={float(b)!r} ({b})'
    return None


def exports(sim):
    """ values shown by to_df / to_json / summary / shrink copy / save+load, as {view: {key: array}} """
    import starsim as ss
    out = {}
    flat = {k: np.asarray(v.values) for k, v in sim.results.flatten().items()}
    df = sim.to_df()
    d = {}
    if hasattr(df, 'columns'):
        for c in df.columns:
            if c != 'timevec': d[c] = np.asarray(df[c].values)
    else:   # objdict of per-module dataframes (unequal lengths)
        for modname, sub in df.items():
            if sub is None: continue
            for c in sub.columns:
                if c == 'timevec': continue
                key = c if modname == 'sim' else f'{modname}_{c}'
                d[key] = np.asarray(sub[c].values)
    out['to_df'] = d
    try:
        js = sim.to_json()
    except Exception as e:     # the `pars` half can fail to serialise (known finding: StaticNet keeps a Generator in pars.seed)
        out['to_json_error'] = type(e).__name__
        out['to_json_static'] = any(type(n).__name__ == 'StaticNet' for n in sim.networks())
        js = sim.to_json(keys='summary')
    out['to_json_summary'] = {k: v for k, v in js['summary'].items()} if isinstance(js.get('summary'), dict) else None
    out['summary'] = {k: v for k, v in sim.summary.items()}
    sh = sim.shrink(inplace=False)
    out['shrink'] = {k: np.asarray(v.values) for k, v in sh.results.flatten().items()}
    out['shrink_people'] = type(sh.people).__name__
    with tempfile.TemporaryDirectory() as td:
        fn = os.path.join(td, 'c15.sim')
        sim.save(fn)
        ld = ss.load(fn)
    out['load'] = {k: np.asarray(v.values) for k, v in ld.results.flatten().items()}
    out['load_ready'] = bool(ld.results_ready)
    try:
        ld.finalize(); out['load_refinalize'] = 'accepted'
        out['load_after_refinalize'] = {k: np.asarray(v.values) for k, v in ld.results.flatten().items()}
    except Exception as e:
        out['load_refinalize'] = type(e).__name__
    out['load_summary'] = {k: v for k, v in ld.summary.items()}
    out['flat'] = flat
    return out


def arr_same(a, b):
    a = np.asarray(a, dtype=float); b = np.asarray(b, dtype=float)
    return a.shape == b.shape and np.array_equal(a, b, equal_nan=True)


def drive_gen(ctx, gen):
    """ run one correspondence generator (it yields driver lines and is sent the driver's answers) with one driver call per yield """
    try:
        lines = next(gen)
        while True:
            lines = gen.send(ctx.drive(DRIVER, lines))
    except StopIteration as e:
        return e.value


def drive_batch(ctx, gens, on_exc):
    """ run many correspondence generators {label: gen} with ONE driver call per round (their lines concatenated: every line of the
        protocol is either stateless or follows the `sim new` of its own block) """
    results = {}; pending = {}
    for lab, g in gens.items():
        try: pending[lab] = (g, next(g))
        except StopIteration as e: results[lab] = e.value
        except Exception as e: on_exc(lab, e)
    while pending:
        labs = list(pending)
        lines = [l for lab in labs for l in pending[lab][1]]
        out = ctx.drive(DRIVER, lines)
        outs = {}
        if len(out) == len(lines):
            pos = 0
            for lab in labs:
                n = len(pending[lab][1]); outs[lab] = out[pos:pos + n]; pos += n
        else:     # the driver lost a line: one by one, so that the faulty block is reported as itself
            ctx.count('zoo_batch_fallback')
            for lab in labs: outs[lab] = ctx.drive(DRIVER, pending[lab][1])
        nxt = {}
        for lab in labs:
            g = pending[lab][0]
            try: nxt[lab] = (g, g.send(outs[lab]))
            except StopIteration as e: results[lab] = e.value
            except Exception as e: on_exc(lab, e)
        pending = nxt
    return results


def correspond_sim(ctx, cfg, facts):
    return drive_gen(ctx, correspond_sim_gen(ctx, cfg, facts))


def correspond_sim_gen(ctx, cfg, facts):
    rec = run_probed(cfg)
    sim = rec['sim']; raw = rec['raw']
    lines = []
    npts = len(raw['n_alive'])
    lines.append(people_line(rec['people'], npts, 'table'))
    lines.append(people_line(rec['people'], npts, 'spec'))
    dnames = list(rec['diseases'])
    for dn in dnames:
        info = rec['diseases'][dn]
        lines.append(disease_line(info, len(raw[f'{dn}_prevalence']), info['states'].index('infected')))
    sl, keys = sim_lines(rec, facts)
    lines += sl
    out = yield lines
    if any(o == 'bad-op' for o in out) or len(out) != len(lines):
        ctx.broke('correspondence', 'C15.protocol', f'driver rejected a line ({[l[:60] for l, o in zip(lines, out) if o == "bad-op"][:3]})', data=cfg)
        return None
    div = None
    # people
    m = kv(out[0]); mspec = kv(out[1])
    for nm, key in (('nalive', 'n_alive'), ('new', 'new_deaths'), ('cum', 'cum_deaths')):
        div = div or compare_series(ctx, key, raw[key], parse_rats(m[nm]))
    variant = 'asis'
    if compare_series(ctx, 'cum_deaths', raw['cum_deaths'], parse_rats(mspec['cum'])) is None and parse_rats(mspec['cum']) != parse_rats(m['cum']):
        variant = 'spec'
    ctx.notes.setdefault('variant_matched', {})['People.cum_deaths'] = variant if div is None else 'neither'
    # diseases
    for j, dn in enumerate(dnames):
        info = rec['diseases'][dn]
        md = kv(out[2 + j])
        ns = [parse_rats(x) for x in md['n'].split('/')]
        for sname, arr in zip(info['states'], ns):
            div = div or compare_series(ctx, f'{dn}_n_{sname}', raw[f'{dn}_n_{sname}'], arr)
        undef = [u == '1' for u in md['undef'].split(',')] if md.get('undef') else []
        prev_m = parse_rats(md['prev'])
        mask = [not (i < len(undef) and undef[i]) for i in range(len(prev_m))]
        div = div or compare_series(ctx, f'{dn}_prevalence', np.where(mask, raw[f'{dn}_prevalence'], 0.0), prev_m, mask=mask)
        div = div or compare_series(ctx, f'{dn}_new_infections', raw[f'{dn}_new_infections'], parse_rats(md['new']))
        div = div or compare_series(ctx, f'{dn}_cum_infections', raw[f'{dn}_cum_infections'], parse_rats(md['cum']))
        ctx.count('disease_recordings', len(info['snaps']))
    ctx.count('people_recordings', len(rec['people']))
    if div:
        ctx.broke('correspondence', 'C15.recount', f'recorded series differs from the model recount of the probe snapshots: {div}', data=cfg)
        return rec
    # op machine
    base = 2 + len(dnames)
    o = out[base + 1 + len(keys):]
    # o[0]=view before finalize, o[1]=tojson before, o[2]=finalize, o[3]=view, o[4]=summary, o[5]=finalize again, o[6]=shrink, o[7]=saveload, o[8]=write after
    ex = exports(sim)
    final = ex['flat']
    if o[0] != 'E:NotReady' or not o[1].startswith('ok unavailable') or not o[2].startswith('ok'):
        div = f'model refused the pre-finalize sequence: {o[:3]}'
    view = parse_view(o[3][3:]) if o[3].startswith('ok ') else None
    if view is None:
        div = div or f'model view after finalize: {o[3][:80]}'
    else:
        for key in keys:
            nops = 1 + (len(final[key]) if key.endswith('cumulative') else 0)
            div = div or compare_series(ctx, key, final[key], view[key], n_ops=nops, mask=finite_mask(final[key]))
    if div:
        ctx.broke('correspondence', 'C15.finalize', f'finalised results differ from the model (scale flagged series once by pop_scale={sim.pars.pop_scale!r}): {div}', data=cfg)
        return rec
    # summary
    summ = dict(p.split('=', 1) for p in o[4][3:].split(';')) if o[4].startswith('ok ') and len(o[4]) > 3 else {}
    for key in keys:
        if key not in summ:
            div = div or f'summary: model has no entry for {key}'; continue
        got = ex['summary'].get(key)
        try: gotf = float(got)
        except Exception: gotf = None
        if gotf is None or gotf != gotf:
            if np.all(np.isfinite(np.asarray(final[key], dtype=float))):
                div = div or f'summary[{key}] impl={got!r}'
            continue
        ok, tol = close(gotf, F(summ[key]), n_ops=len(final[key]) + 2)
        if tol: ctx.count('tolerance_uses')
        if not ok:
            div = div or f'summary[{key}]: impl={gotf!r} model={float(F(summ[key]))!r}'
    if div:
        ctx.broke('correspondence', 'C15.summary', f'sim.summary differs from the model: {div}', data=cfg)
        return rec
    # rates computed by the model from ITS final store vs the arrays
    for ln, oo in zip(sl[len(keys) + 10:], o[9:]):
        key = ln.split()[2]
        vals = oo[3:].split(',') if oo.startswith('ok ') else None
        if vals is None or len(vals) != len(final[key]):
            div = div or f'{key}: model answered {oo[:60]}'
            continue
        for i, (a, b) in enumerate(zip(final[key], vals)):
            if b == 'u':
                ctx.count('rate_undefined_entries'); continue
            ok, tol = close(float(a), F(b), 6)
            if tol: ctx.count('tolerance_uses')
            if not ok:
                div = div or f'{key}[{i}]: impl={float(a)!r} model={float(F(b))!r}'
        ctx.count('rate_series_opmachine')
    if div:
        ctx.broke('correspondence', 'C15.rates', f'rates computed in finalize differ from the model (new / n_alive[inds] / units on the scaled store): {div}', data=cfg)
        return rec
    # second finalize, writes after completion
    try:
        sim.finalize(); second = 'accepted'
    except Exception as e:
        second = type(e).__name__
    if (second == 'AlreadyRunError') != (o[5] == 'E:AlreadyRun'):
        ctx.broke('correspondence', 'C15.finalize-once', f'second finalize: impl={second} model={o[5][:40]}', data=cfg)
        return rec
    try:
        sim.run(); rerun = 'accepted'
    except Exception as e:
        rerun = type(e).__name__
    if (rerun == 'AlreadyRunError') != (o[8] == 'E:AlreadyRun'):
        ctx.broke('correspondence', 'C15.complete', f'running a finalised sim: impl={rerun} model={o[8][:40]}', data=cfg)
        return rec
    # exports: model says the view is unchanged
    for nm, oo in (('shrink', o[6]), ('load', o[7])):
        v2 = parse_view(oo[3:]) if oo.startswith('ok ') else None
        if v2 != view:
            div = div or f'model view changed by {nm}'
        for key in keys:
            if key not in ex[nm] or not arr_same(ex[nm][key], final[key]):
                div = div or f'{nm}: series {key} differs from the arrays of the finalised sim'
    for key in keys:
        if key not in ex['to_df'] or not arr_same(ex['to_df'][key], final[key]):
            div = div or f'to_df: column {key} differs from the result array'
    if ex['to_json_summary'] is None:
        div = div or 'to_json: no summary'
    else:
        for key in keys:
            a, b = ex['to_json_summary'].get(key), ex['summary'].get(key)
            if not (a == b or (a != a and b != b) or (a is None and b != b)):
                div = div or f'to_json summary[{key}]={a!r} but sim.summary={b!r}'
    if ex['load_refinalize'] != 'AlreadyRunError':
        div = div or f"finalize() on a loaded finished sim: {ex['load_refinalize']} (model: E:AlreadyRun)"
    if div:
        ctx.broke('correspondence', 'C15.exports', f'exported values differ from the arrays / the model: {div}', data=cfg)
        return rec
    # run-time cross-check of the table
    for key, mta in rec['meta'].items():
        mod = module_of(sim, mta['module'])
        mro = [c.__name__ for c in type(mod).__mro__] if mod is not None else ['Sim']
        row = table_row(facts, mro, mta['name'])
        if row is None and mro[0].startswith('C15Tally'):
            continue
        if row is None:
            ctx.broke('extract', 'ResultsTable', f'result {key} of the live sim has no row in the extracted table', data=cfg); break
        if bool(row[0]) != mta['scale']:
            ctx.broke('extract', 'ResultsTable', f'result {key}: extracted scale={row[0]} but the live Result has scale={mta["scale"]}', data=cfg); break
    scaled = sim.pars.pop_scale != 1
    activity = float(np.sum(raw['new_deaths'])) + sum(float(np.sum(raw[f'{dn}_new_infections'])) for dn in dnames)
    ctx.case(('sim', json.dumps(cfg, sort_keys=True)), nontrivial=bool(scaled and activity > 0),
             sample=dict(kind='sim', scale_form=cfg.get('scale_form', 'zoo'), pop_scale=float(sim.pars.pop_scale), diseases=[(d['type'], d.get('dt_mult'), d.get('name')) for d in cfg['diseases']],
                         demographics=[d['type'] for d in cfg['demographics']], npts=npts, series=len(keys)))
    ctx.count('series_compared', len(keys))
    ctx.count('form_' + cfg.get('scale_form', 'zoo'))
    return rec


# ---------------------------------------------------------------------------
# flows (agents created / removed) and the rates computed in finalize

def pop_steps(rec):
    """ Reconstruct, from the people snapshots alone, the inputs of the model's population machine: per sim step the number
        of agents created and which positions had their death requested before / after the recording.
        Returns (steps, observed) or (None, reason) when a death is not of one of these kinds (scheduled in the future). """
    act = list(range(rec['n0']))
    steps = []; obs = []
    prev_pos = {}
    for t, s in enumerate(rec['people']):
        if s['ti'] != t: return None, f'people recording {t} has ti={s["ti"]}'
        au = s['auids'].tolist()
        if au[:len(act)] != act or any(u <= (act[-1] if act else -1) for u in au[len(act):]):
            return None, f'step {t}: active uids are not the survivors of the previous step followed by new uids'
        born = len(au) - len(act)
        req = []
        for i, (a, d) in enumerate(zip(s['alive'].tolist(), s['ti_dead'].tolist())):
            if not a:
                if d == t: req.append(i)
                elif d == t - 1 and au[i] in prev_pos: steps[-1]['late'].append(prev_pos[au[i]])
                else: return None, f'step {t}: agent {au[i]} is dead with ti_dead={d}'
            elif d == d and d > t:
                return None, f'scheduled: step {t}: agent {au[i]} is alive with ti_dead={d} (death scheduled ahead)'
            elif d == d:
                return None, f'step {t}: agent {au[i]} is still alive at the recording although ti_dead={d} <= {t} (step_die resolves ti_dead <= ti before the recording)'
        steps.append(dict(born=born, req=req, late=[]))
        obs.append(dict(nalive=int(np.count_nonzero(s['alive'])), removed=int(np.count_nonzero(~s['alive'].astype(bool))),
                        bits=''.join('1' if a else '0' for a in s['alive'].tolist())))
        prev_pos = {u: i for i, u in enumerate(au)}
        act = [u for u, a in zip(au, s['alive'].tolist()) if a]
    return steps, obs


def pop_line(rec, steps):
    f = lambda l: ','.join(map(str, l)) if l else '-'
    return f"pop {rec['n0']} " + '|'.join(f"{st['born']};{f(st['req'])};{f(sorted(st['late']))}" for st in steps)


def rate_specs(rec):
    """ (key, units, new key, inds) for the rates that finalize computes from already scaled series """
    sim = rec['sim']; out = []
    for mod in sim.modules:
        cls = type(mod).__name__
        if cls == 'Deaths': key, newkey = f'{mod.name}_cmr', f'{mod.name}_new'
        elif cls == 'Pregnancy': key, newkey = f'{mod.name}_cbr', f'{mod.name}_births'
        else: continue
        inds = mod.match_time_inds()
        inds = None if inds is Ellipsis else [int(i) for i in np.asarray(inds).ravel()]
        out.append(dict(key=key, new=newkey, units=float(mod.pars.rate_units * sim.t.dt_year), inds=inds))
    return out


def correspond_flows(ctx, cfg, rec):
    return drive_gen(ctx, correspond_flows_gen(ctx, cfg, rec))


def correspond_flows_gen(ctx, cfg, rec):
    sim = rec['sim']; raw = rec['raw']
    final = {k: np.asarray(v.values) for k, v in sim.results.flatten().items()}
    lines = []; kinds = []
    steps, obs = pop_steps(rec)
    if steps is None and not str(obs).startswith('scheduled'):
        ctx.broke('correspondence', 'C15.flows', f'population flows cannot be produced by the model machine: {obs}', data=cfg); return
    if steps is None:
        ctx.count('pop_not_modelled')
    else:
        lines.append(pop_line(rec, steps)); kinds.append('pop')
    specs = rate_specs(rec)
    for sp in specs:
        lines.append(f"rate {rat(sp['units'])} {','.join(rat(v) for v in final[sp['new']])} {','.join(rat(v) for v in final['n_alive'])} "
                     f"{','.join(map(str, sp['inds'])) if sp['inds'] else '-'}")
        kinds.append(sp)
    if not lines: return
    out = yield lines
    for kind, ln, o in zip(kinds, lines, out):
        if not o.startswith('ok'):
            ctx.broke('correspondence', 'C15.flows', f'driver answered {o[:60]} to `{ln[:80]}`', data=cfg); return
        if kind == 'pop':
            m = kv(o)
            want = dict(nalive=','.join(str(x['nalive']) for x in obs), removed=','.join(str(x['removed']) for x in obs),
                        newdeaths=','.join(str(int(v)) for v in raw['new_deaths'][:len(obs)]), alive='|'.join(x['bits'] for x in obs))
            for k, v in want.items():
                if m.get(k) != v:
                    ctx.broke('correspondence', 'C15.flows', f'population flows: {k} impl={v[:120]} model={str(m.get(k))[:120]} (steps {steps})', data=cfg); return
            if [int(v) for v in raw['n_alive'][:len(obs)]] != [x['nalive'] for x in obs]:
                ctx.broke('correspondence', 'C15.flows', 'n_alive differs from the snapshot count', data=cfg); return
            ctx.count('pop_histories'); ctx.count('pop_late_requests', sum(len(st['late']) for st in steps)); ctx.count('pop_born', sum(st['born'] for st in steps))
        else:
            vals = o[3:].split(',') if len(o) > 3 else []
            got = final[kind['key']]
            if len(vals) != len(got):
                ctx.broke('correspondence', 'C15.rates', f"{kind['key']}: length impl={len(got)} model={len(vals)}", data=cfg); return
            for i, (a, b) in enumerate(zip(got, vals)):
                if b == 'u':
                    ctx.count('rate_undefined_entries'); continue      # n_alive == 0: np.divide(where=...) leaves the entry unspecified
                ok, tol = close(float(a), F(b), 4)
                if tol: ctx.count('tolerance_uses')
                if not ok:
                    ctx.broke('correspondence', 'C15.rates', f"{kind['key']}[{i}]: impl={float(a)!r} model={float(F(b))!r} (new / n_alive / units computed in finalize)", data=cfg); return
            ctx.count('rate_series')


def vtp_impl(n, tp, ps):
    import starsim as ss
    p = ss.SimPars(n_agents=n, total_pop=tp, pop_scale=ps)
    try:
        p.validate_total_pop()
    except ValueError:
        return 'E:Value'
    except Exception as e:
        return 'E:Other:' + type(e).__name__
    return (p.total_pop, p.pop_scale)


def correspond_vtp(ctx):
    cases = []
    for _ in range(ctx.budget(60, 400)):
        n = ctx.rng.choice([1, 7, 60, 100, 150, 250, 1000])
        form = ctx.rng.choice(['tp', 'ps', 'both', 'none'])
        tp = ctx.rng.choice([n * 3, 1000, 3500, 12345.5, n, n / 2, n / 8, max(n - 1, 1), 1]) if form in ('tp', 'both') else None
        ps = ctx.rng.choice([1, 2, 7, 2.5, 0.5, 3.3, 0.125]) if form in ('ps', 'both') else None
        cases.append((n, tp, ps))
    lines = [f"vtp {n} {'none' if tp is None else rat(tp)} {'none' if ps is None else rat(ps)}" for n, tp, ps in cases]
    out = ctx.drive(DRIVER, lines)
    for (n, tp, ps), ln, o in zip(cases, lines, out):
        got = vtp_impl(n, tp, ps)
        ctx.case(('vtp', n, tp, ps), nontrivial=(tp is not None or ps is not None))
        ctx.count('vtp_cases')
        if isinstance(got, str) or not o.startswith('ok '):
            if got != o:
                ctx.broke('correspondence', 'C15.validate_total_pop', f'{ln}: impl={got} model={o}', data=dict(kind='vtp', n=n, tp=tp, ps=ps)); return
            continue
        a, b = o[3:].split()
        ok1, t1 = close(got[0], F(a), 2); ok2, t2 = close(got[1], F(b), 2)
        if t1 or t2: ctx.count('tolerance_uses')
        if not (ok1 and ok2):
            ctx.broke('correspondence', 'C15.validate_total_pop', f'{ln}: impl={got} model={o}', data=dict(kind='vtp', n=n, tp=tp, ps=ps)); return


def correspond(ctx):
    import starsim as ss
    facts = (ctx.extracted.get('ResultsTable') or {}).get('facts')
    if not facts:
        ctx.broke('correspondence', 'C15', 'ResultsTable was not extracted; the model cannot be instantiated')
        return
    # run-time cross-check of the extracted defaults
    r0 = ss.Result('x')
    if bool(r0.scale) != facts['result_defaults']['scale']:
        ctx.broke('extract', 'ResultsTable', 'default scale flag of ss.Result differs from the extracted default')
    correspond_vtp(ctx)
    correspond_zoo(ctx, facts)
    n = ctx.budget(16, 100)
    cfgs = [copy.deepcopy(c) for c in FIXED_CFGS + FINE_TIMELINE_CFGS + SCENARIO_CFGS] + [gen_cfg(ctx.rng) for _ in range(n)]

    def one(cfg):
        try:
            rec = yield from correspond_sim_gen(ctx, cfg, facts)
            if rec is not None and not ctx.broken:
                yield from correspond_flows_gen(ctx, cfg, rec)
        except impl_errors() as e:
            ctx.broke('correspondence', 'C15.run', f'generated sim raised {type(e).__name__}: {e}', data=cfg)

    def reraise(lab, e):
        raise e

    CHUNK = 32      # sims per driver call (every driver call waits for the project lock: few large calls instead of two per sim)
    for start in range(0, len(cfgs), CHUNK):
        if len(ctx.broken) >= 3:
            break
        drive_batch(ctx, {start + j: one(c) for j, c in enumerate(cfgs[start:start + CHUNK])}, reraise)


class _ZooCtx:
    """ the check context for one zoo entry: broken ties are reported with the entry's name """
    def __init__(self, ctx, name):
        self._ctx = ctx; self._name = name; self.n_broke = 0

    def __getattr__(self, k):
        return getattr(self._ctx, k)

    def broke(self, kind, name, detail, data=None):
        self.n_broke += 1
        return self._ctx.broke(kind, name, f'[zoo:{self._name}] {detail}', data)


def correspond_zoo(ctx, facts):
    """ recount / op machine / flows correspondence on every zoo entry (the scaled variant where the entry gives no scale), all
        driver lines of the zoo in one driver call per stage """
    def one(z, cfg):
        rec = yield from correspond_sim_gen(z, cfg, facts)
        if rec is not None and not z.n_broke:
            yield from correspond_flows_gen(z, cfg, rec)
        return rec is not None

    def on_exc(lab, e):      # a harness exception is counted and shown in the evidence, not reported as a broken tie
        ctx.count('zoo_exceptions'); ctx.notes['last_zoo_exception'] = f'correspond {lab}: {type(e).__name__}: {e}'

    gens = {}
    for name, cfg, var in zoo_cfgs():
        lab = name + ('+scale' if var is not None else '')
        gens[lab] = one(_ZooCtx(ctx, lab), var if var is not None else cfg)
    res = drive_batch(ctx, gens, on_exc)
    ctx.count('zoo_runs', len(res))


def impl_errors():
    return (ValueError, KeyError, IndexError, AttributeError, TypeError, RuntimeError, ZeroDivisionError, AssertionError)


# ---------------------------------------------------------------------------
# oracle on the real code

def sig(**kw):
    return kw


def oracle_sim(cfg, twin=True, check_exports=True, twin_rec=None, keep=None):
    """ All C15 oracles on one configuration; returns a list of dict(signature, what).
        twin_rec: an already finished run of the same configuration without pop_scale / total_pop (else it is run here);
        keep: a dict that receives the finished run (`rec`) """
    import starsim as ss
    fails = []

    def fail(signature, what):
        if len(fails) < 12 and not any(f['signature'] == signature for f in fails):
            fails.append(dict(signature=signature, what=what))

    rec = run_probed(cfg)
    if keep is not None: keep['rec'] = rec
    sim = rec['sim']; raw = rec['raw']; meta = rec['meta']
    k = sim.pars.pop_scale
    final = {kk: np.asarray(v.values) for kk, v in sim.results.flatten().items()}
    # pop_scale / total_pop
    n = cfg['n_agents']
    if cfg.get('pop_scale') is not None and not (k == cfg['pop_scale'] and sim.pars.total_pop == cfg['pop_scale'] * n):
        fail(sig(oracle='pop-scale', form='pop_scale'), f"pop_scale={cfg['pop_scale']} n_agents={n}: pars have pop_scale={k} total_pop={sim.pars.total_pop}")
    if cfg.get('total_pop') is not None and not (k == cfg['total_pop'] / n and sim.pars.total_pop == cfg['total_pop']):
        fail(sig(oracle='pop-scale', form='total_pop'), f"total_pop={cfg['total_pop']} n_agents={n}: pars have pop_scale={k} total_pop={sim.pars.total_pop}")
    # O1 people counts and death flow
    prev_td = None
    for s_i, s in enumerate(rec['people']):
        ti = s['ti']
        if s_i > 0:
            ps = rec['people'][s_i - 1]
            prev_td = dict(zip(ps['auids'].tolist(), ps['ti_dead'].tolist()))
        na = int(np.count_nonzero(s['alive']))
        if raw['n_alive'][ti] != na:
            fail(sig(oracle='count', owner='sim', result='n_alive'), f'n_alive[{ti}]={raw["n_alive"][ti]} but {na} active agents are alive when it is recorded')
        # independent death flow: active agents not alive now (dead agents are removed at the end of every step)
        nd = int(np.count_nonzero(~s['alive'].astype(bool)))
        if raw['new_deaths'][ti] != nd:
            late_mask = (~s['alive'].astype(bool)) & (s['ti_dead'] < ti)
            late = int(np.count_nonzero(late_mask))
            # requested after the previous recording: at that recording the agent was alive with ti_dead still unset
            after_rec = prev_td is not None and all((u in prev_td and prev_td[u] != prev_td[u]) for u in s['auids'][late_mask].tolist())
            if late and after_rec and raw['new_deaths'][ti] + late == nd:
                fail(sig(oracle='death-flow', cause='requested-after-resolution'),
                     f'step {ti}: {nd} agents died but new_deaths={raw["new_deaths"][ti]}: {late} death(s) requested after the previous death resolution (ti_dead={ti - 1}) are carried out now and never counted')
            else:
                fail(sig(oracle='death-flow', cause='other'), f'step {ti}: {nd} active agents became dead but new_deaths[{ti}]={raw["new_deaths"][ti]}')
    # O4 creation flow: agents created per sim step (growth of the uid range between people recordings) = recorded birth flows
    growers = {nm: info for nm, info in rec['mods'].items() if info['cls'] in ('Births', 'Pregnancy')}
    if growers:
        prev_n = rec['n_agents']      # agents created during init (burn-in conceptions) are recorded at step 0
        for s in rec['people']:
            ti = s['ti']; created = s['n_uids'] - prev_n; prev_n = s['n_uids']
            flow = 0; parts = []
            for nm, info in growers.items():
                key = f'{nm}_new' if info['cls'] == 'Births' else f'{nm}_pregnancies'
                v = sum(int(raw[key][ms['ti']]) for ms in info['snaps'] if ms['sim_ti'] == ti)
                flow += v; parts.append(f'{key}={v}')
            if flow != created:
                fail(sig(oracle='creation-flow', growers='+'.join(sorted(i['cls'] for i in growers.values()))),
                     f'sim step {ti}: {created} agents were created (uid range grew to {s["n_uids"]}) but the recorded flows give {flow} ({", ".join(parts)})')
        for nm, info in growers.items():
            if info['cls'] != 'Births': continue
            mod = module_of(sim, nm)
            for ms in info['snaps']:
                if ms['n_alive'] == 0: continue
                want = (1.0 / mod.pars.rate_units) * (ms['counters'].get('n_births', 0) / sim.t.dt_year) / ms['n_alive']
                got = raw[f'{nm}_cbr'][ms['ti']]
                if not (got == want or abs(got - want) <= 1e-12 * abs(want)):
                    fail(sig(oracle='rate-value', result='cbr', owner='Births'), f'{nm}.cbr[{ms["ti"]}]={got!r} but births/year/alive/rate_units = {want!r}')
    # rates computed in finalize: new / n_alive / units wherever n_alive > 0
    for sp in rate_specs(rec):
        new = np.asarray(final[sp['new']], dtype=float); al = np.asarray(final['n_alive'], dtype=float)
        if sp['inds'] is not None: al = al[sp['inds']]
        got = np.asarray(final[sp['key']], dtype=float)
        for i in range(len(got)):
            if i < len(al) and al[i] == 0 and not (got[i] == 0 or got[i] != got[i]):
                fail(sig(oracle='rate-undefined', result=sp['key'].split('_')[-1]),
                     f"{sp['key']}[{i}]={got[i]!r} although n_alive is 0 at that step: np.divide(new, n_alive, where=n_alive>0) without out= leaves the entry uninitialised (arbitrary, differs from run to run)")
            if i < len(al) and al[i] > 0:
                want = new[i] / al[i] / sp['units']
                if not (got[i] == want or abs(got[i] - want) <= 1e-12 * abs(want)):
                    fail(sig(oracle='rate-value', result=sp['key'].split('_')[-1], owner=sp['key'].split('_')[0]),
                         f"{sp['key']}[{i}]={got[i]!r} but {sp['new']}/n_alive/units = {new[i]}/{al[i]}/{sp['units']} = {want!r}")
                    break
    # O2/O3 diseases
    for dn, info in rec['diseases'].items():
        ii = info['states'].index('infected')
        isus = info['states'].index('susceptible')
        prev_sus = {}
        for s in info['snaps']:
            ti = s['ti']
            # independent infection flow: agents that were susceptible at the previous recording (or are new) and are not now
            sus_now = s['flags'][isus].astype(bool)
            left = sum(1 for u, sn, al in zip(s['auids'].tolist(), sus_now.tolist(), s['alive'].tolist()) if al and not sn and prev_sus.get(u, True))   # (step_die may clear the flags of the dead)
            prev_sus = dict(zip(s['auids'].tolist(), sus_now.tolist()))
            if raw[f'{dn}_new_infections'][ti] < left:
                fail(sig(oracle='infection-flow', disease_class=info['cls']),
                     f'{dn} ({info["cls"]}) step {ti}: {left} living agents stopped being susceptible since the previous recording but new_infections[{ti}]={raw[f"{dn}_new_infections"][ti]}')
            for j, sname in enumerate(info['states']):
                c = int(np.count_nonzero(s['flags'][j]))
                if raw[f'{dn}_n_{sname}'][ti] != c:
                    fail(sig(oracle='count', owner=info['cls'], result=f'n_{sname}'), f'{dn}.n_{sname}[{ti}]={raw[f"{dn}_n_{sname}"][ti]} but {c} active agents have the flag when it is recorded')
            ninf = int(np.count_nonzero(s['flags'][ii])); nal = int(np.count_nonzero(s['alive']))
            p = raw[f'{dn}_prevalence'][ti]
            if nal > 0:
                if p != ninf / nal:
                    fail(sig(oracle='prevalence-value', owner=info['cls']), f'{dn}.prevalence[{ti}]={p!r} but infected/alive = {ninf}/{nal} = {ninf / nal!r}')
                dead_inf = int(np.count_nonzero(s['flags'][ii].astype(bool) & ~s['alive'].astype(bool)))
                if dead_inf:
                    fail(sig(oracle='infected-subset-alive', disease_class=info['cls']),
                         f'{dn} ({info["cls"]}) step {ti}: {dead_inf} agent(s) that died this step are still flagged infected and are counted in n_infected and in the prevalence numerator ({ninf}/{nal})')
                elif not (0 <= p <= 1):
                    fail(sig(oracle='prevalence-range', owner=info['cls']), f'{dn}.prevalence[{ti}]={p!r} outside [0,1]')
            new = int(np.count_nonzero(s['ti_infected'] == ti))
            if raw[f'{dn}_new_infections'][ti] != new:
                fail(sig(oracle='count', owner=info['cls'], result='new_infections'), f'{dn}.new_infections[{ti}]={raw[f"{dn}_new_infections"][ti]} but {new} active agents have ti_infected == {ti}')
    # O3 cumulative series (raw, i.e. before scaling; and final)
    for store, label in ((raw, 'raw'), (final, 'final')):
        for key in store:
            m = meta[key]
            src = None
            if m['name'].startswith('cum_'): src = key[:len(key) - len(m['name'])] + 'new_' + m['name'][4:]
            elif m['name'] == 'cumulative': src = key[:len(key) - len('cumulative')] + 'new'
            if src is None or src not in store:
                continue
            if label == 'raw' and m['name'] == 'cumulative':
                continue   # filled in finalize
            cum = np.asarray(store[key], dtype=float); new = np.asarray(store[src], dtype=float)
            want = np.cumsum(new)
            if not np.allclose(cum, want, rtol=1e-12, atol=0):
                lag = np.concatenate([[0.0], want[:-1]])
                owner = 'sim' if m['module'] in (None, 'sim') else type(module_of(sim, m['module'])).__name__
                if np.allclose(cum, lag, rtol=1e-12, atol=0):
                    fail(sig(oracle='cumulative', owner=owner, result=m['name'], lag=1),
                         f'{key}[t] = sum({src}[:t]) excludes step t (lags the running sum by one step): {label} {src}={new[:6].tolist()} {key}={cum[:6].tolist()}')
                else:
                    fail(sig(oracle='cumulative', owner=owner, result=m['name'], lag='other'),
                         f'{key} is not the running sum of {src}: {label} {src}={new[:6].tolist()} {key}={cum[:6].tolist()}')
    # O5 scaling: final vs raw, and twin
    for key in raw:
        m = meta[key]
        r = np.asarray(raw[key]); f = np.asarray(final[key])
        mod = module_of(sim, m['module'])
        cls = type(mod).__name__ if mod is not None else 'Sim'
        if (cls, m['name']) in EXCLUDE_DERIVED or m['name'] == 'cumulative':
            continue
        with np.errstate(all='ignore'):
            want = r * k if m['scale'] else r
        if not arr_same(f, want):
            fail(sig(oracle='scale-final', scale_flag=m['scale'], result=m['name']),
                 f'{key} (scale={m["scale"]}) after finalize is not {"raw x pop_scale" if m["scale"] else "raw"}: pop_scale={k!r} raw={r[:4].tolist()} final={f[:4].tolist()}')
        if m['scale'] and r.dtype.kind == 'f' and k != 1:
            fail(sig(oracle='scaled-rate', cls=defining_class(mod, m['name']), result=m['name']),
                 f'{key} is a float-valued (rate / mean / prevalence) result but is multiplied by pop_scale={k!r} (Result declared without scale=False)')
    undefined_at = {}
    for sp in rate_specs(rec):
        al = np.asarray(final['n_alive'], dtype=float)
        if sp['inds'] is not None: al = al[sp['inds']]
        undefined_at[sp['key']] = np.nonzero(al[:len(final[sp['key']])] == 0)[0]
    if twin and k != 1:
        rec1 = twin_rec or run_probed(cfg, scale=False, probe=False)
        f1 = {kk: np.asarray(v.values) for kk, v in rec1['sim'].results.flatten().items()}
        k1 = rec1['sim'].pars.pop_scale
        if set(f1) != set(final):
            fail(sig(oracle='twin', kind='keys'), 'scaled and unscaled twins have different result keys')
        for key in final:
            if key not in f1: continue
            m = meta[key]
            a = np.asarray(f1[key], dtype=float); b = np.asarray(final[key], dtype=float)
            if key in undefined_at:      # entries of a finalize-computed rate where nobody is alive are unspecified (reported separately)
                a = a.copy(); b = b.copy(); a[undefined_at[key]] = 0; b[undefined_at[key]] = 0
            mod = module_of(sim, m['module'])
            rate_like = np.asarray(raw[key]).dtype.kind == 'f'
            with np.errstate(all='ignore'):
                if rate_like:
                    if not (arr_same(a, b) or np.allclose(a, b, rtol=1e-12, atol=0, equal_nan=True)):
                        if m['scale']:
                            fail(sig(oracle='scaled-rate', cls=defining_class(mod, m['name']), result=m['name']),
                                 f'{key} is a float-valued (rate / mean / prevalence) result but differs between the unscaled and the scaled twin: {a[:3].tolist()} vs {b[:3].tolist()} (pop_scale={k!r})')
                        else:
                            fail(sig(oracle='twin', kind='rate-changed', result=m['name']),
                                 f'{key} (not scalable) differs between the unscaled twin and the twin with pop_scale={k!r}: {a[:4].tolist()} vs {b[:4].tolist()}')
                else:
                    want = a * (k / k1)
                    if not (arr_same(b, want) or np.allclose(b, want, rtol=1e-12, atol=0, equal_nan=True)):
                        fail(sig(oracle='twin', kind='not-k-times', result=m['name']),
                             f'{key} is not exactly pop_scale={k!r} times the unscaled twin: {a[:4].tolist()} vs {b[:4].tolist()}')
    # O6 summary rule and exports
    for key, arr in final.items():
        a = np.asarray(arr, dtype=float)
        if not np.all(np.isfinite(a)) or key not in sim.summary: continue
        want = a[-1] if 'cum_' in key else a.mean()
        got = sim.summary[key]
        try: okk = abs(float(got) - want) <= 1e-9 * max(1.0, abs(want))
        except Exception: okk = False
        if not okk:
            nm = meta[key]['name']
            if 'cum_' in key and abs(float(got) - a.mean()) <= 1e-9 * max(1.0, abs(a.mean())):
                shadow = 'n_' if 'n_' in key else ('new_' if 'new_' in key else 'none')
                by = shadow if (shadow != 'none' and shadow in key) else 'nothing'
                why = (f'the key contains {shadow!r}, which comes first in the how-table and is matched as a substring' if by != 'nothing'
                       else 'no earlier entry of the how-table matches the key: the rule for cum_ itself gives the mean')
                fail(sig(oracle='summary', kind='cum-by-mean', shadowed_by=by),
                     f'summary[{key}]={got!r} is the mean of the cumulative series, not its last value {want!r}: {why}')
            else:
                fail(sig(oracle='summary', kind='value', result=nm), f'summary[{key}]={got!r} but the series gives {want!r}')
    if check_exports:
        ex = exports(sim)
        for nm in ('to_df', 'shrink', 'load'):
            for key in final:
                if key not in ex[nm] or not arr_same(ex[nm][key], final[key]):
                    fail(sig(oracle='export', via=nm), f'{nm}: values of {key} differ from the result array of the finished sim: {np.asarray(ex[nm].get(key, []))[:4].tolist()} vs {np.asarray(final[key])[:4].tolist()}')
                    break
        for key, v in sim.summary.items():
            j = ex['to_json_summary'].get(key) if ex['to_json_summary'] else None
            if not (j == v or (j != j and v != v) or (j is None and v != v)):
                fail(sig(oracle='export', via='to_json'), f'to_json summary[{key}]={j!r} differs from sim.summary {v!r}'); break
            lv = ex['load_summary'].get(key)
            if not (lv == v or (lv != lv and v != v)):
                fail(sig(oracle='export', via='load-summary'), f'loaded summary[{key}]={lv!r} differs from {v!r}'); break
        if ex.get('to_json_error'):
            fail(sig(oracle='export', via='to_json-full', error=ex['to_json_error'], cause='StaticNet' if ex['to_json_static'] else 'other'),
                 f"sim.to_json() raises {ex['to_json_error']} instead of exporting" + (': a StaticNet keeps its np.random.Generator in pars.seed after init, and sc.jsonify cannot handle the 128-bit state integers of its reduced form (np.isnan on a Python int that does not fit a float)' if ex['to_json_static'] else ''))
        if ex['load_refinalize'] != 'AlreadyRunError':
            fail(sig(oracle='finalize-once', via='load'), f"finalize() on a saved+loaded finished sim was {ex['load_refinalize']}: the scale factor is applied again")
        try:
            sim.finalize()
            fail(sig(oracle='finalize-once', via='direct'), 'a second finalize() was accepted: the scale factor is applied twice')
        except Exception as e:
            if type(e).__name__ != 'AlreadyRunError':
                fail(sig(oracle='finalize-once', via='direct-error'), f'second finalize() raised {type(e).__name__} instead of AlreadyRunError')
    return fails


def defining_class(mod, name):
    """ class whose init_results declares `name` (walk the MRO source) """
    if mod is None: return 'Sim'
    import inspect
    for c in type(mod).__mro__:
        f = c.__dict__.get('init_results')
        if f is None: continue
        try: src = inspect.getsource(f)
        except Exception: continue
        if f"'{name}'" in src or f'"{name}"' in src:
            return c.__name__
    return type(mod).__name__


def oracle_guards():
    """ total_pop / pop_scale forms and the both-given rejection, on the real code """
    import starsim as ss
    fails = []
    try:
        ss.Sim(n_agents=100, pop_scale=5, total_pop=500, verbose=0).init()
        fails.append(dict(signature=sig(oracle='pop-scale', form='both'), what='total_pop and pop_scale both given were accepted'))
    except ValueError:
        pass
    a = ss.Sim(n_agents=100, pop_scale=5, verbose=0); a.init()
    b = ss.Sim(n_agents=100, total_pop=500, verbose=0); b.init()
    c = ss.Sim(n_agents=100, verbose=0); c.init()
    if not (a.pars.total_pop == 500 and b.pars.pop_scale == 5 and a.pars.pop_scale == 5 and b.pars.total_pop == 500):
        fails.append(dict(signature=sig(oracle='pop-scale', form='agree'), what=f'pop_scale=5 -> ({a.pars.total_pop},{a.pars.pop_scale}); total_pop=500 -> ({b.pars.total_pop},{b.pars.pop_scale})'))
    d = ss.Sim(n_agents=100, total_pop=25, verbose=0); d.init()      # fewer people than agents
    e = ss.Sim(n_agents=100, pop_scale=0.25, verbose=0); e.init()
    if not (d.pars.pop_scale == 0.25 and d.pars.total_pop == 25 and e.pars.total_pop == 25 and e.pars.pop_scale == 0.25):
        fails.append(dict(signature=sig(oracle='pop-scale', form='below-one'), what=f'total_pop=25 with 100 agents -> ({d.pars.total_pop},{d.pars.pop_scale}); pop_scale=0.25 -> ({e.pars.total_pop},{e.pars.pop_scale})'))
    if not (c.pars.pop_scale == 1 and c.pars.total_pop == 100):
        fails.append(dict(signature=sig(oracle='pop-scale', form='default'), what=f'no scale given -> ({c.pars.total_pop},{c.pars.pop_scale})'))
    return fails


FIXED_CFGS = [
    # the minimal witness of the cum_deaths lag: SIR with deaths, unscaled
    dict(n_agents=100, rand_seed=1, unit='year', dt=1.0, start=2000, dur=6, scale_form='none',
         diseases=[dict(type='sir', beta=0.3, init_prev=0.3, dur_inf=2, p_death=0.3)], networks=[dict(type='random', n_contacts=4, dur=0)], demographics=[]),
    # SIS + background deaths, scaled by total_pop: infected-but-dead, scaled rel_sus
    dict(n_agents=150, rand_seed=2, unit='year', dt=1.0, start=2000, dur=6, scale_form='total_pop_int', total_pop=1050,
         diseases=[dict(type='sis', beta=0.3, init_prev=0.3, dur_inf=10, waning=0.05)], networks=[dict(type='random', n_contacts=4, dur=0)],
         demographics=[dict(type='deaths', death_rate=60)]),
    # a module whose name contains `n_`: summary of its cumulative series
    dict(n_agents=100, rand_seed=3, unit='year', dt=1.0, start=2000, dur=5, scale_form='pop_scale_int', pop_scale=7,
         diseases=[dict(type='sir', name='strain_a', beta=0.3, init_prev=0.2, dur_inf=3, p_death=0.0)], networks=[dict(type='random', n_contacts=4, dur=0)], demographics=[]),
    # a pregnant mother dies: the neonatal death is requested after the death resolution of that step
    dict(n_agents=250, rand_seed=1, unit='year', dt=1.0, start=2000, dur=6, scale_form='none',
         diseases=[dict(type='sir', beta=0.1, init_prev=0.05, dur_inf=5, p_death=0.0)], networks=[dict(type='random', n_contacts=4, dur=0)],
         demographics=[dict(type='pregnancy', fertility_rate=150, p_neonatal_death=1.0, burnin=True), dict(type='deaths', death_rate=60)]),
]


FINE_TIMELINE_CFGS = [   # a disease AND births on a finer timeline than the sim: the population changes between sim steps
    dict(n_agents=300, rand_seed=5, unit='day', dt=4, start='2020-01-01', dur=40, scale_form='none',
         diseases=[dict(type='sis', beta=0.3, init_prev=0.3, dur_inf=10, waning=0.05, dt_mult=0.25)], networks=[dict(type='random', n_contacts=4, dur=0)],
         demographics=[dict(type='births', birth_rate=4000, unit='day', dt=1.0)]),
    dict(n_agents=300, rand_seed=6, unit='year', dt=1.0, start=2000, dur=6, scale_form='pop_scale_int', pop_scale=3,
         diseases=[dict(type='sir', beta=0.3, init_prev=0.2, dur_inf=3, p_death=0.0, dt_mult=0.25)], networks=[dict(type='random', n_contacts=4, dur=0)],
         demographics=[dict(type='births', birth_rate=200, unit='year', dt=0.25)]),
]

SCENARIO_CFGS = [   # always exercised: fractional factors below and above 1 with births + deaths (cumsum-filled series, rates),
                   # custom result-declaring modules on their own timeline, everybody dies (n_alive == 0)
    dict(n_agents=160, rand_seed=7, unit='year', dt=1.0, start=2000, dur=6, scale_form='pop_scale_float', pop_scale=2.5,
         diseases=[dict(type='sir', beta=0.2, init_prev=0.1, dur_inf=4, p_death=0.1)], networks=[dict(type='erdosrenyi', p=0.05)],
         demographics=[dict(type='births', birth_rate=60), dict(type='deaths', death_rate=40)],
         custom=[dict(kind='analyzer', dt_mult=2), dict(kind='intervention', dt_mult=None)]),
    dict(n_agents=160, rand_seed=8, unit='year', dt=0.5, start=2000, dur=4, scale_form='total_pop_small', total_pop=20,
         diseases=[dict(type='sis', beta=0.2, init_prev=0.1, dur_inf=4, waning=0.05, dt_mult=2)], networks=[dict(type='static', n_contacts=4)],
         demographics=[dict(type='pregnancy', fertility_rate=100, burnin=True), dict(type='deaths', death_rate=30)],
         custom=[dict(kind='intervention', dt_mult=2)]),
    dict(n_agents=60, rand_seed=9, unit='year', dt=1.0, start=2000, dur=5, scale_form='pop_scale_int', pop_scale=3,
         diseases=[dict(type='sir', beta=0.9, init_prev=1.0, dur_inf=1, p_death=1.0)], networks=[dict(type='random', n_contacts=4, dur=0)],
         demographics=[dict(type='deaths', death_rate=1000)]),
]

EXTRA_CFGS = [   # other disease classes: scale flags of their float results, infection flows
    dict(n_agents=120, rand_seed=4, unit='year', dt=1.0, start=2000, dur=5, scale_form='pop_scale_int', pop_scale=5,
         diseases=[dict(type=t, **kw)], networks=[dict(type='random', n_contacts=4, dur=0)], demographics=[])
    for t, kw in (('ncd', {}), ('cholera', dict(beta=0.5, init_prev=0.1)), ('measles', dict(beta=0.5, init_prev=0.1)), ('ebola', dict(beta=0.5, init_prev=0.1)))
]


# ---------------------------------------------------------------------------
# the shared scenario zoo (harness/zoo.py)

ZOO_SCALES = [('pop_scale', 2.5), ('pop_scale', 3), ('total_pop', 1234), ('pop_scale', 0.5), ('total_pop', '7n'), ('total_pop', 'n/8'), ('pop_scale', 3.3)]


def zoo_cfgs():
    """ [(name, cfg as given, scaled variant or None)]: every zoo entry as it is (built by impl.build_sim: `builder` = 'impl'), and, for
        the entries that do not give a population scale themselves, ONE variant with a scale (rotating through the forms: fractional and
        integer pop_scale, below one, total_pop with a fractional ratio / an integer ratio / fewer people than agents) """
    from harness import zoo
    out = []
    for i, (name, cfg) in enumerate(zoo.configs()):
        cfg['builder'] = 'impl'
        var = None
        if cfg.get('pop_scale') is None and cfg.get('total_pop') is None:
            form, v = ZOO_SCALES[zlib.crc32(name.encode()) % len(ZOO_SCALES)]     # by name: stays the same when the zoo grows
            var = copy.deepcopy(cfg)
            var[form] = {'7n': cfg['n_agents'] * 7, 'n/8': cfg['n_agents'] // 8}.get(v, v)
        out.append((name, cfg, var))
    return out


def search_zoo(ctx):
    """ every oracle of oracle_sim on every zoo entry as given (exports included; its own unscaled twin when it gives a scale) and on its
        scaled variant, whose unscaled twin is the run of the entry as given """
    for i, (name, cfg, var) in enumerate(zoo_cfgs()):
        for label, c in (('', cfg), ('+scale', var)):
            if c is None: continue
            keep = {}
            try:
                if c is cfg:
                    fails = oracle_sim(c, twin=True, check_exports=True, keep=keep); base = keep.get('rec')
                else:
                    fails = oracle_sim(c, twin=True, check_exports=True, twin_rec=base)
            except Exception as e:     # a harness exception is not a finding (a sim that raises is C-other territory; the zoo selftest covers it)
                ctx.count('zoo_exceptions'); ctx.notes['last_zoo_exception'] = f'search {name}{label}: {type(e).__name__}: {e}'
                if c is cfg: break
                continue
            ctx.count('zoo_runs')
            for f in fails:
                ctx.fail(f['signature'], f'[zoo:{name}{label}] ' + f['what'], dict(kind='sim', cfg=c, signature=f['signature']))


def search(ctx):
    search_zoo(ctx)
    for cfg in FINE_TIMELINE_CFGS + SCENARIO_CFGS + EXTRA_CFGS:
        try:
            for f in oracle_sim(copy.deepcopy(cfg), twin=(cfg in SCENARIO_CFGS), check_exports=(cfg in SCENARIO_CFGS)):
                ctx.fail(f['signature'], f['what'], dict(kind='sim', cfg=cfg, signature=f['signature']))
        except impl_errors() as e:
            ctx.fail(sig(oracle='run', error=type(e).__name__), f'sim raised {type(e).__name__}: {e}', dict(kind='sim', cfg=cfg))
        ctx.count('oracle_runs')
    for f in oracle_guards():
        ctx.fail(f['signature'], f['what'], dict(kind='guards'))
    cfgs = [copy.deepcopy(c) for c in FIXED_CFGS]
    for b in ctx.broken:   # shrunk / diverging inputs first
        if isinstance(b.get('data'), dict) and 'n_agents' in b['data']:
            cfgs.append(b['data'])
    n = ctx.budget(10, 60)
    for i in range(n):
        cfgs.append(gen_cfg(ctx.rng, forms=['pop_scale_int', 'pop_scale_float', 'total_pop_int', 'total_pop_frac', 'none']))
    for i, cfg in enumerate(cfgs):
        try:
            fails = oracle_sim(cfg, twin=True, check_exports=(i < 3 or i % 2 == 0))
        except impl_errors() as e:
            ctx.fail(sig(oracle='run', error=type(e).__name__), f'generated sim raised {type(e).__name__}: {e}', dict(kind='sim', cfg=cfg))
            continue
        ctx.count('oracle_runs')
        for f in fails:
            ctx.fail(f['signature'], f['what'], dict(kind='sim', cfg=cfg, signature=f['signature']))


def replay(ctx, data):
    if data.get('kind') == 'guards':
        return bool(oracle_guards())
    if data.get('kind') == 'vtp':
        return False
    cfg = data.get('cfg', data)
    fails = oracle_sim(cfg)
    want = data.get('signature')
    if want:
        return any(f['signature'] == want for f in fails)
    return bool(fails)
