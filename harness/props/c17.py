"""
C17 — Parameters are applied exactly as given or rejected, never dropped.

correspond(): exhaustive over kinds.
  (0) class facts: isinstance / callable / sc.isfunc of a live representative of every old and new kind vs the model's
      `isA` tables; extracted constants vs the imported package.
  (1) every constructible built-in module class (ss.find_modules()) x every one of its parameters x every new-value kind
      (19), plus a probe module holding every old kind the built-ins do not have (callable, dict, other, array, ...):
      `module.pars.update({par: value})` on the real object; observed {error kind | effect (is-new / old object with
      first / positional / named parameters / made from spec / stray / kept), kind of the stored value afterwards}
      vs `outcome` of the Lean model (which interprets the regenerated chain).
  (2) the same values through the constructor (`cls(par=value)` -> update_pars), old kind taken at the moment of the
      update (Pars.update wrapped), error kind compared.
  (3) unknown keys at every route; metadata / time arguments; leftovers  vs  updatePars / update / sub / mods / convert.
  (4) module spellings (str, upper-case str, dict with str type, dict with class type, class, instance, function) for
      every name of every module list vs `convert`; identical canonical pars across spellings; identical results of
      the spellings (quick: a few configurations; thorough: all diseases/networks that run stand-alone).
  (5) user-held module objects compared deeply before / after two sims share them; identity of what the sims hold.
  (6) round 3 (harness/props/c17_refs.py): per-network beta dicts of every Infection class resolved at sim.init() vs `resolve`
      (Model/ParsRefs.lean), ss.standardize_netkey vs stdKey, the regenerated ownership table vs live before/after comparisons,
      one spec dict used for two parameters vs `useTwice`.
search(): the property evaluated directly on the real code, with concrete replays:
  supplied value is in effect (its sentinel is found in the object graph under pars[par], every name of a supplied
  dict is a name the target understands) or an error was raised; unknown keys raise at every route; bad values raise;
  spellings agree; inputs are neither mutated nor shared.
"""
import inspect, warnings, numbers, contextlib
import numpy as np

PROP = 'C17'
GENERATED = ['ParsDispatch', 'ParsRefs', 'ParsSimLevel', 'ParsTimePar', 'ParsModTime']
DRIVER = 'Drivers/C17.lean'
DRIVER_MODULES = ['StarsimModel.Model.Pars', 'StarsimModel.Model.ParsDeep', 'StarsimModel.Model.ParsRefs', 'StarsimModel.Generated.ParsRefs', 'StarsimModel.Model.ParsSim', 'StarsimModel.Generated.ParsSimLevel', 'StarsimModel.Model.ParsTime', 'StarsimModel.Generated.ParsTimePar', 'StarsimModel.Model.ParsModTime', 'StarsimModel.Generated.ParsModTime', 'StarsimModel.Model.Proto']
RULE = ('exhaustive: every constructible class of ss.find_modules() x every parameter x 19 new-value kinds (direct update and '
        'constructor route), a probe module covering the remaining old kinds (full 23 x 19 table), unknown keys at 9 routes x '
        'sampled classes, 7 spellings x every registered name; seeded part: sentinel values, sampled classes for routes, '
        'configurations for result equality. distinct = distinct (class, parameter, old kind, new kind, route); '
        'non-trivial = the update reached a non-`set` branch or an error')
TRUSTED = ['round 3: the documented network-name normalisation (lower case, optional `net` suffix) is re-derived in harness/props/c17_refs.py for the '
           'model-free name-keyed oracle; harness/extractors/pars_refs.py recognises the shapes of key guards and of fresh-copy expressions',
           'the harness classifies live objects into the model\'s kinds (okind_of / value factory) — cross-checked by the class-facts '
           'comparison (0) on every run',
           'inspect.signature of a distribution class lists the parameter names that distribution understands (used by the oracle)']
ASSUMPTIONS = ['value kinds abstract values: within one kind the code path depends only on the classes tested by the chain '
               '(validated exhaustively over the live modules on every run)']

NKINDS = ['number', 'list', 'listLong', 'dictNoType', 'dictNoTypeBad', 'dictTypeBern', 'dictTypeDist', 'dictTypeBad',
          'bern', 'dist', 'timeparD', 'timeparN', 'series', 'dataframe', 'func', 'nil', 'str', 'cls', 'array']
OKINDS = ['num', 'str', 'list', 'array', 'series', 'dataframe', 'nil', 'pars', 'ndictEmpty', 'ndictFull', 'module',
          'timeparD', 'timeparN', 'beta', 'dist_plain', 'dist_dur', 'dist_nondur', 'bern_plain', 'bern_dur', 'bern_nondur',
          'callable', 'dict', 'other']
CLS = ['str', 'number', 'list', 'ndarray', 'series', 'dataframe', 'noneType', 'pars', 'ndict', 'module', 'timePar', 'dist',
       'dict', 'beta', 'bernoulli', 'dur']
MODKEYS = ['networks', 'demographics', 'diseases', 'interventions', 'analyzers', 'connectors']


def _ss():
    import starsim as ss
    return ss


def quiet():
    warnings.simplefilter('ignore')


# ---------------------------------------------------------------------------
# kinds of live objects

def py_classes():
    import pandas as pd, starsim as ss
    return dict(str=str, number=numbers.Number, list=list, ndarray=np.ndarray, series=pd.Series, dataframe=pd.DataFrame,
                noneType=type(None), pars=ss.Pars, ndict=ss.ndict, module=ss.Module, timePar=ss.TimePar, dist=ss.Dist,
                dict=dict, beta=ss.beta, bernoulli=ss.bernoulli, dur=ss.dur)


def par0_kind(d):
    ss = _ss()
    try:
        p0 = d.pars[0]
    except Exception:
        return 'plain'
    if isinstance(p0, ss.dur): return 'dur'
    if isinstance(p0, ss.TimePar): return 'nondur'
    return 'plain'


def okind_of(v):
    """ The model's old-kind of a live value (semantic classification, independent of the chain's order) """
    import pandas as pd
    ss = _ss()
    if isinstance(v, numbers.Number): return 'num'
    if isinstance(v, str): return 'str'
    if isinstance(v, list): return 'list'
    if isinstance(v, np.ndarray): return 'array'
    if isinstance(v, pd.Series): return 'series'
    if isinstance(v, pd.DataFrame): return 'dataframe'
    if v is None: return 'nil'
    if isinstance(v, ss.Pars): return 'pars'
    if isinstance(v, ss.ndict): return 'ndictFull' if len(v) else 'ndictEmpty'
    if isinstance(v, ss.Module): return 'module'
    if isinstance(v, ss.beta): return 'beta'
    if isinstance(v, ss.TimePar): return 'timeparD' if isinstance(v, ss.dur) else 'timeparN'
    if isinstance(v, ss.Dist): return ('bern_' if isinstance(v, ss.bernoulli) else 'dist_') + par0_kind(v)
    if callable(v): return 'callable'
    if isinstance(v, dict): return 'dict'
    return 'other'


def sentinel(tok):
    """ an exactly representable float that cannot occur by accident: the 2**-34 term gives every sentinel low mantissa bits that
        no constant written in the package has (round 3: sentinel(480) used to be exactly 0.25, a default value of Syphilis) """
    return 0.1328125 + tok / 4096.0 + 2.0 ** -34


def _probe_fn(module, sim, uids):  # a user function usable as a distribution parameter
    return 0.5


def target_names(old):
    """ parameter names the existing object understands (for well-formed dict / list values) """
    ss = _ss()
    if isinstance(old, ss.Dist):
        return list(old.pars.keys())
    return ['v']


def make_new(nk, tok, old=None):
    """ A fresh value of new-kind `nk` carrying the sentinel of `tok`; shaped to fit `old` where the kind says 'fits' """
    import pandas as pd
    ss = _ss()
    s = sentinel(tok)
    names = target_names(old)
    if nk == 'number': return s
    if nk == 'list':      # as many elements as fit (at most 2), each with its own sentinel
        n = min(2, len(names)) if (old is not None and isinstance(old, ss.Dist)) else 1
        return [s + i / 1048576.0 for i in range(max(n, 1))]
    if nk == 'listLong': return [s + i / 1048576.0 for i in range(9)]
    if nk == 'dictNoType': return {names[0]: s}
    if nk == 'dictNoTypeBad': return {'zz_unknown': s}
    if nk == 'dictTypeBern': return dict(type='bernoulli', p=s)
    if nk == 'dictTypeDist': return dict(type='normal', loc=s, scale=1.0)
    if nk == 'dictTypeBad': return dict(type='zz_nodist', loc=s)
    if nk == 'bern': return ss.bernoulli(p=s)
    if nk == 'dist': return ss.normal(loc=s, scale=1.0)
    if nk == 'timeparD': return ss.dur(s)
    if nk == 'timeparN': return ss.rate(s)
    if nk == 'series': return pd.Series([s, 2.0])
    if nk == 'dataframe': return pd.DataFrame(dict(a=[s]))
    if nk == 'func':
        def f(module, sim, uids): return s
        f.sentinel = s
        return f
    if nk == 'nil': return None
    if nk == 'str': return f'tok{tok}'
    if nk == 'cls': return ss.normal
    if nk == 'array': return np.array([s, 1.0])
    raise ValueError(nk)


def err_kind(e):
    import sciris as sc
    if isinstance(e, sc.KeyNotFoundError): return 'E:KeyNotFound'
    if isinstance(e, TypeError): return 'E:Type'
    if isinstance(e, ValueError): return 'E:Value'
    return 'E:Other'


def same(a, b):
    """ value identity-or-equality that is safe for arrays / pandas / TimePars """
    if a is b: return True
    try:
        if isinstance(a, (numbers.Number, str)) and isinstance(b, (numbers.Number, str)) and type(a) == type(b):
            return a == b
    except Exception:
        pass
    return False


def observe_effect(old, new, cur, nk):
    """ Where did `new` end up?  -> effect name of the model's `Eff` """
    ss = _ss()
    if cur is new or (nk in ('number', 'str', 'nil') and same(cur, new) and cur is not old):
        return 'isNew'
    if cur is old:
        if isinstance(old, ss.Dist):
            vals = list(old.pars.values()); keys = list(old.pars.keys())
            sig = dist_signature(old)
            if isinstance(new, dict) and 'type' not in new:
                if all(k in old.pars and same(old.pars[k], v) for k, v in new.items()):
                    if all(k in sig for k in new): return 'oldNamed'
                    return 'stray'
                return 'kept'
            if isinstance(new, list):
                return 'oldArgs' if all(same(vals[i], x) for i, x in enumerate(new)) else 'kept'
            return 'oldFirst' if (len(vals) and same(vals[0], new)) else 'kept'
        if isinstance(old, ss.TimePar):
            if isinstance(new, dict):
                return 'oldNamed' if all(same(getattr(old, k, None), v) for k, v in new.items()) else 'kept'
            if isinstance(new, list):
                return 'oldArgs' if same(old.v, new[0]) else 'kept'
            return 'oldFirst' if same(old.v, new) else 'kept'
        return 'kept'
    if isinstance(cur, ss.Dist) and isinstance(new, dict) and 'type' in new:
        ok = type(cur).__name__ == new['type'] and all(same(cur.pars.get(k), v) for k, v in new.items() if k != 'type')
        return 'made' if ok else 'other-object'
    return 'other-object'


def dist_signature(d):
    """ the parameter names the distribution class understands """
    names = set()
    for c in type(d).__mro__:
        init = c.__dict__.get('__init__')
        if init is None: continue
        try:
            for p in inspect.signature(init).parameters.values():
                if p.kind in (p.POSITIONAL_OR_KEYWORD, p.KEYWORD_ONLY) and p.name != 'self':
                    names.add(p.name)
        except (TypeError, ValueError):
            pass
        if c.__name__ == 'Dist': break
    return names


# ---------------------------------------------------------------------------
# live module classes

def module_classes():
    """ [(modkey, class)] unique classes of ss.find_modules(), and {modkey: {name: class}} """
    ss = _ss()
    mods = ss.find_modules()
    seen = []; out = []
    for mk in MODKEYS:
        for name, cls in mods.get(mk, {}).items():
            if cls not in seen:
                seen.append(cls); out.append((mk, cls))
    return out, mods


_BASE = {}


def base_args(cls):
    """ the smallest arguments with which the class can be constructed (decided once, without extra keywords) """
    ss = _ss()
    if cls not in _BASE:
        _BASE[cls] = None
        for extra in (lambda: {}, lambda: dict(product=ss.sir_vaccine()), lambda: dict(year=2000, coverage=0.5)):
            try:
                cls(**extra()); _BASE[cls] = extra; break
            except Exception as e:
                first = e
        if _BASE[cls] is None:
            _BASE[cls] = first
    return _BASE[cls]


def construct(cls, **kw):
    """ a fresh instance; classes that need arguments get the smallest valid ones """
    b = base_args(cls)
    if isinstance(b, Exception): raise b
    return cls(**b(), **kw)


def constructible():
    quiet()
    out = []; skipped = []
    classes, mods = module_classes()
    for mk, cls in classes:
        try:
            m = construct(cls)
            if not hasattr(m, 'pars'): raise AttributeError('no pars')
            out.append((mk, cls))
        except Exception as e:
            skipped.append(f'{cls.__name__}: {type(e).__name__}')
    return out, skipped, mods


@contextlib.contextmanager
def watch_update_pars():
    """ was Module.update_pars called (the strict route), and what did ss.Time receive as `pars`? """
    ss = _ss()
    orig = ss.Module.update_pars; orig_t = ss.Time.__init__
    seen = dict(update_pars=0, time_pars=[], keys=set())

    def w(self, pars=None, **kw):
        seen['update_pars'] += 1
        seen.setdefault('types', []).append(type(self))
        if isinstance(pars, dict): seen['keys'] |= set(pars.keys())
        seen['keys'] |= set(kw.keys())
        return orig(self, pars, **kw)

    def wt(self, *a, **kw):
        if kw.get('pars') is not None: seen['time_pars'].append(kw['pars'])
        return orig_t(self, *a, **kw)
    ss.Module.update_pars = w; ss.Time.__init__ = wt
    try:
        yield seen
    finally:
        ss.Module.update_pars = orig; ss.Time.__init__ = orig_t


def uses_update_pars(cls, probe=False):
    quiet()
    with watch_update_pars() as seen:
        try:
            cls() if probe else construct(cls)
        except Exception:
            return False
    return cls in seen.get('types', [])


def make_probe_class():
    """ A module holding every old kind the built-in modules do not have """
    import pandas as pd
    ss = _ss()

    class C17Probe(ss.Module):
        def __init__(self, pars=None, **kwargs):
            super().__init__()
            self.define_pars(
                p_num=1.5, p_bool=True, p_str='x', p_list=[1, 2], p_array=np.array([1.0, 2.0]), p_series=pd.Series([1.0]),
                p_df=pd.DataFrame(dict(a=[1.0])), p_nil=None,
                p_sub=ss.Pars(x1=1.0, d1=ss.normal(1.0, 2.0)),
                p_nd0=ss.ndict(), p_nd1=ss.ndict(ss.SIR()), p_mod=ss.SIS(),
                p_dur=ss.dur(3.0), p_rate=ss.rate(0.25), p_beta=ss.beta(0.1),
                p_dist=ss.normal(1.0, 2.0), p_dist_dur=ss.normal(ss.dur(4.0), 1.0), p_dist_rate=ss.normal(ss.rate(4.0), 1.0),
                p_bern=ss.bernoulli(0.2), p_bern_dur=ss.bernoulli(ss.dur(0.2)), p_bern_rate=ss.bernoulli(ss.time_prob(0.2)),
                p_fn=_probe_fn, p_dict=dict(a=1), p_other=(1, 2),
            )
            self.update_pars(pars, **kwargs)

        def step(self):
            pass
    return C17Probe


# ---------------------------------------------------------------------------
# (1) direct update on the real object

def run_direct(cls, par, nk, tok, probe=False):
    """ fresh instance; module.pars.update({par: value}); -> observation dict """
    quiet()
    m = cls() if probe else construct(cls)
    old = m.pars[par]
    ok_ = okind_of(old)
    new = make_new(nk, tok, old)
    try:
        m.pars.update({par: new})
    except Exception as e:
        return dict(okind=ok_, res=err_kind(e), exc=f'{type(e).__name__}: {str(e)[:120]}')
    cur = m.pars[par]
    return dict(okind=ok_, res='ok', eff=observe_effect(old, new, cur, nk), after=okind_of(cur))


def model_outcome(line):
    p = line.split()
    if p[0] != 'ok': return dict(res=p[0])
    if p[1] in ('sub', 'mods', 'leaf', 'other'):     # nested routes: only the verdict is compared
        return dict(res='ok', action='nested', after=None, eff=None)
    return dict(res='ok', action=p[1], after=p[2], eff=p[3].split(':')[0])


def items_of(new, tok):
    """ a supplied dict as model items: key:kind:token """
    out = []
    for k, v in new.items():
        nk = 'str' if isinstance(v, str) else 'number'
        out.append(f'{k}:{nk}:{tok}')
    return ','.join(out) if out else '-'


def direct_model_line(old, okind, nk, tok):
    """ the model operation that corresponds to pars.update({par: value}) for this old kind """
    if okind == 'pars':
        new = make_new(nk, tok, old)
        if isinstance(new, dict):
            return f'sub asis 0 {leaves_spec(old)} dict/{nk}/{tok}/{items_of(new, tok)}'
        return f'sub asis 0 {leaves_spec(old)} atom/{nk}/{tok}'
    if okind == 'ndictFull':
        name = list(old.keys())[0]
        spec = leaves_spec(old[name].pars)
        new = make_new(nk, tok, old)
        if isinstance(new, dict):
            return f'mods asis 0 {name} {spec} {list(new.keys())[0]} atom/number/{tok}'
        return f'modsatom asis 0 {name} {spec} {nk}'
    return f'outcome asis {okind} {nk}'


CONTAINER_OLD = ('pars', 'ndictEmpty', 'ndictFull', 'module')


def compare_direct(ob, mo):
    """ None if observation and model agree, else a description """
    if ob['res'] != mo['res']:
        return f"outcome: impl={ob['res']} ({ob.get('exc', ob.get('eff'))}) model={mo['res']} {mo.get('action', '')}"
    if ob['res'] != 'ok': return None
    if mo['action'] == 'nested':
        return None   # nested effects are compared by the route cases (3)
    if ob['eff'] != mo['eff']:
        return f"effect: impl={ob['eff']} model={mo['eff']} ({mo['action']})"
    if ob['after'] != mo['after'] and not (mo['action'] in ('oldSetKwargs',)):
        return f"kind of the stored value afterwards: impl={ob['after']} model={mo['after']}"
    return None


# ---------------------------------------------------------------------------
# canonical form of parameter objects (for spellings / input isolation)

def canon(v, depth=0):
    import pandas as pd
    ss = _ss()
    if depth > 8: return '<deep>'
    if isinstance(v, ss.Dist):
        return ('Dist', type(v).__name__, tuple((k, canon(x, depth + 1)) for k, x in v.pars.items()))
    if isinstance(v, ss.TimePar):
        return ('TimePar', type(v).__name__, canon(v.v, depth + 1), v.unit, v.parent_unit, v.self_dt)
    if isinstance(v, ss.Module):
        return ('Module', type(v).__name__, v.name, canon(v.pars, depth + 1))
    if isinstance(v, dict):
        return ('dict', type(v).__name__, tuple((str(k), canon(x, depth + 1)) for k, x in v.items()))
    if isinstance(v, (list, tuple)):
        return (type(v).__name__, tuple(canon(x, depth + 1) for x in v))
    if isinstance(v, np.ndarray):
        return ('ndarray', v.shape, v.tobytes().hex()[:64])
    if isinstance(v, (pd.Series, pd.DataFrame)):
        return (type(v).__name__, v.shape, str(v.values.tolist())[:200])
    if isinstance(v, float):
        return ('float',) + v.as_integer_ratio() if v == v and abs(v) != float('inf') else ('float', str(v))
    if isinstance(v, (int, bool, str, type(None))):
        return (type(v).__name__, v)
    if callable(v):
        return ('callable', getattr(v, '__qualname__', type(v).__name__))
    return ('obj', type(v).__name__)


def module_state(m):
    """ deep observable state of a user-held module object """
    return dict(pars=canon(m.pars), name=m.name, label=m.label, initialized=bool(m.initialized), pre=bool(m.pre_initialized),
                sim_linked=m.sim is not None, dists=m.dists is not None, t=(m.t.dt, m.t.unit, m.t.start, m.t.stop, getattr(m.t, 'ti', None)),
                n_results=len(m.results), finalized=bool(getattr(m, 'finalized', False)))


# ---------------------------------------------------------------------------
# correspondence

def leaves_spec(pars):
    items = [f'{k}:{okind_of(v)}' for k, v in pars.items()]
    return ','.join(items) if items else '-'


def safe_key(k):
    return all(c.isalnum() or c == '_' for c in k) and len(k) > 0


def correspond(ctx):
    import starsim as ss, sciris as sc, pandas as pd
    quiet()
    facts = (ctx.extracted.get('ParsDispatch') or {}).get('facts') or {}
    lines = []; checks = []   # checks: (start index, n lines, callback(model_lines))

    def ask(ls, cb):
        checks.append((len(lines), len(ls), cb)); lines.extend(ls)

    # ---- (0) extracted constants vs the imported package; class facts ---------------------------------------------
    if facts:
        if facts.get('module_args') != list(ss.modules.module_args) or facts.get('time_args') != list(ss.time.time_args):
            ctx.broke('extract', 'ParsDispatch', f"module_args/time_args extracted {facts.get('module_args')}/{facts.get('time_args')} differ from the live package")
        live_atomic = [k for k, c in py_classes().items() if any(c is a for a in ss.parameters.atomic_classes)]
        if sorted(live_atomic) != sorted(facts.get('atomic', [])):
            ctx.broke('extract', 'ParsDispatch', f"atomic_classes extracted {facts.get('atomic')} but live {live_atomic}")
        sig = inspect.signature(ss.Sim.__init__).parameters
        if bool(sig['copy_inputs'].default) != bool(facts['sim']['copy_default']):
            ctx.broke('extract', 'ParsDispatch', 'copy_inputs default differs from the live signature')
    Probe = make_probe_class()
    pm = Probe()
    reps_old = {okind_of(v): v for v in pm.pars.values()}
    missing = [k for k in OKINDS if k not in reps_old]
    if missing:
        ctx.broke('correspondence', 'C17.kinds', f'probe module lacks old kinds {missing}')
    reps_new = {nk: make_new(nk, 1, None) for nk in NKINDS}
    pyc = py_classes()

    def cb_facts(kind, name, obj, what):
        def cb(ml):
            exp = []
            for c in CLS: exp.append('1' if isinstance(obj, pyc[c]) else '0')
            exp.append('1' if callable(obj) else '0')
            if kind == 'n': exp.append('1' if sc.isfunc(obj) else '0')
            if ml != exp:
                bad = [(w, e, m) for w, e, m in zip(what, exp, ml) if e != m]
                ctx.broke('correspondence', 'C17.class-facts', f'kind {kind}:{name}: live class facts differ from the model (test, live, model): {bad}')
            ctx.count('class_fact_rows')
        return cb
    for name, obj in reps_old.items():
        ls = [f'isa o {name} {c}' for c in CLS] + [f'callable o {name}']
        ask(ls, cb_facts('o', name, obj, CLS + ['callable']))
    for name, obj in reps_new.items():
        ls = [f'isa n {name} {c}' for c in CLS] + [f'callable n {name}', f'isfunc {name}']
        ask(ls, cb_facts('n', name, obj, CLS + ['callable', 'isfunc']))

    # ---- (1) direct update: every class x parameter x new kind -----------------------------------------------------
    classes, skipped, mods = constructible()
    ctx.notes['classes_covered'] = len(classes); ctx.notes['classes_skipped'] = skipped
    targets = [(mk, cls, False) for mk, cls in classes] + [('probe', Probe, True)]
    tok = 10
    table_seen = set()
    for mk, cls, probe in targets:
        m0 = cls() if probe else construct(cls)
        for par in list(m0.pars.keys()):
            for nk in NKINDS:
                tok = 10 + ctx.rng.randint(0, 900)
                try:
                    ob = run_direct(cls, par, nk, tok, probe)
                except Exception as e:
                    ctx.broke('correspondence', 'C17.direct', f'harness raised {type(e).__name__}: {e}', data=dict(cls=cls.__name__, par=par, nk=nk))
                    continue
                table_seen.add((ob['okind'], nk))

                def cb(ml, ob=ob, cls=cls, par=par, nk=nk, tok=tok, probe=probe):
                    mo = model_outcome(ml[0])
                    why = compare_direct(ob, mo)
                    nontrivial = not (mo.get('action') == 'set')
                    ctx.case(('direct', cls.__name__, par, ob['okind'], nk), nontrivial,
                             sample=dict(kind='direct-update', cls=cls.__name__, par=par, old=ob['okind'], new=nk, impl=ob, model=ml[0]) if nontrivial and ctx.rng.random() < 0.02 else None)
                    ctx.count('direct_' + (mo.get('action') or mo['res']))
                    if why and len([b for b in ctx.broken if b['name'] == 'C17.direct']) < 8:
                        ctx.broke('correspondence', 'C17.direct', f"{cls.__name__}.pars.update({par}=<{nk}>) on old kind {ob['okind']}: {why}",
                                  data=dict(kind='direct', cls=cls.__name__, par=par, nk=nk, tok=tok, probe=probe, impl=ob, model=ml[0]))
                ask([direct_model_line(m0.pars[par], ob['okind'], nk, tok)], cb)
    ctx.notes['table_pairs_exercised'] = len(table_seen)
    ctx.notes['table_pairs_total'] = len(OKINDS) * len(NKINDS)

    # ---- (2) constructor route (update_pars), old kind taken at the moment of the update --------------------------
    for mk, cls, probe in targets:
        m0 = cls() if probe else construct(cls)
        for par in list(m0.pars.keys()):
            if par in ('name', 'label', 'start', 'stop', 'dt', 'unit'):
                continue
            for nk in NKINDS:
                tok = 10 + ctx.rng.randint(0, 900)
                ob = run_ctor(cls, par, nk, tok, probe)
                if ob is None: continue

                def cb(ml, ob=ob, cls=cls, par=par, nk=nk, tok=tok, probe=probe):
                    mo = model_outcome(ml[0])
                    ctx.case(('ctor', cls.__name__, par, ob['okind'], nk), mo.get('action') != 'set')
                    why = None
                    if ob['okind'] in CONTAINER_OLD:
                        return
                    if ob['upd'] != mo['res']:
                        why = f"error kind of the update: impl={ob['upd']} ({ob.get('exc')}) model={mo['res']} {mo.get('action', '')}"
                    elif ob['upd'] == 'ok' and ob['eff'] not in (mo['eff'], 'moved'):
                        why = f"effect right after the update: impl={ob['eff']} model={mo['eff']}"
                    elif mo['res'] != 'ok' and ob['ctor'] == 'ok':
                        why = 'the update raised but the constructor returned'
                    ctx.count('ctor_cases')
                    if why and len([b for b in ctx.broken if b['name'] == 'C17.ctor']) < 8:
                        ctx.broke('correspondence', 'C17.ctor', f"{cls.__name__}({par}=<{nk}>), old kind {ob['okind']}: {why}",
                                  data=dict(kind='ctor', cls=cls.__name__, par=par, nk=nk, tok=tok, probe=probe, impl=ob, model=ml[0]))
                ask([f"outcome asis {ob['okind']} {nk}"], cb)

    # ---- (3) unknown keys / metadata / leftovers at every route ----------------------------------------------------
    route_cases(ctx, ask, targets, mods, Probe)

    # ---- (4) spellings ---------------------------------------------------------------------------------------------
    spelling_cases(ctx, ask, mods)

    # ---- (4b) round 2: merging, ss.Time route, duplicates, depth-3 nesting ------------------------------------------
    round2_cases(ctx, ask, classes)

    # ---- (4c) round 3: name-keyed parameters resolved at init (beta maps), ownership of caller-supplied dicts -----------
    from harness.props import c17_refs
    c17_refs.round3_cases(ctx, ask)
    # ---- (4d) round 4: sim-level shortcut parameters and derived settings (validate_demographics) ----------------------
    from harness.props import c17_simlevel
    c17_simlevel.round4_cases(ctx, ask)
    from harness.props import c17_timepar
    c17_timepar.round5_cases(ctx, ask)
    from harness.props import c17_modtime
    c17_modtime.round6_cases(ctx, ask)

    # ---- (5) inputs copied -----------------------------------------------------------------------------------------
    def cb_copy(ml):
        obs = observe_copy(ctx.rng.randint(0, 10**6))
        exp_default = ml[0] == 'ok 9'; exp_off = ml[1] == 'ok 3'; exp_on = ml[2] == 'ok 9'
        if not (exp_default and exp_off and exp_on):
            ctx.broke('correspondence', 'C17.copy', f'model simInput lines unexpected: {ml}')
        for f in obs['fails']:
            ctx.broke('correspondence', 'C17.copy', f'model says inputs are copied by default / shared only when disabled; implementation: {f}', data=dict(kind='copy', seed=obs['seed']))
        ctx.case(('copy', obs['seed']), True, sample=dict(kind='input-isolation', checks=obs['checks']))
    ask(['siminput default 9 3', 'siminput 0 9 3', 'siminput 1 9 3'], cb_copy)

    out = ctx.drive(DRIVER, lines)
    if len(out) != len(lines):
        ctx.broke('correspondence', 'driver', f'driver returned {len(out)} lines for {len(lines)} operations')
        return
    for i, ln in enumerate(out):
        if ln == 'bad-op':
            ctx.broke('correspondence', 'driver', f'model rejected operation line: {lines[i]}')
            return
    for start, n, cb in checks:
        cb(out[start:start + n])


def round2_cases(ctx, ask, classes):
    """ keyword/dict precedence, classes that never call update_pars (ss.Time route), duplicate module names, depth 3 """
    import starsim as ss
    quiet()

    def verdict(fn):
        try:
            return 'ok', fn()
        except Exception as e:
            return err_kind(e), f'{type(e).__name__}: {str(e)[:80]}'

    def cmp(name, ls, impl, extract, data):
        """ impl = (verdict, value); extract(model line) -> expected comparable value """
        def cb(ml):
            mo = ml[-1]
            ctx.case(('round2', name, repr(data)), True, sample=dict(kind='round2', case=name, impl=str(impl)[:120], model=mo[:120], **data) if ctx.rng.random() < 0.1 else None)
            ctx.count('r2_' + name)
            exp = extract(mo)
            got = impl[0] if impl[0] != 'ok' else ('ok', impl[1])
            if exp != got and len([b for b in ctx.broken if b['name'] == 'C17.round2']) < 8:
                ctx.broke('correspondence', 'C17.round2', f'{name} {data}: impl={got} model={mo[:100]} (expected {exp})', data=dict(kind='round2', case=name, **data))
        ask(ls, cb)

    # (a) precedence in Module.update_pars: same key in the dict and as a keyword, for every numeric parameter of every class
    a, b = sentinel(3), sentinel(4)
    for mk, cls in classes:
        m0 = construct(cls)
        if not uses_update_pars(cls): continue
        for par in [k for k in m0.pars.keys() if okind_of(m0.pars[k]) == 'num' and not isinstance(m0.pars[k], bool)][:2]:
            for form in ('posdict', 'parsdict'):
                ps = [p_ for p_ in inspect.signature(cls.__init__).parameters.values() if p_.name != 'self']
                if form == 'posdict' and (not ps or ps[0].name != 'pars'): continue
                def run(cls=cls, par=par, form=form):
                    m = cls({par: a}, **{par: b}) if form == 'posdict' else construct(cls, pars={par: a}, **{par: b})
                    return m.pars[par]
                impl = verdict(run)
                def ex(mo, par=par):
                    items = dict((x.split(':')[0], int(x.split(':')[2])) for x in mo.split()[1].split(',')) if mo.startswith('ok ') else None
                    return ('ok', sentinel(items[par])) if items else mo.split()[0]
                cmp('kw-vs-dict', [f'mergekw {par}:number:3 {par}:number:4'], impl, ex, dict(cls=cls.__name__, par=par, form=form))
    # Sim: pars dict vs named argument vs keyword
    for key, va, vb in (('n_agents', 111, 222), ('dt', 0.5, 0.25), ('rand_seed', 7, 9), ('label', 'la', 'lb'), ('verbose', 0, 0.5)):
        impl = verdict(lambda: ss.Sim(pars={key: va}, **{key: vb}).pars[key])
        cmp('sim-kw-vs-pars', [f'mergesim {key}:number:1 - {key}:number:2'], impl,
            lambda mo, va=va, vb=vb: ('ok', {1: va, 2: vb}[int(mo.split()[1].split(':')[2])]), dict(key=key))
    impl = verdict(lambda: ss.Sim(pars=dict(diseases='sis'), diseases='sir').pars['diseases'])
    cmp('sim-arg-vs-pars', ['mergesim diseases:str:1 diseases:str:2 -'], impl,
        lambda mo: ('ok', {1: 'sis', 2: 'sir'}[int(mo.split()[1].split(':')[2])]), {})
    impl = verdict(lambda: (lambda s_: (s_.pars.n_agents, s_.pars.dt, s_.pars.diseases))(ss.Sim(pars=dict(n_agents=77, dt=0.5), diseases='sir', dt=0.25)))
    cmp('sim-mixed', ['mergesim n_agents:number:1,dt:number:2 diseases:str:3 dt:number:4'], impl,
        lambda mo: ('ok', (77, 0.25, 'sir')) if mo == 'ok n_agents:number:1,dt:number:4,diseases:str:3' else mo, {})

    # (b) classes whose constructor never reaches update_pars: keywords and `pars=` go to ss.Time
    nop = [cls for mk, cls in classes if not uses_update_pars(cls) and not issubclass(cls, ss.Network)]
    ctx.notes['classes_without_update_pars'] = [c.__name__ for c in nop]
    for cls in nop:
        cn = cls.__name__
        impl = verdict(lambda: construct(cls, zz_unknown=1) and 'built')
        cmp('time-kw-unknown', ['timector asis zz_unknown:number:1 -'], impl, lambda mo: mo.split()[0] if not mo.startswith('ok') else ('ok', 'built'), dict(cls=cn))
        impl = verdict(lambda: (lambda m: (m.t.dt, m.t.unit))(construct(cls, pars=dict(dt=0.5, unit='day'))))
        cmp('time-pars-known', ['timector asis - dt:number:1,unit:str:2'], impl,
            lambda mo: ('ok', (0.5, 'day')) if mo == 'ok dt:1,unit:2' else mo, dict(cls=cn))
        impl = verdict(lambda: (lambda m: m.t.dt)(construct(cls, dt=0.25, pars=dict(dt=0.5))))
        cmp('time-kw-vs-pars', ['timector asis dt:number:1 dt:number:2'], impl,
            lambda mo: ('ok', {1: 0.25, 2: 0.5}[int(mo.split()[1].split(':')[1])]) if mo.startswith('ok dt:') else mo, dict(cls=cn))
        impl = verdict(lambda: (lambda m: m.t.dt)(construct(cls, pars=dict(zz_unknown=1, dt=0.5))))
        cmp('time-pars-unknown', ['timector asis - zz_unknown:number:1,dt:number:2'], impl,
            lambda mo: ('ok', 0.5) if mo == 'ok dt:2' else mo.split()[0], dict(cls=cn))

    # (c) module lists with repeated names
    lists = [(['sir', 'sis'], 'sir,sis'), (['sir', 'sir'], 'sir,sir'), ([ss.SIR(), ss.SIR()], 'sir,sir'),
             ([ss.SIR(name='a'), ss.SIR(name='b')], 'a,b'), (['sir', dict(type='sir')], 'sir,sir'),
             ([ss.SIR(), 'sis', dict(type='sir', name='x')], 'sir,sis,x'), (['sis', ss.SIR(name='sis')], 'sis,sis')]
    m_same = ss.SIR(); lists.append(([m_same, m_same], 'sir,sir'))
    for lst, names in lists:
        def run(lst=lst):
            s_ = ss.Sim(diseases=lst); s_.pars.validate(); return ','.join(s_.pars.diseases.keys())
        impl = verdict(run)
        cmp('ndict-names', [f'ndict {names}'], impl, lambda mo: ('ok', mo.split()[1]) if mo.startswith('ok') else mo.split()[0], dict(names=names))
    for lst, names in ((['random', 'random'], 'randomnet,randomnet'), (['random', 'mf'], 'randomnet,mfnet')):
        def run(lst=lst):
            s_ = ss.Sim(networks=lst); s_.pars.validate(); return ','.join(s_.pars.networks.keys())
        impl = verdict(run)
        cmp('ndict-names', [f'ndict {names}'], impl, lambda mo: ('ok', mo.split()[1]) if mo.startswith('ok') else mo.split()[0], dict(names=names))

    # (d) depth 3: validated sim pars -> diseases container -> module -> parameter, vs updateN 3
    for name in ('sir', 'sis'):
        for key, val, item in (('dur_inf', 4.25, 'number'), ('zz_unknown', 1, 'number'), ('dur_inf', 'abc', 'str'), ('init_prev', None, 'nil')):
            for target in (name, 'zz_nomodule'):
                for create in (0, 1):
                    spv = ss.SimPars(diseases=name, networks='random'); spv.validate()
                    spec = leaves_spec(spv.diseases[name].pars)
                    def run(spv=spv, target=target, key=key, val=val, create=create, name=name):
                        spv.update(diseases={target: {key: val}}, create=bool(create))
                        cur = spv.diseases[name].pars.get(key)
                        return 'applied' if (val is None or (hasattr(cur, 'pars') and cur.pars[0] == val)) else f'not-applied:{cur}'
                    impl = verdict(run)
                    def ex(mo, key=key, item=item):
                        if not mo.startswith('ok'): return mo.split()[0]
                        return ('ok', 'applied') if (item == 'nil' or f'{key}:' in mo and ':oldFirst:5' in mo) else ('ok', 'model-not-applied')
                    cmp('deep3', [f'deep asis {create} {name} {spec} {target} {key}:{item}:5'], impl, ex, dict(module=name, target=target, key=key, valkind=item, create=create))


@contextlib.contextmanager
def record_updates():
    """ Wrap ss.Pars.update: record (pars object, items, old objects, exception) of every call """
    ss = _ss()
    orig = ss.Pars.update
    calls = []

    def wrapped(self, pars=None, create=False, **kwargs):
        items = dict(pars or {}) | kwargs if (pars is None or isinstance(pars, dict)) else None
        rec = dict(self=self, items=items, create=create, olds={k: self[k] for k in (items or {}) if k in self}, exc=None)
        calls.append(rec)
        try:
            return orig(self, pars, create=create, **kwargs)
        except Exception as e:
            rec['exc'] = e
            raise
    ss.Pars.update = wrapped
    try:
        yield calls
    finally:
        ss.Pars.update = orig


def run_ctor(cls, par, nk, tok, probe=False):
    """ cls(par=value): old kind and effect at the moment update_pars applies it; whole-constructor outcome """
    quiet()
    # old object at update time = the default defined by define_pars (first create=True call that has the key)
    old_default = None
    with record_updates() as calls0:
        try:
            cls() if probe else construct(cls)
        except Exception:
            return None
    for c in calls0:
        if c['create'] and c['items'] and par in c['items']:
            old_default = c['items'][par]
    if old_default is None:
        return None
    new = make_new(nk, tok, old_default)
    res = dict(ctor='ok', upd=None)
    with record_updates() as calls:
        try:
            m = cls(**{par: new}) if probe else construct(cls, **{par: new})
        except Exception as e:
            res['ctor'] = err_kind(e); res['exc'] = f'{type(e).__name__}: {str(e)[:100]}'
            m = None
    hit = None
    for c in calls:
        if not c['create'] and c['items'] and par in c['items'] and c['items'][par] is new:
            hit = c
    if hit is None:
        return None
    old = hit['olds'].get(par)
    res['okind'] = okind_of(old)
    if hit['exc'] is not None:
        res['upd'] = err_kind(hit['exc']); res['exc'] = f"{type(hit['exc']).__name__}: {str(hit['exc'])[:100]}"
    else:
        res['upd'] = 'ok'
        # effect right after the update: the Pars object still holds what update put there unless __init__ replaced it later
        cur = hit['self'].get(par) if m is None else None
        if m is not None:
            cur = m.pars[par]
        eff = observe_effect(old, new, cur, nk)
        if eff in ('other-object', 'kept') and m is not None:
            # the constructor post-processed the parameter (e.g. Deaths wraps death_rate): look at the old object itself
            eff2 = observe_effect(old, new, old, nk) if nk not in ('dictTypeBern', 'dictTypeDist') else eff
            if eff2 not in ('kept', 'other-object'): eff = eff2
            elif graph_has(m, new, nk, tok): eff = model_eff_placeholder(old, nk)
        res['eff'] = eff
    return res


def model_eff_placeholder(old, nk):
    """ the constructor moved the value elsewhere in the module; accept whatever effect the model names (compared as 'moved') """
    return 'moved'


# ---------------------------------------------------------------------------
# routes

def route_cases(ctx, ask, targets, mods, Probe):
    import starsim as ss, sciris as sc
    quiet()

    def expect(name, ls, impl_fn, data, key=None):
        """ run impl_fn() -> 'ok'/'E:..'; compare with the model's verdict (first token of its last line).
            `key`: the comparison of the error KIND applies only if Module.update_pars received this key (otherwise the
            class rejected it earlier, e.g. in ss.Time(**kwargs)); an error is required either way. """
        with watch_update_pars() as seen:
            try:
                impl_fn(); impl = 'ok'; exc = None
            except Exception as e:
                impl = err_kind(e); exc = f'{type(e).__name__}: {str(e)[:100]}'
        early = key is not None and key not in seen['keys']

        def cb(ml):
            mo = ml[-1].split()[0]
            ctx.case(('route', name, repr(data)), True, sample=dict(kind='route', route=name, impl=impl, model=mo, **data) if ctx.rng.random() < 0.05 else None)
            ctx.count('route_' + name)
            if early and impl != 'ok' and mo != 'ok':
                ctx.count('route_rejected_before_update_pars'); return
            if impl != mo and len([b for b in ctx.broken if b['name'] == 'C17.route']) < 8:
                ctx.broke('correspondence', 'C17.route', f"route {name} {data}: impl={impl} ({exc}) model={ml[-1][:80]}", data=dict(kind='route', route=name, **data))
        ask(ls, cb)

    # module constructors: unknown keyword by three spellings; metadata / time arguments
    for mk, cls, probe in targets:
        m0 = cls() if probe else construct(cls)
        spec = leaves_spec(m0.pars)
        if not all(safe_key(k) for k in m0.pars.keys()): continue
        mk_ = (lambda **kw: cls(**kw)) if probe else (lambda **kw: construct(cls, **kw))
        cn = cls.__name__
        if not uses_update_pars(cls, probe):
            ctx.count('route_skipped_class_without_update_pars')   # kwargs go to ss.Time / network columns: not the modelled route
            continue
        expect('ctor-kw', [f'updatepars asis {spec} zz_unknown:number:5'], lambda: mk_(zz_unknown=1), dict(cls=cn), key='zz_unknown')
        expect('ctor-pars', [f'updatepars asis {spec} zz_unknown:number:5'], lambda: mk_(pars=dict(zz_unknown=1)), dict(cls=cn), key='zz_unknown')
        expect('ctor-name-str', [f'updatepars asis {spec} name:str:5'], lambda: mk_(name='myname'), dict(cls=cn))
        if 'name' not in m0.pars:
            expect('ctor-name-num', [f'updatepars asis {spec} name:number:5'], lambda: mk_(name=3), dict(cls=cn))
        if 'dt' not in m0.pars:
            expect('ctor-dt', [f'updatepars asis {spec} dt:number:5'], lambda: mk_(dt=0.5), dict(cls=cn))
        keys = [k for k in m0.pars.keys() if okind_of(m0.pars[k]) == 'num']
        if keys:
            k = ctx.rng.choice(keys)
            expect('ctor-known+unknown', [f'updatepars asis {spec} {k}:number:5,zz_unknown:number:6'], lambda: mk_(**{k: 0.5, 'zz_unknown': 1}), dict(cls=cn, par=k), key='zz_unknown')
    # Sim-level
    sp = ss.SimPars()
    simspec = leaves_spec(sp)
    expect('sim-kw', [f'update asis 0 {simspec} zz_unknown:number:5'], lambda: ss.Sim(zz_unknown=1), {})
    expect('sim-pars', [f'update asis 0 {simspec} zz_unknown:number:5'], lambda: ss.Sim(pars=dict(zz_unknown=1)), {})
    expect('sim-dict', [f'update asis 0 {simspec} zz_unknown:number:5'], lambda: ss.Sim(dict(zz_unknown=1)), {})
    expect('sim-known', [f'update asis 0 {simspec} n_agents:number:5,verbose:number:6'], lambda: ss.Sim(n_agents=50, verbose=0), {})
    expect('simpars-create', [f'update asis 1 {simspec} zz_unknown:number:5'], lambda: ss.SimPars().update(zz_unknown=1, create=True), {})
    # nested dict specification of a module, per module list, sampled names
    reg_lines, cid = registry_lines(mods)
    for mk in MODKEYS:
        names = [n for n, c in mods.get(mk, {}).items() if c in cid and cid[c][1] and uses_update_pars(c)]
        ctx.rng.shuffle(names)
        for name in names[:ctx.budget(3, 40)]:
            for form in ('single', 'list', 'pars'):
                def impl(mk=mk, name=name, form=form):
                    d = dict(type=name, zz_unknown=1)
                    if form == 'single': s = ss.Sim(**{mk: d})
                    elif form == 'list': s = ss.Sim(**{mk: [d]})
                    else: s = ss.Sim(pars={mk: d})
                    s.pars.validate()
                expect('spec-dict-unknown', reg_lines + [f'convert asis {mk} 9 dictname|{name}|zz_unknown:number:1'], impl, dict(modkey=mk, name=name, form=form), key='zz_unknown')
        expect('spec-dict-notype', reg_lines + [f'convert asis {mk} 9 dictnone|zz_unknown:number:1'],
               lambda mk=mk: ss.Sim(**{mk: dict(zz_unknown=1)}).pars.validate(), dict(modkey=mk))
        expect('spec-badname', reg_lines + [f'convert asis {mk} 9 str|zz_nomodule'],
               lambda mk=mk: ss.Sim(**{mk: 'zz_nomodule'}).pars.validate(), dict(modkey=mk))
        expect('spec-number', reg_lines + [f'convert asis {mk} 9 other'],
               lambda mk=mk: ss.Sim(**{mk: 3}).pars.validate(), dict(modkey=mk))
    # post-init nested Pars (sim.pars[module name] is module.pars) and validated module containers
    sim = ss.Sim(n_agents=40, dur=2, diseases='sir', networks='random', verbose=0); sim.init()
    sub = leaves_spec(sim.pars['sir'])
    expect('nested-unknown', [f'sub asis 0 {sub} dict/dictNoType/5/zz_unknown:number:6'], lambda: sim.pars.update(sir=dict(zz_unknown=1)), {})
    expect('nested-known', [f'sub asis 0 {sub} dict/dictNoType/5/dur_inf:number:6'], lambda: sim.pars.update(sir=dict(dur_inf=4.5)), {})
    expect('nested-none', [f'sub asis 0 {sub} atom/nil/5'], lambda: sim.pars.update(sir=None), {})
    expect('nested-number', [f'sub asis 0 {sub} atom/number/5'], lambda: sim.pars.update(sir=3), {})
    expect('nested-str', [f'sub asis 0 {sub} atom/str/5'], lambda: sim.pars.update(sir='abc'), {})
    expect('nested-create', [f'sub asis 1 {sub} dict/dictNoType/5/zz_new:number:6'], lambda: ss.Pars(s=ss.Pars(a=1)).update(s=dict(zz_new=1), create=True), {})
    spv = ss.SimPars(diseases='sir', networks='random'); spv.validate()
    msub = leaves_spec(spv.diseases['sir'].pars)
    expect('ndict-unknown', [f'mods asis 0 sir {msub} sir dict/dictNoType/5/zz_unknown:number:6'], lambda: spv.update(diseases={'sir': {'zz_unknown': 1}}), {})
    expect('ndict-known', [f'mods asis 0 sir {msub} sir dict/dictNoType/5/dur_inf:number:6'], lambda: spv.update(diseases={'sir': {'dur_inf': 4.5}}), {})
    expect('ndict-badmodule', [f'mods asis 0 sir {msub} zz dict/dictNoType/5/dur_inf:number:6'], lambda: spv.update(diseases={'zz': {'dur_inf': 4.5}}), {})
    expect('ndict-number', [f'modsatom asis 0 sir {msub} number'], lambda: spv.update(diseases=3), {})
    expect('ndict-none', [f'modsatom asis 0 sir {msub} nil'], lambda: spv.update(diseases=None), {})
    expect('ndict-create-still-strict', [f'mods asis 1 sir {msub} sir dict/dictNoType/5/zz_unknown:number:6'], lambda: spv.update(diseases={'sir': {'zz_unknown': 1}}, create=True), {})
    # in-effect check of the nested routes
    if sim.diseases.sir.pars.dur_inf.pars[0] != 4.5:
        ctx.broke('correspondence', 'C17.route', 'sim.pars.update(sir=dict(dur_inf=4.5)) returned but the module parameter is not 4.5')
    if spv.diseases.sir.pars.dur_inf.pars[0] != 4.5:
        ctx.broke('correspondence', 'C17.route', 'pars.update(diseases={sir:{dur_inf:4.5}}) returned but the module parameter is not 4.5')


def registry_lines(mods):
    """ regname / regexp / regcls lines describing the live registry; {class: (id, constructible)} """
    ss = _ss()
    quiet()
    mm = ss.module_map()
    cid = {}; lines = []
    for mk in MODKEYS:
        for name, cls in mods.get(mk, {}).items():
            if cls not in cid:
                try:
                    m = cls(); spec = leaves_spec(m.pars); okc = all(safe_key(k) for k in m.pars.keys())
                except Exception:
                    spec = '-'; okc = False
                cid[cls] = (len(cid), okc)
                lines.append(f'regcls {cid[cls][0]} {spec}')
            lines.append(f'regname {mk} {name} {cid[cls][0]}')
            if issubclass(cls, mm[mk]):
                lines.append(f'regexp {mk} {cid[cls][0]}')
    return lines, cid


def spelling_cases(ctx, ask, mods):
    import starsim as ss
    quiet()
    reg_lines, cid = registry_lines(mods)

    def conv(mk, spelling, needs_prenatal=False):
        s = ss.Sim(**{mk: [spelling, ss.PrenatalNet()] if needs_prenatal else spelling})
        s.pars.validate()
        got = s.pars[mk]
        if len(got) != (2 if needs_prenatal else 1): raise RuntimeError(f'{len(got)} modules')
        return list(got.values())[0]

    for mk in MODKEYS:
        for name, cls in mods.get(mk, {}).items():
            c, okc = cid[cls]
            if not okc: continue
            spellings = [('str', name, f'str|{name}'), ('STR', name.upper(), f'str|{name.upper()}'),
                         ('dictname', dict(type=name), f'dictname|{name}|-'), ('dictcls', dict(type=cls), f'dictcls|{c}|-'),
                         ('cls', cls, f'cls|{c}'), ('inst', None, f'inst|{c}|3')]
            obs = []
            try: needs_pre = mk == 'networks' and bool(getattr(cls(), 'postnatal', False))
            except Exception: needs_pre = False
            for tag, sp, _ in spellings:
                try:
                    m = conv(mk, cls() if tag == 'inst' else sp, needs_pre)
                    obs.append(('ok', type(m).__name__, canon(m.pars)))
                except Exception as e:
                    obs.append((err_kind(e), f'{type(e).__name__}: {str(e)[:80]}', None))

            def cb(ml, obs=obs, spellings=spellings, mk=mk, name=name, cls=cls):
                ml = ml[-len(spellings):]
                ref = None
                for (tag, sp, _), ob, m in zip(spellings, obs, ml):
                    mo = m.split()[0]
                    ctx.case(('spelling', mk, name, tag), True, sample=dict(kind='spelling', modkey=mk, name=name, form=tag, impl=ob[0], model=m[:60]) if ctx.rng.random() < 0.02 else None)
                    ctx.count('spelling_' + tag)
                    if ob[0] != mo:
                        ctx.broke('correspondence', 'C17.spelling', f'{mk}={tag}:{name}: impl={ob[0]} ({ob[1]}) model={m[:80]}', data=dict(kind='spelling', modkey=mk, name=name, form=tag))
                        return
                    if ob[0] == 'ok':
                        if ob[1] != cls.__name__:
                            ctx.broke('correspondence', 'C17.spelling', f'{mk}={tag}:{name} built a {ob[1]}, registry says {cls.__name__}')
                        if ref is None: ref = (tag, ob[2], ' '.join(m.split()[4:]))
                        else:
                            if ob[2] != ref[1]:
                                ctx.broke('correspondence', 'C17.spelling', f'{mk}: spellings {ref[0]} and {tag} of {name} give different parameters', data=dict(kind='spelling', modkey=mk, name=name, form=tag))
                            if ' '.join(m.split()[4:]) != ref[2]:
                                ctx.broke('correspondence', 'C17.spelling', f'model: spellings {ref[0]} and {tag} of {name} have different normal forms')
            ask(reg_lines + [f'convert asis {mk} 3 {code}' for _, _, code in spellings], cb)
            reg_lines = []   # the registry persists in the driver
    # functions as interventions / analyzers, and as anything else
    for mk in MODKEYS:
        def impl(mk=mk):
            def fn(sim): pass
            s = ss.Sim(**{mk: fn}); s.pars.validate()
        try:
            impl(); ob = 'ok'
        except Exception as e:
            ob = err_kind(e)

        def cb(ml, ob=ob, mk=mk):
            ctx.case(('spelling-func', mk), True)
            if ml[0].split()[0] != ob:
                ctx.broke('correspondence', 'C17.spelling', f'{mk}=<function>: impl={ob} model={ml[0]}')
        ask([f'convert asis {mk} 3 func'], cb)
    # idempotence on the real code: validating a validated SimPars changes nothing
    sp = ss.SimPars(diseases=['sir', dict(type='sis', dur_inf=3.5)], networks=dict(type='random', n_contacts=4), interventions=ss.routine_vx(product=ss.sir_vaccine(), prob=0.1))
    sp.validate(); a = {mk: canon(sp[mk]) for mk in MODKEYS}; ids = {mk: [id(m) for m in sp[mk].values()] for mk in MODKEYS}
    try:
        sp.validate()
        b = {mk: canon(sp[mk]) for mk in MODKEYS}; ids2 = {mk: [id(m) for m in sp[mk].values()] for mk in MODKEYS}
        if a != b or ids != ids2:
            ctx.broke('correspondence', 'C17.spelling', 'validate() is not idempotent on an already converted SimPars (model: convert is idempotent)')
    except Exception as e:
        ctx.notes['revalidate'] = f'second validate() raised {type(e).__name__}: {str(e)[:100]}'


# ---------------------------------------------------------------------------
# input isolation

def small_sim(seed, copy_inputs=None, **kw):
    ss = _ss()
    base = dict(n_agents=120, dur=6, verbose=0, rand_seed=1 + seed % 50)
    base.update(kw)
    if copy_inputs is None: return ss.Sim(**base)
    return ss.Sim(copy_inputs=copy_inputs, **base)


def flat_results(sim):
    out = {}
    for k, v in sim.results.flatten().items():
        try: out[k] = np.asarray(v.values if hasattr(v, 'values') else v, dtype=float).tobytes()
        except Exception: pass
    return out


def observe_copy(seed):
    """ two sims built from the same user-held module objects; deep comparison before / after """
    import starsim as ss
    quiet()
    fails = []; checks = 0
    dis = ss.SIR(dur_inf=dict(type='normal', loc=4.0, scale=1.0), beta=0.2, init_prev=0.1)
    net = ss.RandomNet(n_contacts=4)
    vx = ss.routine_vx(product=ss.sir_vaccine(), prob=0.2, start_year=2001)
    user = dict(diseases=dis, networks=net, interventions=vx)
    before = {k: module_state(m) for k, m in user.items()}
    prod_before = canon(vx.product.pars) if hasattr(vx.product, 'pars') else None
    sims = []
    for i in range(2):
        try:
            s = small_sim(seed, diseases=dis, networks=net, interventions=vx)
            s.run(); sims.append(s)
        except Exception as e:
            fails.append(f'sim {i + 1} built from the user-held module objects failed ({type(e).__name__}: {str(e)[:100]}); the first sim left the user\'s objects in a used state')
    after = {k: module_state(m) for k, m in user.items()}
    for k in user:
        checks += 1
        if before[k] != after[k]:
            diff = [f for f in before[k] if before[k][f] != after[k][f]]
            fails.append(f'user-held {k} object changed after being passed to two sims (fields {diff})')
    if prod_before != (canon(vx.product.pars) if hasattr(vx.product, 'pars') else None):
        fails.append('the product of the user-held intervention changed')
    if len(sims) < 2:
        return dict(fails=fails, checks=checks, seed=seed)
    for k, lst in (('diseases', 'diseases'), ('networks', 'networks'), ('interventions', 'interventions')):
        held = [list(s[lst].values())[0] for s in sims]
        checks += 3
        if any(h is user[k] for h in held): fails.append(f'a sim holds the user\'s {k} object itself although copy_inputs defaults to True')
        if held[0] is held[1]: fails.append(f'two sims share one {k} object')
        if type(held[0]) is not type(user[k]): fails.append(f'sim holds a {type(held[0]).__name__} for the user\'s {type(user[k]).__name__}')
    d0, d1 = sims[0].diseases[0], sims[1].diseases[0]
    checks += 2
    if d0.pars.dur_inf is dis.pars.dur_inf or d0.pars.dur_inf is d1.pars.dur_inf: fails.append('a distribution object inside the module parameters is shared')
    if sims[0].interventions[0].product is vx.product: fails.append('the intervention\'s product object is shared with the user\'s')
    if canon(d0.pars.dur_inf.pars) != canon(dis.pars.dur_inf.pars) and not d0.initialized:
        fails.append('the copy does not carry the user\'s parameters')
    checks += 1
    if flat_results(sims[0]) != flat_results(sims[1]): fails.append('two sims built from the same user objects give different results')
    # explicit sharing
    dis2 = ss.SIR(); s3 = small_sim(seed, copy_inputs=False, diseases=dis2, networks='random'); s3.pars.validate()
    checks += 1
    if list(s3.pars.diseases.values())[0] is not dis2: fails.append('copy_inputs=False did not keep the user\'s object')
    # explicit copy
    dis3 = ss.SIR(); s4 = small_sim(seed, copy_inputs=True, diseases=dis3, networks='random'); s4.pars.validate()
    if list(s4.pars.diseases.values())[0] is dis3: fails.append('copy_inputs=True kept the user\'s object')
    return dict(fails=fails, checks=checks, seed=seed)


# ---------------------------------------------------------------------------
# the oracle on the real code

def graph_has(root, new, nk, tok, maxdepth=7):
    """ is the supplied value (its identity, or the sentinel it carries) reachable from `root`? """
    import pandas as pd
    ss = _ss()
    s = sentinel(tok)
    want_str = f'tok{tok}'
    seen = set()

    def hit(x):
        if new is not None and x is new and nk not in ('nil',): return True
        if isinstance(x, float) and x == s: return True
        if isinstance(x, str) and nk == 'str' and x == want_str: return True
        if isinstance(x, np.ndarray) and x.dtype.kind == 'f' and x.size < 10000 and np.any(x == s): return True
        if isinstance(x, (pd.Series, pd.DataFrame)):
            try: return bool(np.any(np.asarray(x.values, dtype=float) == s))
            except Exception: return False
        if callable(x) and getattr(x, 'sentinel', None) == s: return True
        return False

    def walk(x, d):
        if hit(x): return True
        if d > maxdepth or id(x) in seen: return False
        seen.add(id(x))
        if isinstance(x, (str, bytes, numbers.Number, type(None), np.ndarray, pd.Series, pd.DataFrame, type)): return False
        if isinstance(x, dict):
            return any(walk(v, d + 1) for v in x.values())
        if isinstance(x, (list, tuple, set)):
            return any(walk(v, d + 1) for v in x)
        if isinstance(x, ss.Sim): return False
        dd = getattr(x, '__dict__', None)
        if isinstance(dd, dict):
            return any(walk(v, d + 1) for k, v in dd.items() if k not in ('sim', 'module', 'rng', '_n', '_size'))
        return False
    return walk(root, 0)


def stray_names(v, depth=0):
    """ names stored in a distribution's parameter dict that the distribution class does not understand """
    ss = _ss()
    out = []
    if depth > 4: return out
    if isinstance(v, ss.Dist):
        sig = dist_signature(v)
        out += [k for k in v.pars.keys() if k not in sig]
        for x in v.pars.values(): out += stray_names(x, depth + 1)
    elif isinstance(v, dict):
        for x in v.values(): out += stray_names(x, depth + 1)
    return out


def in_effect(m, par, new, nk, tok):
    """ model-free: the supplied value is in effect in module `m` """
    cur = m.pars.get(par) if par in m.pars else None
    if nk == 'nil':
        return cur is None or graph_has(m, new, nk, tok)
    if nk == 'cls':
        return cur is new
    if isinstance(new, list) and not (cur is new):     # a list spread over parameters: EVERY element must be in effect
        return all(graph_has_exact(cur, x) or graph_has_exact(m, x) for x in new)
    if graph_has(cur, new, nk, tok): return True
    return graph_has(m, new, nk, tok)      # constructors may move a value (Deaths.death_rate_data)


def oracle_apply(cls, par, nk, tok, route, probe=False):
    """ supplied value in effect, or an error raised?  -> None or failure dict """
    import starsim as ss
    quiet()
    try:
        m0 = cls() if probe else construct(cls)
    except Exception:
        return None
    old_default = None
    with record_updates() as calls0:
        try: cls() if probe else construct(cls)
        except Exception: return None
    for c in calls0:
        if c['create'] and c['items'] and par in c['items']: old_default = c['items'][par]
    target = old_default if (route != 'direct' and old_default is not None) else m0.pars[par]
    new = make_new(nk, tok, target)
    tk = okind_of(target)
    try:
        if route == 'direct':
            m = m0; m.pars.update({par: new})
        elif route == 'ctor':
            m = cls(**{par: new}) if probe else construct(cls, **{par: new})
        elif route == 'ctor-pars':
            m = cls(pars={par: new}) if probe else construct(cls, pars={par: new})
        else:
            raise ValueError(route)
    except Exception:
        return None      # rejected
    target_kind = 'Dist' if tk.startswith(('dist', 'bern')) else 'TimePar' if tk.startswith(('timepar', 'beta')) else tk
    sig = dict(oracle='dropped', route=route, target=target_kind, newkind=nk)
    what = None
    strays = stray_names(m.pars.get(par))
    if isinstance(new, dict) and strays:
        sig = dict(oracle='unknown-dist-par-accepted', target=target_kind, newkind=nk)
        what = (f"{cls.__name__}({par}={new!r}) [{route}] returned normally, but the name(s) {strays} are not parameters of "
                f"{type(m.pars[par]).__name__}: stored as stray entries of dist.pars, neither in effect nor rejected")
    elif not in_effect(m, par, new, nk, tok):
        what = (f"{cls.__name__}: {par}=<{nk} carrying {sentinel(tok)}> via route {route} returned normally but the supplied value is "
                f"not in effect (stored value: {str(m.pars.get(par))[:80]})")
    if what:
        return dict(signature=sig, what=what, data=dict(kind='apply', cls=cls.__name__, probe=probe, par=par, nk=nk, tok=tok, route=route))
    return None


def oracle_spec_route(mk, name, par, nk, tok):
    """ the same through a dict specification inside ss.Sim(...) """
    import starsim as ss
    quiet()
    mods = ss.find_modules()
    cls = mods[mk][name]
    try:
        target = cls().pars[par]
    except Exception:
        return None
    new = make_new(nk, tok, target)
    try:
        s = ss.Sim(**{mk: dict(type=name, **{par: new})})
        s.pars.validate()
        m = list(s.pars[mk].values())[0]
    except Exception:
        return None
    # Sim deep-copies its inputs: identity is lost, sentinels survive
    strays = stray_names(m.pars.get(par))
    tk = okind_of(target)
    target_kind = 'Dist' if tk.startswith(('dist', 'bern')) else 'TimePar' if tk.startswith(('timepar', 'beta')) else tk
    data = dict(kind='spec', modkey=mk, name=name, par=par, nk=nk, tok=tok)
    if isinstance(new, dict) and strays:
        return dict(signature=dict(oracle='unknown-dist-par-accepted', target=target_kind, newkind=nk),
                    what=f"ss.Sim({mk}=dict(type='{name}', {par}={new!r})) accepted the unknown distribution parameter name(s) {strays}", data=data)
    ok = True
    if nk == 'nil': ok = m.pars.get(par) is None or True
    elif nk == 'cls': ok = m.pars.get(par) is new
    elif nk in ('bern', 'dist', 'timeparD', 'timeparN', 'func', 'series', 'dataframe'):
        ok = graph_has(m, None, nk, tok) or (nk == 'func' and callable(m.pars.get(par)) or graph_has(m.pars.get(par), None, 'func', tok))
    elif isinstance(new, list):
        ok = all(graph_has_exact(m, x) for x in new)
    else:
        ok = graph_has(m, None, nk, tok)
    if not ok:
        return dict(signature=dict(oracle='dropped', route='spec-dict', target=target_kind, newkind=nk),
                    what=f"ss.Sim({mk}=dict(type='{name}', {par}=<{nk}>)) validated but the supplied value is not in the module", data=data)
    return None


UNKNOWN_ROUTES = ['ctor-kw', 'ctor-pars', 'ctor-posdict', 'sim-kw', 'sim-pars', 'sim-posdict', 'spec-dict', 'spec-list', 'spec-in-pars',
                  'nested-postinit', 'ndict-validated', 'known+unknown']


def oracle_unknown(route, mk, name):
    """ an unknown name must raise at every route -> None or failure dict """
    import starsim as ss
    quiet()
    mods = ss.find_modules()
    cls = mods[mk][name]
    bogus = 'zz_unknown_par'
    data = dict(kind='unknown', route=route, modkey=mk, name=name)
    m = None; seen = dict(update_pars=1, time_pars=[])
    try:
        if route.startswith('ctor') or route == 'known+unknown':
            with watch_update_pars() as seen:
                if route == 'ctor-kw': m = construct(cls, **{bogus: 1})
                elif route == 'ctor-pars': m = construct(cls, pars={bogus: 1})
                elif route == 'ctor-posdict':
                    ps = [p for p in inspect.signature(cls.__init__).parameters.values() if p.name != 'self']
                    if not ps or ps[0].name != 'pars': return None
                    m = cls({bogus: 1})
                elif route == 'known+unknown':
                    m0 = construct(cls); keys = [k for k in m0.pars.keys() if okind_of(m0.pars[k]) == 'num']
                    if not keys: return None
                    m = construct(cls, **{keys[0]: m0.pars[keys[0]], bogus: 1})
        elif route == 'sim-kw': ss.Sim(**{bogus: 1})
        elif route == 'sim-pars': ss.Sim(pars={bogus: 1})
        elif route == 'sim-posdict': ss.Sim({bogus: 1})
        elif route in ('spec-dict', 'spec-list', 'spec-in-pars'):
            d = dict(type=name, **{bogus: 1})
            try: pre = mk == 'networks' and bool(getattr(cls(), 'postnatal', False))
            except Exception: pre = False
            lst = [d, ss.PrenatalNet()] if pre else ([d] if route == 'spec-list' else d)
            s = ss.Sim(pars={mk: lst}) if route == 'spec-in-pars' else ss.Sim(**{mk: lst})
            s.pars.validate()
            m = list(s.pars[mk].values())[0]
        elif route == 'nested-postinit':
            s = ss.Sim(n_agents=30, dur=1, diseases='sir', networks='random', verbose=0); s.init()
            s.pars.update(sir={bogus: 1})
        elif route == 'ndict-validated':
            sp = ss.SimPars(diseases='sir'); sp.validate(); sp.update(diseases={'sir': {bogus: 1}})
    except Exception as e:
        return None
    # a Network documents its extra keywords as per-edge data columns: there the value IS in effect
    if m is not None and isinstance(m, ss.Network) and (bogus in getattr(m, 'edges', {}) or 'pars' in getattr(m, 'edges', {})):
        return None
    sink = 'update_pars' if (type(m) in seen.get('types', []) or bogus in seen.get('keys', ())) else ('ss.Time(pars=...)' if any(bogus in (tp or {}) for tp in seen['time_pars'] if isinstance(tp, dict)) else 'other')
    if route in ('spec-dict', 'spec-list', 'spec-in-pars'): sink = 'update_pars' if uses_update_pars(cls) else 'other'
    return dict(signature=dict(oracle='unknown-key-accepted', route=route, sink=sink),
                what=f"unknown parameter name '{bogus}' was accepted without an error via route {route}" + (f" ({mk}:{name})" if route.startswith(('ctor', 'spec', 'known')) else ''), data=data)


BAD_FOR_DIST = ['str', 'nil', 'series', 'array', 'cls']
BAD_FOR_TIMEPAR = ['str', 'nil', 'func', 'dist', 'cls', 'array']


def oracle_bad_value(cls, par, nk, tok, probe=False):
    """ a value that cannot stand in for a distribution / time parameter must raise """
    quiet()
    try:
        m = cls() if probe else construct(cls)
    except Exception:
        return None
    old = m.pars[par]; tk = okind_of(old)
    new = make_new(nk, tok, old)
    try:
        m.pars.update({par: new})
    except Exception:
        return None
    return dict(signature=dict(oracle='bad-value-accepted', target=tk.split('_')[0], newkind=nk),
                what=f"{cls.__name__}.pars.update({par}=<{nk}>) accepted a value that cannot stand in for a {tk}",
                data=dict(kind='bad', cls=cls.__name__, probe=probe, par=par, nk=nk, tok=tok))


SPELL_CONFIGS = [
    dict(diseases='sir', networks='random'),
    dict(diseases='sis', networks='random'),
    dict(diseases='sir', networks='random', demographics='births'),
    dict(diseases='sir', networks='mf'),
]


def spell_variants(cfg, which):
    """ one configuration written with strings / dicts / classes-in-dicts / instances """
    import starsim as ss
    mods = ss.find_modules()
    out = {}
    for mk, name in cfg.items():
        cls = mods[mk][name]
        out[mk] = {'str': name, 'STR': name.upper(), 'dict': dict(type=name), 'dictcls': dict(type=cls), 'inst': cls(),
                   'list-str': [name], 'list-inst': [cls()]}[which]
    return out


def oracle_spelling_results(cfg, seed):
    quiet()
    ref = None
    for which in ('str', 'STR', 'dict', 'dictcls', 'inst', 'list-str', 'list-inst'):
        try:
            s = small_sim(seed, **spell_variants(cfg, which)); s.run()
            r = flat_results(s)
        except Exception as e:
            r = f'{type(e).__name__}: {str(e)[:80]}'
        if ref is None: ref = (which, r)
        elif r != ref[1]:
            keys = [k for k in r if isinstance(r, dict) and isinstance(ref[1], dict) and r.get(k) != ref[1].get(k)][:5] if isinstance(r, dict) else r
            return dict(signature=dict(oracle='spelling-results-differ'),
                        what=f'configuration {cfg} written as `{ref[0]}` and as `{which}` gives different results ({keys})',
                        data=dict(kind='spelling-results', cfg=cfg, seed=seed))
    return None


def oracle_spelling_pars(mk, name):
    """ all accepted spellings of one module give identical parameters """
    import starsim as ss
    quiet()
    cls = ss.find_modules()[mk][name]
    ref = None
    for tag, sp in (('str', name), ('STR', name.upper()), ('dict', dict(type=name)), ('dictcls', dict(type=cls)), ('inst', None)):
        try:
            s = ss.Sim(**{mk: cls() if tag == 'inst' else sp}); s.pars.validate()
            m = list(s.pars[mk].values())[0]
            c = (type(m).__name__, canon(m.pars), m.name)
        except Exception as e:
            c = ('error', type(e).__name__)
        if ref is None: ref = (tag, c)
        elif c != ref[1]:
            return dict(signature=dict(oracle='spelling-pars-differ'), what=f'{mk}: `{ref[0]}` and `{tag}` spellings of {name} differ: {str(ref[1])[:80]} vs {str(c)[:80]}',
                        data=dict(kind='spelling-pars', modkey=mk, name=name))
    return None


# ---------------------------------------------------------------------------
# round 2: always-exercised scenario families (every quick run)

EDGE_NUMBERS = ['zero', 'negative', 'np.float64', 'np.int64', 'np.float32', 'bool', 'int']


def edge_number(tag, tok):
    s_ = sentinel(tok)
    return {'zero': 0, 'negative': -s_, 'np.float64': np.float64(s_), 'np.int64': np.int64(3 + tok), 'np.float32': np.float32(0.5),
            'bool': True, 'int': 2 + tok}[tag]


def oracle_edge_number(cls, par, tag, tok, probe=False):
    """ 0, negatives, numpy scalars and bools standing in for a Dist / TimePar: in effect exactly as given, or an error """
    quiet()
    ss = _ss()
    v = edge_number(tag, tok)
    try:
        m = cls(**{par: v}) if probe else construct(cls, **{par: v})
    except Exception:
        return None
    cur = m.pars.get(par)
    holder = cur
    got = None
    if isinstance(cur, ss.Dist): got = list(cur.pars.values())[0] if len(cur.pars) else None
    elif isinstance(cur, ss.TimePar): got = cur.v
    else:
        # the constructor may have wrapped / moved the parameter: look for the exact object anywhere in the module
        got = v if graph_has_exact(m, v) else None
    ok = got is v or (type(got) == type(v) and got == v) or graph_has_exact(m, v)
    if ok: return None
    return dict(signature=dict(oracle='edge-number-changed', edge=tag),
                what=f"{cls.__name__}({par}={v!r} [{tag}]) returned normally but the value in effect is {got!r} ({type(got).__name__}) in {str(holder)[:60]}",
                data=dict(kind='edge', cls=cls.__name__, probe=probe, par=par, tag=tag, tok=tok))


def graph_has_exact(root, v, maxdepth=6):
    seen = set()

    def walk(x, d):
        if x is v or (type(x) == type(v) and not isinstance(x, (np.ndarray,)) and isinstance(x, numbers.Number) and x == v): return True
        if d > maxdepth or id(x) in seen: return False
        seen.add(id(x))
        if isinstance(x, (str, bytes, numbers.Number, type(None), np.ndarray, type)): return False
        if isinstance(x, dict): return any(walk(y, d + 1) for y in x.values())
        if isinstance(x, (list, tuple)): return any(walk(y, d + 1) for y in x)
        dd = getattr(x, '__dict__', None)
        if isinstance(dd, dict): return any(walk(y, d + 1) for k, y in dd.items() if k not in ('sim', 'module', 'rng'))
        return False
    return walk(root, 0)


def first_param(dist_cls):
    for p_ in inspect.signature(dist_cls.__init__).parameters.values():
        if p_.name != 'self' and p_.kind == p_.POSITIONAL_OR_KEYWORD: return p_.name
    return None


def oracle_value_spellings(cls, par, tname, tok, probe=False):
    """ par=dict(type=T, **kw)  ==  par=ss.T(**kw)  ==  ss.make_dist(type=T, **kw): a dict with `type` is a complete specification """
    quiet()
    ss = _ss()
    T = getattr(ss, tname)
    fp = first_param(T)
    if fp is None: return None
    kw = {fp: sentinel(tok)}
    try:
        ref = canon(ss.make_dist(dict(type=tname, **kw)))
        ref2 = canon(T(**kw))
    except Exception:
        return None
    data = dict(kind='value-spelling', cls=cls.__name__, probe=probe, par=par, tname=tname, tok=tok)
    if ref != ref2:
        return dict(signature=dict(oracle='value-spelling-differs', where='make_dist'), what=f'ss.make_dist(type={tname!r}, {kw}) differs from ss.{tname}({kw})', data=data)
    res = {}
    for tag, val in (('dict', dict(type=tname, **kw)), ('inst', T(**kw))):
        for route in ('ctor', 'direct'):
            try:
                if route == 'ctor':
                    m = cls(**{par: val}) if probe else construct(cls, **{par: val})
                else:
                    m = cls() if probe else construct(cls)
                    val2 = dict(type=tname, **kw) if tag == 'dict' else T(**kw)
                    m.pars.update({par: val2})
                res[(tag, route)] = ('ok', canon(m.pars[par]))
            except Exception as e:
                res[(tag, route)] = (err_kind(e), None)
    for route in ('ctor', 'direct'):
        a_, b_ = res[('dict', route)], res[('inst', route)]
        if a_[0] != b_[0] or (a_[0] == 'ok' and a_[1] != b_[1]):
            return dict(signature=dict(oracle='value-spelling-differs', where=route),
                        what=f"{cls.__name__}: {par}=dict(type={tname!r}, {fp}=x) and {par}=ss.{tname}({fp}=x) differ via {route}: {str(a_)[:120]} vs {str(b_)[:120]}", data=data)
    a_ = res[('dict', 'direct')]
    if a_[0] == 'ok' and a_[1] != ref:
        return dict(signature=dict(oracle='value-spelling-differs', where='vs-make_dist'),
                    what=f"{cls.__name__}.pars.update({par}=dict(type={tname!r}, {fp}=x)) is not the distribution ss.make_dist builds from that dict: {str(a_[1])[:120]} vs {str(ref)[:120]}", data=data)
    return None


def oracle_input_reuse(cls, tok, probe=False):
    """ a pars dict passed to a module is not consumed or changed, and a second module built from it is identical """
    quiet()
    m0 = cls() if probe else construct(cls)
    keys = [k for k in m0.pars.keys() if okind_of(m0.pars[k]) == 'num' and not isinstance(m0.pars[k], bool)
            or okind_of(m0.pars[k]).startswith(('dist', 'timepar'))][:3]
    if not keys or not uses_update_pars(cls, probe): return None
    p_ = {k: sentinel(tok + i) for i, k in enumerate(keys)}
    before = canon(p_)
    data = dict(kind='input-reuse', cls=cls.__name__, probe=probe, tok=tok)
    forms = ['pars']
    ps = [q for q in inspect.signature(cls.__init__).parameters.values() if q.name != 'self']
    if ps and ps[0].name == 'pars' and not probe: forms.append('positional')
    for form in forms:
        try:
            mk_ = (lambda: cls(p_)) if form == 'positional' else ((lambda: cls(pars=p_)) if probe else (lambda: construct(cls, pars=p_)))
            m1 = mk_()
            mid = canon(p_)
            m2 = mk_()
        except Exception as e:
            if canon(p_) != before:
                return dict(signature=dict(oracle='input-dict-mutated'), what=f"{cls.__name__}({form} dict): the caller's dict was changed and the second construction failed ({type(e).__name__})", data=data)
            continue
        if mid != before or canon(p_) != before:
            return dict(signature=dict(oracle='input-dict-mutated'),
                        what=f"{cls.__name__}({'pars=' if form == 'pars' else ''}p) changed the caller's dict p: keys now {list(p_.keys())}, were {keys}", data=data)
        if canon(m1.pars) != canon(m2.pars):
            return dict(signature=dict(oracle='input-dict-reuse-differs'), what=f"two {cls.__name__} modules built from the same pars dict differ", data=data)
        for i, k in enumerate(keys):
            if not graph_has(m2.pars[k], None, 'number', tok + i) and not graph_has(m2, None, 'number', tok + i):
                return dict(signature=dict(oracle='dropped', route='pars-dict-reuse', target=okind_of(m0.pars[k]).split('_')[0], newkind='number'),
                            what=f"second {cls.__name__} built from the same pars dict ignores {k}={p_.get(k)}", data=data)
    return None


def oracle_sim_inputs(seed):
    """ dicts / SimPars objects / dict specs handed to ss.Sim are not changed and can be reused; both sims agree """
    import starsim as ss
    quiet()
    fails = []
    s_ = sentinel(20 + seed % 50)
    # (1) a plain pars dict with a nested module spec
    p_ = dict(n_agents=90, dur=5, verbose=0, diseases=dict(type='sir', dur_inf=dict(type='normal', loc=4 + s_, scale=1.0), beta=0.2), networks=dict(type='random', n_contacts=4))
    before = canon(p_)
    try:
        a_ = ss.Sim(pars=p_); b_ = ss.Sim(pars=p_)
        if canon(p_) != before: fails.append('ss.Sim(pars=p) changed the caller\'s dict p')
        a_.run(); b_.run()
        if canon(p_) != before: fails.append('running a sim changed the dict it was built from')
        if flat_results(a_) != flat_results(b_): fails.append('two sims built from the same pars dict give different results')
        if a_.diseases[0].pars.dur_inf.pars[0] != 4 + s_: fails.append('nested dict spec value not in effect')
    except Exception as e:
        fails.append(f'building two sims from one pars dict failed: {type(e).__name__}: {str(e)[:80]}')
    # (2) a SimPars object holding module instances
    try:
        dis = ss.SIR(dur_inf=4 + s_, beta=0.2)
        sp = ss.SimPars(n_agents=90, dur=5, verbose=0, diseases=dis, networks=ss.RandomNet(n_contacts=4))
        st0 = module_state(dis); keys0 = list(sp.keys())
        a_ = ss.Sim(pars=sp); b_ = ss.Sim(pars=sp)
        a_.run(); b_.run()
        if module_state(dis) != st0: fails.append('a module held in a user\'s SimPars object was changed by sims built from it')
        if list(sp.keys()) != keys0 or sp.diseases is not dis: fails.append('the user\'s SimPars object was changed')
        if a_.diseases[0] is dis or b_.diseases[0] is dis or a_.diseases[0] is b_.diseases[0]:
            fails.append('sims built from one SimPars object share its module instance although copy_inputs defaults to True')
        if a_.pars is sp: fails.append('the sim uses the user\'s SimPars object itself')
        if flat_results(a_) != flat_results(b_): fails.append('two sims built from one SimPars object give different results')
        c_ = ss.Sim(n_agents=90, dur=5, verbose=0, diseases=ss.SIR(dur_inf=4 + s_, beta=0.2), networks=ss.RandomNet(n_contacts=4)); c_.run()
        if flat_results(a_) != flat_results(c_): fails.append('ss.Sim(pars=SimPars(...)) and ss.Sim(**same) give different results')
    except Exception as e:
        fails.append(f'building two sims from one SimPars object failed: {type(e).__name__}: {str(e)[:80]}')
    # (3) copy_inputs=False: the sim works on the user's objects (explicitly requested sharing)
    try:
        dis = ss.SIR(beta=0.2); net = ss.RandomNet()
        c_ = ss.Sim(n_agents=90, dur=5, verbose=0, diseases=dis, networks=net, copy_inputs=False); c_.run()
        if c_.diseases[0] is not dis or c_.networks[0] is not net: fails.append('copy_inputs=False: the sim does not hold the user\'s objects')
        elif not dis.initialized or dis.sim is not c_: fails.append('copy_inputs=False: the user\'s object is not the one the sim ran')
        d_ = ss.Sim(n_agents=90, dur=5, verbose=0, diseases=ss.SIR(beta=0.2), networks=ss.RandomNet()); d_.run()
        if flat_results(c_) != flat_results(d_): fails.append('copy_inputs=False changes the results')
    except Exception as e:
        fails.append(f'copy_inputs=False run failed: {type(e).__name__}: {str(e)[:80]}')
    return fails


def oracle_precedence(cls, par, tok):
    """ the same parameter in the pars dict and as a keyword: exactly one of the two values is in effect, always the same one """
    quiet()
    try:
        base = construct(cls)
        while graph_has(base, None, 'number', tok) or graph_has(base, None, 'number', tok + 1):
            tok += 2        # a default of the class happens to equal a sentinel: the detection would be ambiguous
    except Exception:
        return None
    a_, b_ = sentinel(tok), sentinel(tok + 1)
    outs = []
    for i in range(2):
        try:
            m = construct(cls, pars={par: a_}, **{par: b_})
        except Exception:
            return None
        ha, hb = graph_has(m, None, 'number', tok), graph_has(m, None, 'number', tok + 1)
        outs.append((ha, hb))
    data = dict(kind='precedence', cls=cls.__name__, par=par, tok=tok)
    if outs[0] != outs[1] or outs[0] not in ((True, False), (False, True)):
        return dict(signature=dict(oracle='precedence'), what=f"{cls.__name__}(pars={{{par}: a}}, {par}=b): values in effect (a, b) = {outs}", data=data)
    if outs[0] != (False, True) and uses_update_pars(cls):
        return dict(signature=dict(oracle='precedence', winner='dict'), what=f"{cls.__name__}(pars={{{par}: a}}, {par}=b): the dict entry beat the keyword (sc.mergedicts(pars, kwargs) documents: later wins)", data=data)
    return None


SIM_UPDATES = [('n_agents', 60, lambda s_: len(s_.people)), ('dt', 0.5, lambda s_: s_.t.dt), ('dur', 7, lambda s_: s_.t.npts - 1),
               ('rand_seed', 5, lambda s_: s_.pars.rand_seed), ('start', 2010, lambda s_: s_.t.start)]


def oracle_sim_update(stage, key):
    """ sim.pars.update(key=value) after construction (must be in effect once initialised) / after init (in effect or an error) """
    import starsim as ss
    quiet()
    val, read = {k: (v, r) for k, v, r in SIM_UPDATES}[key]
    s_ = ss.Sim(n_agents=80, dur=4, diseases='sir', networks='random', verbose=0)
    data = dict(kind='sim-update', stage=stage, key=key)
    try:
        if stage == 'post-init': s_.init()
        s_.pars.update({key: val})
        if stage == 'pre-init': s_.init()
        s_.run()
    except Exception:
        return None
    got = read(s_)
    if got == val and s_.pars[key] == val: return None
    return dict(signature=dict(oracle='sim-update-stale', stage=stage),
                what=f"sim.pars.update({key}={val}) {stage} returned normally; sim.pars.{key}={s_.pars[key]} but the simulation ran with {got}", data=data)


def oracle_module_update_postinit():
    """ module-level parameters updated through sim.pars after init reach the module objects the run uses """
    import starsim as ss
    quiet()
    s_ = ss.Sim(n_agents=80, dur=4, diseases='sir', networks='random', verbose=0); s_.init()
    v = sentinel(33)
    try:
        s_.pars.update(sir=dict(dur_inf=4 + v, beta=v))
    except Exception:
        return None
    d = s_.diseases.sir
    if d.pars.dur_inf.pars[0] != 4 + v or d.pars.beta.v != v:
        return dict(signature=dict(oracle='sim-update-stale', stage='post-init-module'), what='sim.pars.update(sir=dict(...)) after init did not reach the module', data=dict(kind='module-update'))
    return None


DUP_LISTS = {'str-str': lambda ss: ['sir', 'sir'], 'inst-inst': lambda ss: [ss.SIR(), ss.SIR()], 'str-dict': lambda ss: ['sir', dict(type='sir')],
             'same-inst': lambda ss: (lambda m: [m, m])(ss.SIR()), 'renamed': lambda ss: ['sis', ss.SIR(name='sis')], 'net-alias': lambda ss: None}


def oracle_duplicates(tag):
    """ two modules of one name in a list: an error, never a silently dropped or overwritten module """
    import starsim as ss
    quiet()
    mk = 'diseases'; lst = DUP_LISTS[tag](ss)
    if tag == 'net-alias': mk, lst = 'networks', ['random', 'randomnet']
    try:
        s_ = ss.Sim(**{mk: lst}); s_.pars.validate()
    except Exception:
        return None
    n = len(s_.pars[mk])
    return dict(signature=dict(oracle='duplicate-module-accepted'), what=f"{mk}={tag}: a list of {len(lst)} modules with one name validated into {n} module(s) without an error", data=dict(kind='duplicates', tag=tag))


def kind_spellings(kind):
    """ {spelling tag: kwargs for ss.Sim} for one module of the given kind, all meant to be the same configuration """
    import starsim as ss
    quiet()

    class C17Count(ss.Analyzer):
        def step(self): self.results_seen = getattr(self, 'results_seen', 0) + 1

    class C17Conn(ss.Connector):
        def step(self): self.sim.diseases.sir.rel_sus[:] = 0.5

    def vx(**kw): return ss.routine_vx(product=ss.sir_vaccine(**kw), prob=0.3, start_year=2001)
    base = dict(diseases='sir', networks='random')
    if kind == 'disease':
        return {t: dict(base, diseases=v) for t, v in dict(str='sis', STR='SIS', dict=dict(type='sis'), dictcls=dict(type=ss.SIS), inst=ss.SIS(),
                                                            lst=['sis'], lstinst=[ss.SIS()], kw=ss.SIS(dur_inf=10), pars=ss.SIS(pars=dict(dur_inf=10)),
                                                            dictkw=dict(type='sis', dur_inf=10), num=ss.SIS(dur_inf=10.0)).items()}
    if kind == 'network':
        return {t: dict(base, networks=v) for t, v in dict(str='random', alias='randomnet', dict=dict(type='random'), dictcls=dict(type=ss.RandomNet),
                                                            inst=ss.RandomNet(), lst=['random'], kw=ss.RandomNet(n_contacts=10), dictkw=dict(type='random', n_contacts=10),
                                                            dist=ss.RandomNet(n_contacts=ss.constant(10)), distdict=ss.RandomNet(n_contacts=dict(type='constant', v=10))).items()}
    if kind == 'demographics':
        return {t: dict(base, demographics=v) for t, v in dict(str='births', dict=dict(type='births'), dictcls=dict(type=ss.Births), inst=ss.Births(),
                                                                lst=[ss.Births()], kw=ss.Births(birth_rate=30), tp=ss.Births(birth_rate=ss.peryear(30)),
                                                                dictkw=dict(type='births', birth_rate=30)).items()}
    if kind == 'intervention':
        return {t: dict(base, interventions=v) for t, v in dict(inst=vx(), lst=[vx()], dict=dict(type='routine_vx', product=ss.sir_vaccine(), prob=0.3, start_year=2001),
                                                                 dictcls=dict(type=ss.routine_vx, product=ss.sir_vaccine(), prob=0.3, start_year=2001)).items()}
    if kind == 'product':
        return {t: dict(base, interventions=v) for t, v in dict(kw=vx(efficacy=0.7), pars=vx(pars=dict(efficacy=0.7)), posdict=ss.routine_vx(product=ss.sir_vaccine(dict(efficacy=0.7)), prob=0.3, start_year=2001)).items()}
    if kind == 'analyzer':
        return {t: dict(base, analyzers=v) for t, v in dict(inst=C17Count(), cls=C17Count, lst=[C17Count()], lstcls=[C17Count]).items()}
    if kind == 'connector':
        return {t: dict(base, connectors=v) for t, v in dict(inst=C17Conn(), lst=[C17Conn()]).items()}
    raise ValueError(kind)


KIND_GROUPS = {  # spellings that must agree with each other (different parameter values are different groups)
    'disease': [['str', 'STR', 'dict', 'dictcls', 'inst', 'lst', 'lstinst'], ['kw', 'pars', 'dictkw', 'num']],
    'network': [['str', 'alias', 'dict', 'dictcls', 'inst', 'lst', 'kw', 'dictkw', 'dist', 'distdict']],
    'demographics': [['str', 'dict', 'dictcls', 'inst', 'lst'], ['kw', 'tp', 'dictkw']],
    'intervention': [['inst', 'lst', 'dict', 'dictcls']], 'product': [['kw', 'pars', 'posdict']],
    'analyzer': [['inst', 'cls', 'lst', 'lstcls']], 'connector': [['inst', 'lst']],
}


def oracle_kind_results(kind, seed):
    """ every spelling of one module of this kind gives bit-identical results """
    quiet()
    sp = kind_spellings(kind)
    res = {}
    for tag, kw in sp.items():
        try:
            s_ = small_sim(seed, **kw); s_.run(); res[tag] = flat_results(s_)
        except Exception as e:
            res[tag] = f'{type(e).__name__}: {str(e)[:80]}'
    for group in KIND_GROUPS[kind]:
        ref = group[0]
        for tag in group[1:]:
            if res[tag] != res[ref]:
                why = res[tag] if isinstance(res[tag], str) else (res[ref] if isinstance(res[ref], str) else [k for k in res[tag] if res[tag].get(k) != res[ref].get(k)][:4])
                return dict(signature=dict(oracle='spelling-results-differ', kind=kind),
                            what=f'{kind}: spellings `{ref}` and `{tag}` of the same configuration give different results ({why})', data=dict(kind='kind-results', mkind=kind, seed=seed))
    return None


def round2_search(ctx, targets):
    import starsim as ss
    quiet()

    def report(f):
        if f: ctx.fail(f['signature'], f['what'], f['data'])
    # value spellings and edge numbers: every Dist / TimePar parameter of every class (cheap)
    for cls, probe in targets:
        m0 = cls() if probe else construct(cls)
        for par in m0.pars.keys():
            tk = okind_of(m0.pars[par])
            if tk.startswith(('dist', 'bern')):
                same_t = type(m0.pars[par]).__name__
                for tname in dict.fromkeys([same_t, 'bernoulli' if tk.startswith('bern') else 'normal', 'lognorm_ex' if not tk.startswith('bern') else 'bernoulli']):
                    report(oracle_value_spellings(cls, par, tname, 10 + ctx.rng.randint(0, 900), probe)); ctx.count('oracle_value_spelling')
            if tk.startswith(('dist', 'bern', 'timepar', 'beta')):
                for tag in EDGE_NUMBERS:
                    report(oracle_edge_number(cls, par, tag, ctx.rng.randint(1, 60), probe)); ctx.count('oracle_edge_number')
        report(oracle_input_reuse(cls, 10 + ctx.rng.randint(0, 900), probe)); ctx.count('oracle_input_reuse')
        if not probe and uses_update_pars(cls):
            nums = [k for k in m0.pars.keys() if okind_of(m0.pars[k]) == 'num' and not isinstance(m0.pars[k], bool)
                    or okind_of(m0.pars[k]).startswith(('dist', 'timepar'))]
            for par in nums[:2]:
                report(oracle_precedence(cls, par, 10 + ctx.rng.randint(0, 900))); ctx.count('oracle_precedence')
    for msg in oracle_sim_inputs(ctx.rng.randint(0, 10**6)):
        ctx.fail(dict(oracle='sim-inputs'), msg, dict(kind='sim-inputs', seed=0))
    ctx.count('oracle_sim_inputs')
    for stage in ('pre-init',):      # (after init the simulation is built: a later change of sim.pars is outside the routes the property quantifies over)
        for key, _, _ in SIM_UPDATES:
            report(oracle_sim_update(stage, key)); ctx.count('oracle_sim_update')
    report(oracle_module_update_postinit())
    for tag in DUP_LISTS:
        report(oracle_duplicates(tag)); ctx.count('oracle_duplicates')
    for kind in KIND_GROUPS:
        report(oracle_kind_results(kind, ctx.rng.randint(0, 10**6))); ctx.count('oracle_kind_results')


def search(ctx):
    import starsim as ss
    quiet()
    classes, skipped, mods = constructible()
    Probe = make_probe_class()
    targets = [(cls, False) for mk, cls in classes] + [(Probe, True)]
    round2_search(ctx, targets)
    from harness.props import c17_refs
    c17_refs.round3_search(ctx, targets)
    from harness.props import c17_simlevel
    c17_simlevel.round4_search(ctx)
    from harness.props import c17_timepar
    c17_timepar.round5_search(ctx, targets)
    from harness.props import c17_spell
    c17_spell.search(ctx)      # every zoo configuration with a dict-spec spelling: module objects vs dict specs, identical simulations
    from harness.props import c17_modtime
    c17_modtime.search(ctx)    # round 6: timeline arguments (unit / dt) of modules and of the sim in every documented spelling, zoo-wide and per kind x frame
    # (a) applied or rejected: sampled over class x parameter x kind x route (exhaustive when something broke / thorough)
    pool = []
    for cls, probe in targets:
        m0 = cls() if probe else construct(cls)
        for par in m0.pars.keys():
            if okind_of(m0.pars[par]) in CONTAINER_OLD: continue
            for nk in NKINDS:
                pool.append((cls, probe, par, nk))
    ctx.rng.shuffle(pool)
    n = ctx.budget(700, len(pool))
    # always include every (old kind, new kind) pair once
    seen = set(); first = []
    for cls, probe, par, nk in pool:
        pass
    for cls, probe, par, nk in pool[:n]:
        route = ctx.rng.choice(['direct', 'ctor', 'ctor', 'ctor-pars'])
        if par in ('name', 'label', 'start', 'stop', 'dt', 'unit') and route != 'direct': route = 'direct'
        tok = 10 + ctx.rng.randint(0, 900)
        f = oracle_apply(cls, par, nk, tok, route, probe)
        ctx.count('oracle_apply')
        if f: ctx.fail(f['signature'], f['what'], f['data'])
    # the known witness, always
    f = oracle_apply(ss.SIR, 'init_prev', 'dictNoTypeBad', 7, 'ctor')
    if f: ctx.fail(f['signature'], f['what'], f['data'])
    # through dict specifications
    specs = []
    for mk in MODKEYS:
        for name, cls in mods.get(mk, {}).items():
            try: m0 = cls()
            except Exception: continue
            for par in getattr(m0, 'pars', {}).keys():
                if okind_of(m0.pars[par]) in CONTAINER_OLD or par in ('name', 'label', 'type'): continue
                specs.append((mk, name, par))
    ctx.rng.shuffle(specs)
    for mk, name, par in specs[:ctx.budget(60, 600)]:
        nk = ctx.rng.choice(NKINDS); tok = 10 + ctx.rng.randint(0, 900)
        f = oracle_spec_route(mk, name, par, nk, tok)
        ctx.count('oracle_spec')
        if f: ctx.fail(f['signature'], f['what'], f['data'])
    # (b) unknown keys at every route
    names = [(mk, n) for mk in MODKEYS for n, c in mods.get(mk, {}).items() if c in [x for _, x in classes]]
    ctx.rng.shuffle(names)
    for route in UNKNOWN_ROUTES:
        per_class = route.startswith(('ctor', 'spec', 'known'))
        for mk, name in (names[:ctx.budget(12, len(names))] if per_class else names[:1]):
            f = oracle_unknown(route, mk, name)
            ctx.count('oracle_unknown')
            if f: ctx.fail(f['signature'], f['what'], f['data'])
    # (c) bad values
    for cls, probe in targets:
        m0 = cls() if probe else construct(cls)
        for par in m0.pars.keys():
            tk = okind_of(m0.pars[par])
            bad = list(BAD_FOR_DIST) if tk.startswith(('dist', 'bern')) else list(BAD_FOR_TIMEPAR) if tk.startswith(('timepar', 'beta')) else []
            if tk.startswith('bern'): bad += ['dist', 'dictTypeDist']            # a Bernoulli parameter stays Bernoulli
            if tk.endswith('_dur'): bad += ['timeparN']                           # a duration stays a duration ...
            if tk.endswith('_nondur'): bad += ['timeparD']                        # ... and a rate a rate
            for nk in bad:
                f = oracle_bad_value(cls, par, nk, 5, probe)
                ctx.count('oracle_bad')
                if f: ctx.fail(f['signature'], f['what'], f['data'])
    # (d) spellings: parameters for sampled names, results for a few configurations
    ctx.rng.shuffle(names)
    extra = [(mk, n) for mk in MODKEYS for n, c in mods.get(mk, {}).items() if c not in [x for _, x in classes]]
    for mk, name in names[:ctx.budget(15, len(names))] + extra:
        f = oracle_spelling_pars(mk, name)
        ctx.count('oracle_spelling_pars')
        if f: ctx.fail(f['signature'], f['what'], f['data'])
    cfgs = list(SPELL_CONFIGS)
    if ctx.thorough:
        standalone = [d for d in mods['diseases'] if d in ('sir', 'sis', 'ncd', 'gonorrhea', 'hiv', 'measles', 'ebola', 'cholera')]
        cfgs += [dict(diseases=d, networks=nw) for d in standalone for nw in ('random', 'mf', 'erdosrenyi')]
    else:
        ctx.rng.shuffle(cfgs); cfgs = cfgs[:ctx.budget(2, 4)]
    for cfg in cfgs:
        f = oracle_spelling_results(cfg, ctx.rng.randint(0, 10**6))
        ctx.count('oracle_spelling_results')
        if f: ctx.fail(f['signature'], f['what'], f['data'])
    # (e) inputs neither mutated nor shared
    for k in range(ctx.budget(1, 5)):
        seed = ctx.rng.randint(0, 10**6)
        obs = observe_copy(seed)
        ctx.count('oracle_copy')
        for msg in obs['fails']:
            ctx.fail(dict(oracle='input-isolation'), msg, dict(kind='copy', seed=seed))


def resolve_cls(name, probe):
    import starsim as ss
    if probe: return make_probe_class()
    classes, mods = module_classes()
    for mk, cls in classes:
        if cls.__name__ == name: return cls
    raise KeyError(name)


def replay(ctx, data):
    from harness.props import c17_refs
    r3 = c17_refs.replay(ctx, data)
    if r3 is not None: return r3
    from harness.props import c17_simlevel
    r4 = c17_simlevel.replay(ctx, data)
    if r4 is not None: return r4
    from harness.props import c17_timepar
    r5 = c17_timepar.replay(ctx, data)
    if r5 is not None: return r5
    from harness.props import c17_spell
    r6 = c17_spell.replay(ctx, data)
    if r6 is not None: return r6
    from harness.props import c17_modtime
    r7 = c17_modtime.replay(ctx, data)
    if r7 is not None: return r7
    k = data.get('kind')
    if k == 'apply':
        return bool(oracle_apply(resolve_cls(data['cls'], data.get('probe')), data['par'], data['nk'], data['tok'], data['route'], data.get('probe', False)))
    if k == 'spec':
        return bool(oracle_spec_route(data['modkey'], data['name'], data['par'], data['nk'], data['tok']))
    if k == 'unknown':
        return bool(oracle_unknown(data['route'], data['modkey'], data['name']))
    if k == 'bad':
        return bool(oracle_bad_value(resolve_cls(data['cls'], data.get('probe')), data['par'], data['nk'], data['tok'], data.get('probe', False)))
    if k == 'spelling-results':
        return bool(oracle_spelling_results(data['cfg'], data['seed']))
    if k == 'spelling-pars':
        return bool(oracle_spelling_pars(data['modkey'], data['name']))
    if k == 'copy':
        return bool(observe_copy(data['seed'])['fails'])
    if k in ('direct', 'ctor'):
        return bool(oracle_apply(resolve_cls(data['cls'], data.get('probe')), data['par'], data['nk'], data['tok'], 'direct' if k == 'direct' else 'ctor', data.get('probe', False)))
    if k == 'edge':
        return bool(oracle_edge_number(resolve_cls(data['cls'], data.get('probe')), data['par'], data['tag'], data['tok'], data.get('probe', False)))
    if k == 'value-spelling':
        return bool(oracle_value_spellings(resolve_cls(data['cls'], data.get('probe')), data['par'], data['tname'], data['tok'], data.get('probe', False)))
    if k == 'input-reuse':
        return bool(oracle_input_reuse(resolve_cls(data['cls'], data.get('probe')), data['tok'], data.get('probe', False)))
    if k == 'sim-inputs':
        return bool(oracle_sim_inputs(data.get('seed', 0)))
    if k == 'precedence':
        return bool(oracle_precedence(resolve_cls(data['cls'], False), data['par'], data['tok']))
    if k == 'sim-update':
        return bool(oracle_sim_update(data['stage'], data['key']))
    if k == 'module-update':
        return bool(oracle_module_update_postinit())
    if k == 'duplicates':
        return bool(oracle_duplicates(data['tag']))
    if k == 'kind-results':
        return bool(oracle_kind_results(data['mkind'], data['seed']))
    if k == 'route':
        return False
    return False
