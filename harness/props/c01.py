"""
C01 — Same configuration and seed give bit-identical simulations (partial: footprints are extracted statically and
validated dynamically, not proved from Python semantics).

correspond(): (1) footprint monitoring — the loop is single-stepped and the process-global generators (NumPy legacy
                  RandomState, Python `random`, numba's generator) are snapshotted around every scheduled function;
                  the classes that advanced one must be in the regenerated table Generated/GlobalReads.lean;
              (2) seed table — every dist's seed must be Model/Rng.lean's `init` applied to sha224(trace) mod 1e9 and
                  the simulation seed, in this process and in a fresh interpreter with another PYTHONHASHSEED.
search():     differential runs of the real code: same configuration and seed under different process histories
              (global-generator draws between init and run or at a random loop-function boundary, another sim run in
              between, fresh interpreter / hash seed, worker process); exact equality of every result and state;
              changing the seed must change every dist's seed.
              Stream census (round 5): during every reference run the `ss.Dist` objects that draw inside the simulation are
              collected by identity; each must be one of sim.dists with seed = sha224(trace) mod 1e9 + rand_seed (the hypothesis of
              C01_seed_changes_every_stream_partial), and on two seeds the generator state each was seeded with must differ
              (`oracle_streams`: vaccines incl. all-or-nothing, screening, treatment, pipelines, the recorded readers' configurations).
"""
import os, sys, json, subprocess, random as pyrandom
import numpy as np
from harness import impl, snap
from harness.props import c04

PROP = 'C01'
GENERATED = ['GlobalReads', 'SeedFacts', 'RngConsts', 'DistSites']
DRIVER = c04.DRIVER
DRIVER_MODULES = ['StarsimModel.Model.Rng', 'StarsimModel.Model.Proto', 'StarsimModel.Model.Footprint']
RULE = ('generated configurations (disease x network x demographics x time spec; with and without the modules known to read the global generator) '
        'x process histories {global draws between init and run, at a random loop-function boundary, another sim in between, fresh interpreter with '
        'another PYTHONHASHSEED, multiprocessing worker}; distinct = distinct (configuration, history); non-trivial = the run made at least one draw')
TRUSTED = ['snapshots of np.random / random / numba generator states detect every read of those channels',
           'the static scan covers the module-level NumPy random functions, sc.randround (and aliases), stdlib random and hash(); other hidden channels (object ids, wall clock) are exercised only by the differential runs']
ASSUMPTIONS = ['EnvIndependent (no scheduled function lets process state influence simulation state) is established per class by the regenerated table plus dynamic monitoring, not by proof']

VERIF = os.path.dirname(os.path.dirname(os.path.dirname(os.path.abspath(__file__))))


# ---------------------------------------------------------------------------
# hidden channels

def channels():
    st = np.random.get_state()
    return (st[0], st[1].tobytes(), st[2], st[3], st[4]), pyrandom.getstate()


class trace_global_reads:
    """ Context manager: wrap every module-level function of np.random that is a bound method of the legacy global
        RandomState; each call records (class of the innermost starsim object on the stack, its method, np function).
        Reseeding (seed / set_state / get_state) is not a read. """
    SKIP = {'seed', 'set_state', 'get_state', 'get_bit_generator', 'set_bit_generator'}

    def __init__(self):
        self.reads = []
        self.saved = {}

    def __enter__(self):
        import sys
        glob = np.random.mtrand._rand
        for name in dir(np.random):
            if name.startswith('_') or name in self.SKIP: continue
            f = getattr(np.random, name)
            if getattr(f, '__self__', None) is glob:
                self.saved[name] = f
                setattr(np.random, name, self._wrap(name, f, sys))
        return self

    def _wrap(self, name, f, sys):
        reads = self.reads
        def w(*a, **k):
            fr = sys._getframe(1); who = None; depth = 0
            while fr is not None and depth < 60:
                slf = fr.f_locals.get('self')
                if slf is not None and type(slf).__module__.startswith('starsim'):
                    who = (type(slf).__name__, fr.f_code.co_name); break
                if fr.f_globals.get('__name__', '').startswith('starsim') and who is None and fr.f_code.co_name != '<module>':
                    who = ('', fr.f_code.co_name)
                fr = fr.f_back; depth += 1
            reads.append((who or ('?', '?')) + ('np.random.' + name,))
            return f(*a, **k)
        return w

    def __exit__(self, *exc):
        for name, f in self.saved.items():
            setattr(np.random, name, f)
        return False


def monitor_run(cfg, extra_interventions=None):
    """ Run a sim function by function with the global generators watched.
        Returns (sim, readers, silent): readers = {(class, method): {np functions}} that called a global NumPy random
        function (exact, from the call stack); silent = plan labels after which a hidden channel had moved without such a call """
    silent = []
    with trace_global_reads() as tr:
        if 'c20case' in cfg:
            sim = make_sim(cfg)
        else:
            sim = impl.build_sim(cfg, extra_interventions=extra_interventions); sim.init()
        plan = sim.loop.plan
        for i in range(len(plan)):
            before = channels(); n0 = len(tr.reads)
            sim.loop.run_one_step()
            if channels() != before and len(tr.reads) == n0:
                silent.append(plan.func_label[i])
    readers = {}
    for cls, fn, npf in tr.reads:
        if (cls, fn) == ('', 'set_seed'): continue
        readers.setdefault((cls, fn), set()).add(npf)
    return sim, readers, silent


# ---------------------------------------------------------------------------

def static_classes(ctx):
    facts = (ctx.extracted.get('GlobalReads') or {}).get('facts') or {}
    return {r[1] for r in facts.get('reads', [])}, facts


def correspond(ctx):
    import starsim as ss
    classes, facts = static_classes(ctx)
    rows = {(r[1], r[2]) for r in facts.get('reads', [])}
    modulo = 10**9
    n = ctx.budget(10, 60)
    lines = []; plan = []
    for k in range(n):
        cfg = impl.gen_sim_config(ctx.rng, small=True, allow_global_readers=(k % 2 == 0))
        try:
            sim, readers, silent = monitor_run(cfg)
        except Exception as e:
            ctx.broke('correspondence', 'C01.monitor', f'monitored run raised {type(e).__name__}: {e}', data=cfg); continue
        # (1) every dynamic reader must be in the regenerated table (class and method), and nothing may move a hidden
        #     channel without going through a watched function
        for (cls, fn), npf in readers.items():
            if (cls, fn) not in rows:
                ctx.broke('correspondence', 'C01.footprint', f'`{cls}.{fn}` called {sorted(npf)} (process-global generator) but is not in the regenerated GlobalReads table',
                          data=dict(cfg=cfg, reader=[cls, fn]))
        for label in silent:
            ctx.broke('correspondence', 'C01.footprint', f'`{label}` advanced a process-global generator without calling a watched function', data=dict(cfg=cfg, label=label))
        ctx.count('monitored_functions', len(sim.loop.plan)); ctx.count('dynamic_readers', len(readers))
        for (cls, fn) in readers: ctx.count(f'reader:{cls}.{fn}')
        # (2) seed table
        seq = []
        for trace, d in sim.dists.dists.items():
            seq += ['new 1 1', f'init {c04.str2int_ref(trace, modulo)} {sim.pars.rand_seed} 1']
        plan.append(dict(cfg=cfg, off=len(lines), seeds=[(t, d.seed) for t, d in sim.dists.dists.items()]))
        lines += seq
        ctx.case(('monitor', json.dumps(cfg, sort_keys=True)), len(sim.dists.dists) > 0,
                 sample=dict(kind='footprint+seeds', cfg=cfg, readers=sorted('.'.join(r) for r in readers), n_dists=len(sim.dists.dists)))
    out = ctx.drive(DRIVER, lines)
    for p in plan:
        for j, (trace, seed) in enumerate(p['seeds']):
            m = c04.parse_model_line(out[p['off'] + 2 * j + 1])
            if int(m['seed']) != seed:
                ctx.broke('correspondence', 'C01.seed', f'dist `{trace}`: seed {seed} but the model gives sha224(trace) mod 1e9 + rand_seed = {m["seed"]}', data=dict(cfg=p['cfg'], trace=trace))
                break
    # fresh interpreter with another hash seed: same traces, same seeds
    for k in range(ctx.budget(1, 6)):
        cfg = impl.gen_sim_config(ctx.rng, small=True)
        a = seeds_inproc(cfg)
        b = run_subprocess(cfg, 'seeds', hashseed=ctx.rng.randint(1, 10**6))
        ctx.case(('seeds-subprocess', json.dumps(cfg, sort_keys=True)), True)
        if b is None:
            ctx.count('subprocess_failed'); continue
        if a != b:
            d = [(x, y) for x, y in zip(a, b) if x != y][:3]
            ctx.broke('correspondence', 'C01.seed-hashseed', f'distribution names / seeds differ in a fresh interpreter with another PYTHONHASHSEED: {d}', data=cfg)


def make_sim(cfg):
    """ an INITIALISED real sim: a harness/impl.py configuration, or (key `c20case`) an intervention / product
        scenario of harness/props/c20_impl.py (vaccination, screening with a Dx product, treat_num with a Tx product) """
    if 'c20case' in cfg:
        from harness.props import c20_impl
        return c20_impl.build(cfg['c20case'])
    sim = impl.build_sim(cfg); sim.init()
    return sim


def gen_product_cfg(rng, kind):
    """ an intervention-with-products configuration that RUNS on this tree (the C20 generator also produces the schedules
        that crash upstream — campaign screening, interventions on their own timestep, off-grid years: C20 findings, not
        C01 business) """
    last = None
    for _ in range(12):
        cfg = _gen_product_cfg(rng, kind); last = cfg
        try:
            make_sim(cfg).run(); return cfg
        except Exception:
            continue
    return last


def _gen_product_cfg(rng, kind):
    from harness.props import c20_impl
    for _ in range(20):
        case = c20_impl.gen_case(rng, kind=kind)
        if case.get('delivery') != 'campaign' and case.get('own_dt', 1) == 1: break
    if case.get('vaccine', {}).get('kind') == 'aon': case['vaccine']['kind'] = 'leaky'
    if kind == 'pipeline':
        # imperfect test feeding a capacity-limited treatment: people in BOTH disease states are tested and treated on the
        # same step, so the order in which a product walks its string-keyed state table decides who gets which stream
        for _ in range(50):
            case = c20_impl.gen_case(rng, kind='treat')
            if case.get('pipeline') and case.get('own_dt', 1) == 1: break
        dis = case['sim']['disease']
        case['pipeline']['dx']['rows'] = [(dis, 'susceptible', [0.25, 0.75]), (dis, 'infected', [0.8, 0.2])]
        case['pipeline']['sched'] = dict(start_year=2000 + 1, end_year=2000 + 4, prob=[0.9], annual_prob=False)
        states = ['susceptible', 'infected'] + (['recovered'] if case['sim']['disease'] == 'sir' else [])
        case['tx']['rows'] = [(dis, st, 0.6, 'susceptible') for st in states]
        case['elig'] = 'screen_pos_alive'; case['treat_prob'] = 1.0; case['capacity'] = None
        return dict(c20case=case)
    if kind == 'treat' and not case.get('pipeline'):
        case['elig'] = 'infected'; case['treat_prob'] = 1.0     # somebody accepts on the very first step
        if case.get('capacity') == 0: case['capacity'] = 5
    return dict(c20case=case)


def gen_cfg(rng, k=0, products=None):
    """ every third configuration uses interventions with products (their loops over disease states / queues are
        process-history sensitive in ways plain disease+network sims are not) """
    if products or (products is None and k % 3 == 2):
        from harness.props import c20_impl
        return gen_product_cfg(rng, rng.choice(['treat', 'treat', 'screen', 'vx']))   # (all-or-nothing vaccines read np.random: recorded finding, avoided)
    nets = None
    if rng.random() < 0.25:
        nets = ['agepools'] + rng.sample(['random', 'mf', 'static'], rng.choice([0, 1]))     # age-bracket mixing pools (routes that are not networks)
    cfg = impl.gen_sim_config(rng, small=True, allow_global_readers=(k % 3 == 0), networks=nets,
                              demographics=(rng.choice([[], ['deaths']]) if nets else None))   # (Pregnancy + MixingPools crashes upstream: no `postnatal` on a Route)
    if any(n['type'] in ('erdosrenyi', 'disk') for n in cfg['networks']) and cfg['demographics'] and False:
        cfg['demographics'] = []
    return cfg


def seeds_inproc(cfg):
    sim = make_sim(cfg)
    return [[t, int(d.seed)] for t, d in sim.dists.dists.items()]


# ---------------------------------------------------------------------------
# differential runs

def run_ref(cfg):
    """ the reference run; every reference run of the check is also a stream census (see `stream_census`): the
        distributions that drew during it are inspected afterwards and anything not seeded by the rule the theorems
        assume is queued in SUSPECTS for `search()` to confirm on a second seed """
    with stream_census() as cen:
        sim = make_sim(cfg); sim.run()
    try:
        bad = [r for r in cen.records(sim) if not r['ok']]
        if bad and len(SUSPECTS) < 40:
            SUSPECTS.append((cfg, bad))
        CENSUS_STATS['runs'] += 1; CENSUS_STATS['streams'] += cen.n_used
    except Exception as e:
        CENSUS_STATS['errors'] += 1; CENSUS_STATS['last_error'] = f'{type(e).__name__}: {e}'
    return snap.everything(sim)


# ---------------------------------------------------------------------------
# stream census: which distributions drew, and how each of them was seeded

SUSPECTS = []
CENSUS_STATS = dict(runs=0, streams=0, errors=0)


def sim_seed(cfg):
    return cfg['c20case']['sim'].get('rand_seed', 0) if 'c20case' in cfg else cfg['rand_seed']


def with_seed(cfg, seed):
    import copy
    c = copy.deepcopy(cfg)
    if 'c20case' in c: c['c20case']['sim']['rand_seed'] = seed
    else: c['rand_seed'] = seed
    return c


class stream_census:
    """ Context manager: while active, every `ss.Dist` object whose `rvs` is called is remembered (the object, not a
        name: a distribution created in the middle of a run, or one that no container lists, is seen like any other).
        `records(sim)` then describes each of them, plus every distribution reachable from the sim object, by
          registered   the object is one of `sim.dists.dists` (what `Sim.init_dists` seeded with `rand_seed`)
          formula      its seed equals sha224(trace) mod 1e9 + rand_seed (C01_seed_formula)
          state0       digest of the bit-generator state right after seeding (`history[0]`)
        `ok` = registered and formula: the hypothesis under which C01_seed_changes_all speaks about this stream. """

    def __enter__(self):
        import starsim as ss
        self.ss = ss
        self.used = {}
        self.patched = []
        used = self.used
        simtypes = (ss.Sim, ss.Loop)
        def inside_sim():
            # is this draw made by a simulation (a frame of Sim.init / Sim.run / Loop.* on the stack)?  Draws a user makes
            # from their own object before handing it to a Sim are process history, not streams of the simulation.
            fr = sys._getframe(2); depth = 0
            while fr is not None and depth < 80:
                if isinstance(fr.f_locals.get('self'), simtypes): return True
                fr = fr.f_back; depth += 1
            return False
        def wrap(orig):
            def rvs(d, *a, **k):
                if id(d) not in used and inside_sim(): used[id(d)] = d
                return orig(d, *a, **k)
            rvs.__wrapped__ = orig
            return rvs
        # every NumPy generator constructed by simulation code (np.random.default_rng looked up at call time): who made it
        # (innermost starsim object on the stack) and the state it starts from
        self.gens = []; gens = self.gens
        self.orig_default_rng = np.random.default_rng
        orig_rng = self.orig_default_rng
        def default_rng(*a, **k):
            g = orig_rng(*a, **k)
            try:
                fr = sys._getframe(1); who = None; insim = False; depth = 0
                while fr is not None and depth < 80:
                    slf = fr.f_locals.get('self')
                    if who is None and slf is not None and type(slf).__module__.startswith('starsim'):
                        who = (type(slf).__name__, fr.f_code.co_name, getattr(slf, 'trace', None) if isinstance(slf, ss.Dist) else getattr(slf, 'name', None), isinstance(slf, ss.Dist))
                    if isinstance(slf, simtypes): insim = True
                    fr = fr.f_back; depth += 1
                if who is not None and insim:
                    gens.append(who + (repr(g.bit_generator.state),))
            except Exception:
                pass
            return g
        np.random.default_rng = default_rng
        seen = set(); todo = [ss.Dist]
        while todo:
            c = todo.pop()
            if c in seen: continue
            seen.add(c); todo += c.__subclasses__()
            if 'rvs' in c.__dict__:
                self.patched.append((c, c.__dict__['rvs'])); setattr(c, 'rvs', wrap(c.__dict__['rvs']))
        return self

    def __exit__(self, *exc):
        for c, orig in self.patched: setattr(c, 'rvs', orig)
        np.random.default_rng = self.orig_default_rng
        return False

    def generators(self):
        """ {key: digest of the initial state} of the generators simulation code constructed that are NOT a distribution's own
            (`Dist.init`), keyed by owner class, method, owner name and ordinal """
        import hashlib
        out = {}; n = {}
        for cls, fn, name, is_dist, st in self.gens:
            if is_dist: continue
            base = f'{cls}.{fn}:{name}'; n[base] = n.get(base, 0) + 1
            out[f'{base}#{n[base]}'] = hashlib.sha1(st.encode()).hexdigest()
        return out

    @property
    def n_used(self): return len(self.used)

    def records(self, sim):
        import hashlib, sciris as sc
        ss = self.ss
        reg = {id(d): t for t, d in sim.dists.dists.items()}
        objs = dict(self.used)
        try:     # everything reachable now, by the same search `Dists.init` uses (finds what was attached after init)
            skip = dict(ids=id(sim.people._states), keys='module')
            for path, d in sc.search(sim, type=ss.Dist, skip=skip, flatten=True).items():
                objs.setdefault(id(d), d)
        except Exception:
            pass
        rs = int(sim.pars.rand_seed); out = []; n_anon = {}
        for i, d in objs.items():
            mod = type(d.module).__name__ if getattr(d, 'module', None) is not None else ''
            trace = reg.get(i)
            if trace is not None: key = 'reg:' + trace
            else:
                base = f'unregistered:{mod}:{type(d).__name__}:{d.trace or d.name}'
                n_anon[base] = n_anon.get(base, 0) + 1; key = f'{base}#{n_anon[base]}'
            drew = i in self.used
            hist = getattr(d, 'history', None) or []
            st0 = hashlib.sha1(repr(hist[0]).encode()).hexdigest() if len(hist) else None
            formula = (trace is not None and d.seed is not None and int(d.seed) == c04.str2int_ref(trace, 10**9) + rs)
            if trace is not None and rs == 0 and d.seed is not None:
                formula = True      # (base seed 0 re-uses a pre-initialised distribution's previous seed: the recorded finding C01-reinit-seed-zero, not this oracle's business)
            out.append(dict(key=key, cls=type(d).__name__, module=mod, name=str(d.trace or d.name), registered=trace is not None, drew=drew,
                            seed=None if d.seed is None else int(d.seed), formula=bool(formula), state0=st0,
                            ok=bool((trace is not None and formula) or not (drew or getattr(d, 'called', 0)))))
        return out


def census_run(cfg, gens=False):
    with stream_census() as cen:
        sim = make_sim(cfg); sim.run()
    return (cen.records(sim), cen.generators()) if gens else cen.records(sim)


def oracle_streams(cfg, seed_step):
    """ `Changing the seed changes every distribution's stream`, on the real code, for every distribution that drew in
        both runs — however it was created and wherever it lives: the generator state it was seeded with must differ
        between rand_seed and rand_seed + seed_step. """
    ra, ga = census_run(cfg, gens=True)
    c2 = with_seed(cfg, sim_seed(cfg) + seed_step)
    rb, gb = census_run(c2, gens=True)
    a = {r['key']: r for r in ra}; b = {r['key']: r for r in rb}
    private = sorted(k for k in ga if ga[k] == gb.get(k))
    if private:
        return (dict(oracle='seed-change', structure='generator:' + private[0].split(':')[0]),
                f"changing rand_seed ({sim_seed(cfg)} -> {sim_seed(c2)}) left the initial state of {len(private)} NumPy generator(s) constructed by simulation code "
                f"outside a distribution unchanged: {private[:3]}", dict(kind='streams', cfg=cfg, seed_step=seed_step))
    same = sorted(k for k in a if k in b and (a[k]['drew'] or b[k]['drew']) and a[k]['state0'] is not None and a[k]['state0'] == b[k]['state0'])
    if same:
        r = a[same[0]]
        how = 'registered' if r['registered'] else 'not registered in sim.dists'
        return (dict(oracle='seed-change', structure='stream:' + (r['module'] or '?') + '.' + r['cls']),
                f"changing rand_seed ({sim_seed(cfg)} -> {sim_seed(c2)}) left the generator state of {len(same)} distribution(s) that drew during the run unchanged: "
                f"{[a[k]['name'] for k in same[:3]]} (owner {r['module'] or '?'}, {how}, seed {r['seed']} in both runs)",
                dict(kind='streams', cfg=cfg, seed_step=seed_step))
    return None


def _gstate():
    return (np.random.get_state(), pyrandom.getstate())


def _grestore(st):
    np.random.set_state(st[0]); pyrandom.setstate(st[1])


def run_history(cfg, hist, rng, shield=False):
    """ run the same configuration under a different process history; returns a snapshot.
        `shield=True` replays the same history but puts the process-global generators (NumPy legacy, stdlib random) back
        to what they were before the intervening events: a difference that disappears under the shield came through
        those generators and through nothing else; one that remains came through another channel. """
    import starsim as ss
    kind = hist['kind']
    keep = (lambda: _gstate()) if shield else (lambda: None)
    back = (lambda st: _grestore(st)) if shield else (lambda st: None)
    if kind == 'perturb-before-run':
        sim = make_sim(cfg)
        st = keep(); np.random.random(hist['n']); pyrandom.random(); back(st)
        sim.run(); return snap.everything(sim)
    if kind == 'perturb-at-boundary':
        sim = make_sim(cfg)
        k = min(hist['k'], len(sim.loop.plan) - 1)
        for _ in range(k): sim.loop.run_one_step()
        st = keep(); np.random.random(hist['n']); pyrandom.random(); back(st)
        sim.run(); return snap.everything(sim)
    if kind == 'other-sim-between':
        sim = make_sim(cfg)
        st = keep(); other = make_sim(hist['other']); other.run(); back(st)
        sim.run(); return snap.everything(sim)
    if kind == 'other-sim-before':
        st = keep(); other = make_sim(hist['other']); other.run()
        np.random.random(3); back(st)
        sim = make_sim(cfg); sim.run(); return snap.everything(sim)
    if kind in ('interleaved-steps', 'twin-alternate'):
        # two live simulations advanced in turns (a step of one, a step of the other): what a notebook, a calibration
        # loop or a comparison of scenarios does.  `other` is a sibling: the same module classes, another seed/size.
        import sciris as sc
        sim = make_sim(cfg)
        st = keep(); other = sc.dcp(sim) if kind == 'twin-alternate' else make_sim(hist['other']); back(st)
        done = lambda x: x.loop.index >= len(x.loop.plan)
        fine = hist.get('k', 0) % 3 == 0           # in turns per scheduled function (k of them) instead of per timestep
        chunk = 1 + hist.get('n', 1) % 4
        for _ in range(100000):
            if done(sim): break
            if not done(other):
                st = keep()
                if fine:
                    for _ in range(chunk):
                        if not done(other): other.loop.run_one_step()
                else: other.run_one_step()
                back(st)
            if fine:
                for _ in range(chunk):
                    if not done(sim): sim.loop.run_one_step()
            else: sim.run_one_step()
        sim.run()
        if kind == 'twin-alternate' and hist.get('n', 1) % 2 == 1:
            # the deep-copied twin is a simulation with the same configuration and seed too: on odd `n` it is the one compared
            st = keep(); other.run(); back(st)       # (finishes and finalises it, as `sim.run()` above does for the original)
            return snap.everything(other)
        return snap.everything(sim)
    if kind == 'twin-copy':
        import sciris as sc
        sim = make_sim(cfg)
        twin = sc.dcp(sim)
        st = keep(); sim.run(); back(st)
        twin.run(); return snap.everything(twin)
    raise ValueError(kind)


WORKER = r'''
import sys, json, numpy as np
sys.path.insert(0, %(verif)r)
from harness import impl, snap
from harness.props import c01
cfg = json.loads(sys.argv[1]); what = sys.argv[2]
if what == 'seeds':
    sim = c01.make_sim(cfg)
    print('OUT' + json.dumps([[t, int(d.seed)] for t, d in sim.dists.dists.items()]))
else:
    import hashlib
    np.random.random(11)
    sim = c01.make_sim(cfg); sim.run()
    s = snap.everything(sim)
    print('OUT' + json.dumps({k: hashlib.sha1(np.ascontiguousarray(v).tobytes()).hexdigest() + str(v.shape) for k, v in s.items()}))
'''


def run_subprocess(cfg, what, hashseed):
    env = dict(os.environ); env['PYTHONHASHSEED'] = str(hashseed)
    code = WORKER % dict(verif=VERIF)
    try:
        p = subprocess.run([sys.executable, '-W', 'ignore', '-c', code, json.dumps(cfg), what], capture_output=True, text=True, timeout=600, env=env)
    except subprocess.TimeoutExpired:
        return None
    for ln in p.stdout.split('\n'):
        if ln.startswith('OUT'):
            return json.loads(ln[3:])
    return None


def digest(s):
    import hashlib
    return {k: hashlib.sha1(np.ascontiguousarray(v).tobytes()).hexdigest() + str(v.shape) for k, v in s.items()}


def gen_history(rng, cfg):
    kind = rng.choice(['perturb-before-run', 'perturb-at-boundary', 'perturb-at-boundary', 'other-sim-between', 'other-sim-before', 'twin-copy',
                       'interleaved-steps', 'interleaved-steps', 'twin-alternate'])
    h = dict(kind=kind, n=rng.randint(1, 9), k=rng.randint(1, 200))
    if 'other' in kind:
        # the other simulation may use the same module classes (class-level state is shared within a process)
        h['other'] = gen_cfg(rng, products=True) if 'c20case' in cfg else impl.gen_sim_config(rng, small=True, allow_global_readers=True)
    if kind == 'interleaved-steps':
        # a sibling: same classes, same options (so that anything cached per option value is shared), another seed and size
        import copy
        o = copy.deepcopy(cfg)
        if 'c20case' in o:
            o['c20case']['sim']['rand_seed'] = o['c20case']['sim'].get('rand_seed', 0) + 17
        else:
            o['rand_seed'] = cfg['rand_seed'] + 17; o['n_agents'] = cfg['n_agents'] + rng.choice([0, 40])
        h['other'] = o
    return h


def attribute(cfg, what, channel='global-generator', hist=None):
    """ Turn a differential failure into failures whose signatures name what is responsible.
        A reader of the process-global generators explains the difference exactly when the same history, replayed with
        those generators put back to their earlier state after the intervening events (`shield`), gives the reference
        results again; when it still differs, the difference came through another channel (hash seed, class-level state
        left by another simulation, …) and is reported under that channel, never under a reader's name.  Where no
        shielded replay exists (fresh interpreter), a reader is blamed only if perturbing the global generator ALONE
        changes the results of this configuration. """
    explained = False
    try:
        ref = run_ref(cfg)
        if hist is not None:
            explained = not snap.diff(ref, run_history(cfg, hist, None, shield=True))
        else:
            for h in (dict(kind='perturb-before-run', n=5, k=1), dict(kind='perturb-at-boundary', n=3, k=7),
                      dict(kind='perturb-at-boundary', n=11, k=3), dict(kind='perturb-at-boundary', n=2, k=40)):
                if snap.diff(ref, run_history(cfg, h, None)):
                    explained = True; break
    except Exception:
        explained = False
    if explained:
        try:
            sim, readers, silent = monitor_run(cfg)
        except Exception:
            readers = {}
        classes = sorted({cls or fn for (cls, fn) in readers})
        if classes:
            return [dict(signature=dict(oracle='global-reader', reader=c), what=f'{what} — `{c}` reads the process-global NumPy generator') for c in classes]
        return [dict(signature=dict(oracle='nondeterminism', channel='global-generator', reader='none-detected'), what=what)]
    return [dict(signature=dict(oracle='nondeterminism', channel=channel), what=f'{what} — not explained by the global NumPy generator (channel: {channel})')]


def oracle_diff(cfg, hist, rng=None):
    ref = run_ref(cfg)
    try:
        other = run_history(cfg, hist, rng)
    except Exception as e:
        # the reference run completed: a run of the same configuration and seed that RAISES under another process history
        # is a difference too (unless the history's other simulation is what cannot run)
        if 'other' in hist:
            make_sim(hist['other']).run()      # raises again when the other simulation is the culprit: not a case
        return f"same configuration and seed, history `{hist['kind']}`: the reference run completes, this run raises {type(e).__name__}: {str(e)[:160]}"
    d = snap.diff(ref, other)
    if d:
        return f"same configuration and seed, history `{hist['kind']}`: {d}"
    return None


def search(ctx):
    import starsim as ss
    # differential histories, half of the configurations avoiding the known readers
    for k in range(ctx.budget(12, 90)):
        cfg = gen_cfg(ctx.rng, k)
        hist = gen_history(ctx.rng, cfg)
        if k in (1, 2):
            # always exercise: a capacity-limited treatment sim, with another treatment sim run before / in between
            cfg = gen_product_cfg(ctx.rng, 'treat')
            hist = dict(kind=['other-sim-before', 'other-sim-between'][k - 1], n=3, k=1, other=gen_product_cfg(ctx.rng, 'treat'))
        if k == 3:
            # always exercise: two live sims with age-bracket mixing pools advanced in turns
            cfg = impl.gen_sim_config(ctx.rng, small=True, allow_global_readers=False, networks=['agepools'], demographics=[])
            hist = dict(kind='interleaved-steps', n=ctx.rng.randint(1, 9), k=ctx.rng.choice([1, 2, 3]), other=dict(cfg, rand_seed=cfg['rand_seed'] + 17, n_agents=cfg['n_agents'] + 40))
        try:
            msg = oracle_diff(cfg, hist)
        except Exception as e:
            ctx.count('oracle_exceptions'); ctx.notes['last_oracle_exception'] = f'{type(e).__name__}: {e}'; continue
        ctx.count('differential_runs'); ctx.count('history:' + hist['kind'])
        if msg:
            for f in attribute(cfg, msg, channel=hist['kind'], hist=hist):
                ctx.fail(f['signature'], f['what'], dict(kind='diff', cfg=cfg, hist=hist))
    # the fixed zoo of unusual-but-valid configurations, each under one process history (rotating)
    from harness import zoo
    import copy
    zc = zoo.configs()
    kinds = ['perturb-at-boundary', 'other-sim-between', 'interleaved-steps', 'twin-alternate', 'twin-copy', 'other-sim-before']
    for i, (name, cfg) in enumerate(zc):
        kind = kinds[(i + ctx.seed) % len(kinds)]
        hist = dict(kind=kind, n=1 + (i % 7), k=3 + 5 * (i % 9))
        if 'other' in kind: hist['other'] = copy.deepcopy(zc[(i + 7) % len(zc)][1])
        if kind == 'interleaved-steps': hist['other'] = dict(copy.deepcopy(cfg), rand_seed=cfg['rand_seed'] + 17)
        try:
            msg = oracle_diff(cfg, hist)
        except Exception as e:
            ctx.count('zoo_exceptions'); ctx.notes['last_zoo_exception'] = f'{name} / {kind}: {type(e).__name__}: {e}'; continue
        ctx.count('zoo_runs')
        if msg:
            for f in attribute(cfg, f'[zoo:{name}] ' + msg, channel=kind, hist=hist):
                ctx.fail(f['signature'], f['what'], dict(kind='diff', cfg=cfg, hist=hist))
    # fresh interpreter / other hash seed (expensive: few)
    for k in range(ctx.budget(3, 12)):
        # products loop over string-keyed tables (disease states): the hash-seed-sensitive part
        cfg = gen_product_cfg(ctx.rng, 'pipeline') if k % 3 != 0 else gen_cfg(ctx.rng, products=False)
        try:
            a = digest(run_ref(cfg))
        except Exception as e:
            ctx.count('oracle_exceptions'); ctx.notes['last_oracle_exception'] = f'{type(e).__name__}: {e}'; continue
        # two fixed, different hash seeds (string-set orders differ between them) plus the in-process run
        for hs in ((1, 2) if 'c20case' in cfg else (ctx.rng.randint(3, 10**6),)):
            b = run_subprocess(cfg, 'run', hashseed=hs)
            ctx.count('subprocess_runs')
            if b is None:
                ctx.count('subprocess_failed'); continue
            bad = sorted(k2 for k2 in set(a) | set(b) if a.get(k2) != b.get(k2))
            if bad:
                for f in attribute(cfg, f'results differ in a fresh interpreter (PYTHONHASHSEED={hs}, global draws before the sim): {bad[:4]}', channel='fresh-interpreter/hash-seed'):
                    ctx.fail(f['signature'], f['what'], dict(kind='subprocess', cfg=cfg))
                break
    # table-driven modules: another simulation with ANOTHER table (same years, sexes, ages) run before / in between
    for kind in ('other-sim-before', 'other-sim-between'):
        cfg = impl.gen_sim_config(ctx.rng, small=True, diseases=['sis'], networks=['random'], demographics=[], allow_global_readers=False)
        cfg['demographics'] = [dict(type='deaths', death_table=dict(scale=60.0))]
        other = dict(cfg, rand_seed=cfg['rand_seed'] + 5, demographics=[dict(type='deaths', death_table=dict(scale=200.0))])
        hist = dict(kind=kind, n=2, k=5, other=other)
        try:
            msg = oracle_diff(cfg, hist)
        except Exception as e:
            ctx.count('oracle_exceptions'); ctx.notes['last_oracle_exception'] = f'{type(e).__name__}: {e}'; continue
        ctx.count('differential_runs'); ctx.count('history:' + kind + '/tables')
        if msg:
            for f in attribute(cfg, msg, channel=kind, hist=hist):
                ctx.fail(f['signature'], f['what'], dict(kind='diff', cfg=cfg, hist=hist))
    # always exercised: deep-copied twins (run after the original / advanced in turns with it) of simulations whose
    # distributions have CALLABLE parameters bound to a module (Pregnancy's fertility, Deaths' rate): whatever such a
    # callable holds on to is not copied by deepcopy
    for dem in (['pregnancy'], ['pregnancy', 'deaths'], ['deaths']):
        for kind in ('twin-copy', 'twin-alternate'):
            cfg = impl.gen_sim_config(ctx.rng, small=True, diseases=['sis'], networks=['random'], demographics=dem, allow_global_readers=False,
                                      time=dict(unit='year', dt=ctx.rng.choice([1.0, 0.5]), start=2000, dur=ctx.rng.choice([4, 6])))
            for d in cfg['demographics']:
                if d['type'] == 'pregnancy': d.update(fertility_rate=150, burnin=False)
            hist = dict(kind=kind, n=ctx.rng.randint(1, 9), k=ctx.rng.choice([1, 2, 3]))
            try:
                msg = oracle_diff(cfg, hist)
            except Exception as e:
                ctx.count('oracle_exceptions'); ctx.notes['last_oracle_exception'] = f'{type(e).__name__}: {e}'; continue
            ctx.count('differential_runs'); ctx.count('history:' + kind + '/demographics')
            if msg:
                for f in attribute(cfg, msg, channel=kind, hist=hist):
                    ctx.fail(f['signature'], f['what'], dict(kind='diff', cfg=cfg, hist=hist))
    # per-network betas given as a dict / a mixing pool serving two named diseases: the order in which networks and
    # diseases are processed must not depend on the hash seed
    for k in range(ctx.budget(3, 6)):
        cfg = dictbeta_cfg(ctx.rng); first = None
        if k == 2:
            # a table-driven module after simulations with other tables ran in THIS process, against a fresh interpreter
            cfg = impl.gen_sim_config(ctx.rng, small=True, diseases=['sis'], networks=['random'], demographics=[], allow_global_readers=False,
                                      time=dict(unit='year', dt=ctx.rng.choice([1.0, 0.5]), start=ctx.rng.choice([1996, 2000, 2004]), dur=6))   # (whole years: the table matters)
            cfg['demographics'] = [dict(type='deaths', death_table=dict(scale=200.0))]
            try:     # the same simulation with ANOTHER table (same years / sexes / ages, same time span) runs first in this process
                first = dict(cfg, rand_seed=cfg['rand_seed'] + 3, demographics=[dict(type='deaths', death_table=dict(scale=60.0))])
                make_sim(first).run()
            except Exception:
                pass
        if k == 1:
            from harness import zoo
            cfg = zoo.configs(names=['pool-two-diseases'])[0][1]; cfg['rand_seed'] = ctx.rng.randint(0, 1000)
        try:
            a = digest(run_ref(cfg))
        except Exception as e:
            ctx.count('oracle_exceptions'); ctx.notes['last_oracle_exception'] = f'{type(e).__name__}: {e}'; continue
        for hs in (1, 2, 3, 4):
            b = run_subprocess(cfg, 'run', hashseed=hs); ctx.count('subprocess_runs')
            if b is None: ctx.count('subprocess_failed'); continue
            bad = sorted(k2 for k2 in set(a) | set(b) if a.get(k2) != b.get(k2))
            if bad:
                for f in attribute(cfg, f'dict beta over three networks / pool over two diseases: results differ in a fresh interpreter (PYTHONHASHSEED={hs}): {bad[:4]}', channel='fresh-interpreter/hash-seed'):
                    ctx.fail(f['signature'], f['what'], dict(kind='subprocess', cfg=cfg, hashseeds=[1, 2, 3, 4], first=first))
                break
    # distribution objects the user created before the simulation (strict=False), SciPy- and NumPy-sampled families
    for fam in (sorted(USER_DISTS) if (ctx.thorough or ctx.broken) else ctx.rng.sample(sorted(USER_DISTS), 3)):
        cfg = userdist_cfg(ctx.rng, fam)
        try:
            r = oracle_user_dist(cfg, ctx.rng.choice([1, 5, 17]), ctx.rng.randint(1, 50))
        except Exception as e:
            ctx.count('oracle_exceptions'); ctx.notes['last_oracle_exception'] = f'{type(e).__name__}: {e}'; continue
        ctx.count('user_dist_runs')
        if r: ctx.fail(*r)
    # every stream of every family, on two seeds: interventions delivering products (all-or-nothing and leaky vaccines, routine
    # and campaign; screening; treatment; test-and-treat pipelines), the configurations of the recorded global readers (the places
    # where a module makes random decisions outside the registered distributions today), generated configurations
    for cfg in stream_family_cfgs(ctx):
        try:
            r = oracle_streams(cfg, ctx.rng.randint(1, 50))
        except Exception as e:
            ctx.count('oracle_exceptions'); ctx.notes['last_oracle_exception'] = f'streams: {type(e).__name__}: {e}'; continue
        ctx.count('stream_seed_pairs')
        if r: ctx.fail(*r)
    # ... and the census taken during EVERY reference run above (generated, product, zoo, table, dict-beta, user-dist
    # configurations): a distribution that drew without being seeded by the rule the theorems assume is re-run on a second seed
    ctx.notes['stream_census'] = dict(CENSUS_STATS)
    ctx.count('census_runs', CENSUS_STATS['runs']); ctx.count('census_streams', CENSUS_STATS['streams'])
    if CENSUS_STATS['errors']:
        ctx.broke('correspondence', 'C01.census', f"the stream census failed on {CENSUS_STATS['errors']} reference run(s): {CENSUS_STATS.get('last_error')}")
    done = set()
    for cfg, bad in list(SUSPECTS):
        fam = tuple(sorted({(r['module'], r['cls'], r['registered'], r['formula']) for r in bad}))
        if fam in done: continue
        done.add(fam)
        try:
            r = oracle_streams(cfg, 7)
        except Exception as e:
            ctx.count('oracle_exceptions'); ctx.notes['last_oracle_exception'] = f'streams: {type(e).__name__}: {e}'; continue
        if r: ctx.fail(*r)
        else:
            b0 = bad[0]
            ctx.broke('correspondence', 'C01.registered', f"distribution `{b0['name']}` ({b0['module']}.{b0['cls']}) drew during the run but "
                      + ('is not one of sim.dists (never seeded by Sim.init_dists)' if not b0['registered'] else f"has seed {b0['seed']}, not sha224(trace) mod 1e9 + rand_seed")
                      + ': the hypothesis of C01_seed_formula / C01_seed_changes_all does not cover it', data=dict(kind='streams', cfg=cfg, seed_step=7))
    del SUSPECTS[:]
    # changing the seed changes every distribution's stream: its seed, and what is actually drawn from it
    for k in range(ctx.budget(3, 20)):
        cfg = impl.gen_sim_config(ctx.rng, small=True)
        cfg2 = dict(cfg); cfg2['rand_seed'] = cfg['rand_seed'] + ctx.rng.randint(1, 50)
        msg = oracle_seed_change(cfg, cfg2)
        if msg:
            ctx.fail(dict(oracle='seed-change', what=msg[0]), msg[1], dict(kind='seedchange', cfg=cfg, cfg2=cfg2))
    for net in ('static', 'random', 'erdosrenyi', 'disk', 'mf'):   # always exercised: every random network type
        cfg = dict(n_agents=120, rand_seed=11, unit='year', dt=1.0, start=2000, dur=3, demographics=[],
                   diseases=[dict(type='sis', beta=0.2, init_prev=0.2)], networks=[dict(type=net, **({'n_contacts': 4} if net in ('static', 'random') else {}))])
        msg = oracle_seed_change(cfg, dict(cfg, rand_seed=12))
        if msg:
            ctx.fail(dict(oracle='seed-change', what=msg[0]), msg[1], dict(kind='seedchange', cfg=cfg, cfg2=dict(cfg, rand_seed=12)))
        if net in ('random', 'mf'):
            # boundary value: seed 0 is a valid seed of its own (a falsy-zero idiom anywhere on the way makes it an alias of another seed)
            for s0, s1 in ((0, 1), (0, 2)):
                c0, c1 = dict(cfg, rand_seed=s0), dict(cfg, rand_seed=s1)
                msg = oracle_seed_change(c0, c1)
                if msg:
                    ctx.fail(dict(oracle='seed-change', what=msg[0]), msg[1], dict(kind='seedchange', cfg=c0, cfg2=c1))


def stream_family_cfgs(ctx):
    """ configurations for the two-seed stream comparison; the fixed part is exercised on every run """
    import copy
    from harness.props import c20_impl
    out = []
    base = dict(n_agents=150, rand_seed=ctx.rng.randint(0, 500), unit='year', dt=1.0, start=2000, dur=6, demographics=[],
                diseases=[dict(type='sir', beta=0.3, init_prev=0.1, p_death=0)], networks=[dict(type='random', n_contacts=4, dur=0)])
    for leaky in (False, True):
        out.append(dict(copy.deepcopy(base), interventions=[dict(type='sir_vx', leaky=leaky, efficacy=0.6, prob=0.7, start_year=2001, end_year=2004)]))
    # campaign / routine delivery of an all-or-nothing vaccine, a screening, a treatment and a pipeline from the C20 scenarios
    for case in c20_impl.fixed_cases() + c20_impl.fixed_cases_r3():
        tag = (case.get('kind'), case.get('delivery'), (case.get('vaccine') or {}).get('kind'), bool(case.get('pipeline')), bool(case.get('syph')))
        if tag in [x[0] for x in out if isinstance(x, tuple)]: continue
        out.append((tag, dict(c20case=copy.deepcopy(case))))
    out = [c if isinstance(c, dict) else c[1] for c in out]
    # the configurations of the recorded findings (global readers)
    try:
        for f in json.load(open(os.path.join(VERIF, 'known_findings.d', 'C01.json'))):
            c = (f.get('replay') or {}).get('cfg')
            if c and f['signature'].get('oracle') == 'global-reader': out.append(copy.deepcopy(c))
    except Exception:
        pass
    for k in range(ctx.budget(2, 12)):
        out.append(gen_cfg(ctx.rng, k, products=(k % 2 == 1)))
    if not (ctx.thorough or ctx.broken):
        # quick tier: the vaccine pair and the recorded readers always; of the C20 scenarios a rotating third
        fixed = [c for c in out if 'c20case' not in c]; c20 = [c for c in out if 'c20case' in c]
        aon = [c for c in c20 if (c['c20case'].get('vaccine') or {}).get('kind') == 'aon']
        rest = [c for c in c20 if c not in aon]
        out = fixed + aon + [c for i, c in enumerate(rest) if (i + ctx.seed) % 3 == 0]
    return out


RANDOM_NETS = ('static', 'random', 'erdosrenyi', 'disk', 'mf', 'msm', 'embedding')


USER_DISTS = dict(weibull=dict(c=2.0, scale=8.0), gamma=dict(a=2.0, scale=4.0), histogram=dict(values=[1.0, 3.0, 2.0], bins=[2.0, 5.0, 9.0, 14.0]),
                  lognorm_ex=dict(mean=6.0, std=2.0), normal=dict(loc=8.0, scale=1.5), expon=dict(scale=6.0))


def userdist_cfg(rng, fam=None):
    """ a disease whose duration is a distribution object the user created (and may have drawn from) before the sim """
    cfg = impl.gen_sim_config(rng, small=True, diseases=['sir'], networks=['random'], demographics=[], allow_global_readers=False)
    fam = fam or rng.choice(sorted(USER_DISTS))
    cfg['diseases'][0].update(init_prev=0.6, p_death=0, dur_inf=dict(dist=fam, pars=USER_DISTS[fam], preview=0))
    return cfg


def oracle_user_dist(cfg, k, seed_step):
    """ (a) draws taken from the user's distribution object before the simulation is built are part of the process history,
            not of the configuration: the results must not depend on them;
        (b) changing rand_seed changes that distribution's stream too (the durations drawn at initialisation) """
    import copy
    fam = cfg['diseases'][0]['dur_inf']['dist']
    ref = run_ref(cfg)
    c2 = copy.deepcopy(cfg); c2['diseases'][0]['dur_inf']['preview'] = k
    d = snap.diff(ref, run_ref(c2))
    if d:
        return dict(oracle='nondeterminism', channel='draws-from-user-dist-before-sim', family=fam), f'same configuration and seed, {k} values drawn from the user\'s ss.{fam}(strict=False) before the simulation was built: {d}', dict(kind='userdist', cfg=cfg, k=k, seed_step=seed_step)
    c3 = copy.deepcopy(cfg); c3['rand_seed'] = cfg['rand_seed'] + seed_step
    a = make_sim(cfg); b = make_sim(c3)
    da, db = a.diseases[0], b.diseases[0]
    ia = np.asarray(da.infected.uids); ib = np.asarray(db.infected.uids)
    both = np.intersect1d(ia, ib)
    if len(both) >= 10:
        ra = np.asarray(da.ti_recovered.raw)[both]; rb = np.asarray(db.ti_recovered.raw)[both]
        if np.array_equal(ra, rb):
            return dict(oracle='seed-change', structure='user-dist:' + fam), f"changing rand_seed ({cfg['rand_seed']} -> {c3['rand_seed']}) left all {len(both)} infection durations drawn from the user's ss.{fam}(strict=False) identical", dict(kind='userdist', cfg=cfg, k=k, seed_step=seed_step)
    return None


def dictbeta_cfg(rng):
    """ per-network betas given as a dict, three networks with edges """
    cfg = impl.gen_sim_config(rng, small=True, diseases=['sis'], networks=['random', 'mf', 'static'], demographics=[], allow_global_readers=False)
    cfg['diseases'][0]['beta'] = dict(random=rng.choice([0.05, 0.2]), mf=rng.choice([0.1, 0.4]), static=rng.choice([0.05, 0.3]))
    return cfg


def oracle_seed_change(cfg, cfg2):
    """ two simulations that differ only in rand_seed: every distribution's seed differs, and the realised random
        structures (initial edges of every random network type, initial infections) differ """
    s1 = dict(seeds_inproc(cfg)); s2 = dict(seeds_inproc(cfg2))
    same = [t for t in s1 if s1[t] == s2.get(t)]
    if same or set(s1) != set(s2):
        return 'dist-seed', f'changing rand_seed left the seed of {same[:4]} unchanged'
    a = make_sim(cfg); b = make_sim(cfg2)
    for nc, (name, net) in zip(cfg.get('networks', []), a.networks.items()):
        if nc['type'] in RANDOM_NETS and hasattr(net, 'edges') and len(net.edges.p1) >= 20:
            nb = b.networks[name]
            if len(net.edges.p1) == len(nb.edges.p1) and np.array_equal(net.edges.p1, nb.edges.p1) and np.array_equal(net.edges.p2, nb.edges.p2):
                return 'network:' + nc['type'], f"changing rand_seed ({cfg['rand_seed']} -> {cfg2['rand_seed']}) left the {len(net.edges.p1)} initial edges of the random network `{name}` identical"
    for da, db in zip(a.diseases(), b.diseases()):
        if hasattr(da, 'infected') and 5 <= int(np.count_nonzero(da.infected)) and np.array_equal(np.asarray(da.infected.uids), np.asarray(db.infected.uids)) and len(da.infected.uids) < 0.9 * len(a.people.auids):
            return 'init-infections', f"changing rand_seed left the {len(da.infected.uids)} initially infected agents of `{da.name}` identical"
    return None


def replay(ctx, data):
    k = data.get('kind')
    if k == 'diff':
        return oracle_diff(data['cfg'], data['hist']) is not None
    if k == 'subprocess':
        if data.get('first'): make_sim(data['first']).run()     # what ran earlier in the process that found it
        a = digest(run_ref(data['cfg']))
        return any(b is not None and a != b for b in (run_subprocess(data['cfg'], 'run', hashseed=hs) for hs in data.get('hashseeds', (1, 2))))
    if k == 'userdist':
        return oracle_user_dist(data['cfg'], data['k'], data['seed_step']) is not None
    if k == 'streams':
        return oracle_streams(data['cfg'], data['seed_step']) is not None
    if k == 'seedchange':
        return oracle_seed_change(data['cfg'], data['cfg2']) is not None
    if k == 'reinit-seed-zero':
        sim = impl.build_sim(data['cfg']); sim.init()
        before = [d.seed for d in sim.dists.dists.values()]
        sim.dists.init(obj=sim, base_seed=0, force=True)
        after = [d.seed for d in sim.dists.dists.values()]
        return before != after
    return False
