"""
Export of the object graph that `Dists.init` hands to `sc.search`, in the vocabulary of Model/Search.lean.

The graph is read with sciris' OWN classification (`IterObj.check_iter_type`, `IterObj.iteritems`), so what is compared
against the Lean model is the traversal (order, memo, skips, traces, flattening), not the classification of Python types.
Only iterable objects are exported: a non-iterable object is processed by the search every time it is met, matches nothing
(a Dist is an object with a __dict__) and has no children, so it cannot influence the result.
"""
import numpy as np


def export(sim, max_nodes=200000):
    """ -> dict(root=0, nodes=[(iterable, is_dist, [(key, child)])], skip_keys=[...], skip_ids=[...], ids={id: n}) """
    import sciris as sc, starsim as ss
    import sciris.sc_nested as scn
    it = scn.IterObj(sim, iterate=False)
    num = {}; nodes = []; order = []
    keep = []          # hold references so that ids stay unique

    def number(o):
        i = id(o)
        if i not in num:
            num[i] = len(nodes); nodes.append(None); order.append(o); keep.append(o)
        return num[i]
    number(sim)
    k = 0
    while k < len(order):
        o = order[k]
        kids = []
        for key, child in list(it.iteritems(o, scn._None)):
            if not it.check_iter_type(child): continue          # non-iterable: irrelevant (see module docstring)
            kids.append((str(key), number(child)))
        nodes[k] = (True, isinstance(o, ss.Dist), kids)
        k += 1
        if len(nodes) > max_nodes: raise RuntimeError('object graph too large')
    skip_ids = [num[id(sim.people._states)]] if id(sim.people._states) in num else []
    return dict(root=0, nodes=nodes, skip_keys=['module'], skip_ids=skip_ids, ids=num, objs=order)


def reference_search(G):
    """ the same traversal in Python (used only to cross-check the exporter against sc.search before Lean is asked) """
    nodes = G['nodes']; memo = {G['root']}; out = []
    stack = [([], k, c) for k, c in nodes[G['root']][2]]
    while stack:
        tr, key, i = stack.pop(0)
        if key in G['skip_keys'] or i in G['skip_ids'] or i in memo: continue
        memo.add(i); ntr = tr + [key]
        if nodes[i][1]: out.append((ntr, i))
        stack = [(ntr, k, c) for k, c in nodes[i][2]] + stack
    return out


def to_lines(G):
    """ line protocol for Drivers/C02Search.lean: `node <id> <isDist 0/1> <nkids> key child key child ...` (keys %-escaped) """
    def esc(s): return ''.join(ch if (ch.isalnum() or ch in '_.-') else '%%%04x' % ord(ch) for ch in s) or '%0000'
    lines = ['graph %d' % len(G['nodes'])]
    for i, (itb, isd, kids) in enumerate(G['nodes']):
        lines.append('node %d %d %d %s' % (i, 1 if isd else 0, len(kids), ' '.join('%s %d' % (esc(k), c) for k, c in kids)))
    lines.append('skipkeys ' + ' '.join(esc(k) for k in G['skip_keys']))
    lines.append('skipids ' + ' '.join(str(i) for i in G['skip_ids']))
    return lines
