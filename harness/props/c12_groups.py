"""
C12 helper module (round 3): the group selectors of mixing pools.

The property says "for mixing pools the target belongs to the destination group".  The destination group is what the
user's `dst` parameter DENOTES on the population of the step (all active agents / an age band / a predicate / an
explicit uid list minus the dead), not whatever uid array `MixingPool.step` happened to compute.  This module

  * builds group parameters from JSON-able specs (strings as before, or dict(age=[low, high], do_cache=…, ref=…) for
    `ss.AgeGroup` objects; the same `ref` inside one route yields the same Python object, as users share them),
  * re-derives the denoted group from the spec and the recorded population (`expected_group`), independently of the code,
  * exercises real `ss.AgeGroup` objects directly over a population that ages, dies, is born and is edited within a
    step (`agegroup_trace`), for the correspondence with `AgeGroup.call` of the model and for the oracle.
"""
import numpy as np

LAMBDAS = ('male', 'female', 'under30', 'over30',
           # round 6: callables in the documented style `lambda sim: sim.people.female`, returning a BoolArr (not uids); some
           # denote a group that has NO member (a band nobody is in; infants of a population without births after a year)
           'b_male', 'b_female', 'b_under30', 'b_over30', 'b_nobody', 'b_infants', 'nobody')
ORDERS = ('desc', 'shuf', 'ilv')      # round 6: explicit uid lists are given in ANY order (users concatenate, sample, sort by age)


def is_age(spec):
    return isinstance(spec, dict) and 'age' in spec


def describe(spec):
    if is_age(spec):
        lo, hi = spec['age']
        dc = spec.get('do_cache')
        return f"AgeGroup({lo}, {hi}" + ('' if dc is None else f', do_cache={dc}') + ')'
    return 'None (all agents)' if spec in (None, 'all') else str(spec)


def mk_group(spec, n_agents, shared, groups_callable):
    """ the live group parameter for a spec; `shared`: ref -> object (per route) """
    import starsim as ss
    if is_age(spec):
        ref = spec.get('ref')
        if ref is not None and ref in shared:
            return shared[ref]
        lo, hi = spec['age']
        kw = {} if spec.get('do_cache') is None else dict(do_cache=bool(spec['do_cache']))
        g = ss.AgeGroup(lo, hi, **kw)
        if ref is not None:
            shared[ref] = g
        return g
    return groups_callable(spec, n_agents)


def uid_range(name, n_agents):
    n = int(n_agents or 40)
    base = '_'.join(name.split('_')[:2])
    return dict(uids_lo=(0, n // 2), uids_hi=(n // 2, n), uids_mid=(n // 4, 3 * n // 4))[base]


def declared_uids(name, n_agents):
    """ the explicit uid list a spec `uids_<lo|hi|mid>[_desc|_shuf|_ilv]` declares, IN THE ORDER the user lists it:
        ascending (default), descending, a fixed shuffle, or interleaved (even positions first, then odd ones) """
    lo, hi = uid_range(name, n_agents)
    a = np.arange(lo, hi)
    parts = name.split('_')
    order = parts[2] if len(parts) > 2 else None
    if order is None: return a
    if order == 'desc': return a[::-1].copy()
    if order == 'ilv': return np.concatenate([a[1::2], a[0::2]])
    if order == 'shuf': return a[np.random.RandomState(len(a) * 7 + lo).permutation(len(a))]
    raise ValueError(f'unknown uid order in {name!r}')


def pools_groups(n):
    """ the (key, low, high, do_cache) rows of a `pools` route whose groups are age bands """
    if n.get('groups'):
        return [list(g) for g in n['groups']]
    a = n.get('split', 15)
    return [['young', 0, a, None], ['old', a, None, None]]


def pools_sides(n):
    """ ([(key, spec)] of the source groups, [(key, spec)] of the destination groups) of a `pools` route.  Round 5: the groups
        of the plural container can be ANY selector a single pool accepts (explicit uid list, callable, None, AgeGroup), given
        as `src_groups` / `dst_groups` = [[key, spec], ...]; otherwise both sides are the age bands of `groups` / `split`. """
    if n.get('src_groups') or n.get('dst_groups'):
        return [(k, sp) for k, sp in n['src_groups']], [(k, sp) for k, sp in n['dst_groups']]
    rows = [(r[0], dict(age=[r[1], r[2]], do_cache=r[3], ref=r[0] if n.get('share') else None)) for r in pools_groups(n)]
    return rows, rows


def mk_pools(n, groups_callable=None):
    import starsim as ss
    ssrc, sdst = pools_sides(n)
    shared = {}
    na = n.get('n_agents')
    src = {k: mk_group(sp, na, shared, groups_callable) for k, sp in ssrc}
    dst = {k: mk_group(sp, na, shared, groups_callable) for k, sp in sdst}    # with share=True the very same AgeGroup objects serve as sources and destinations
    kw = dict(diseases=n['diseases']) if n.get('diseases') else {}
    return ss.MixingPools(beta=n['beta'], src=src, dst=dst, contacts=n['contacts'], **kw)


def route_specs(n, route):
    """ [(MixingPool object, src spec, dst spec, n_agents)] for one configured route (empty for networks) """
    t = n.get('type')
    if t == 'pool':
        return [(route, n['src'], n['dst'], n.get('n_agents'))]
    if t == 'pools':
        ssrc, sdst = pools_sides(n)
        strip = lambda sp: ({k: v for k, v in sp.items() if k != 'ref'} if is_age(sp) else sp)
        ssrc = {k: strip(sp) for k, sp in ssrc}; sdst = {k: strip(sp) for k, sp in sdst}
        out = []
        for mp in route.pools:
            nm = str(mp.name)
            if not nm.startswith('pool:') or '->' not in nm:
                continue
            sk, dk = nm[len('pool:'):].split('->', 1)
            if sk in ssrc and dk in sdst:
                out.append((mp, ssrc[sk], sdst[dk], n.get('n_agents')))
        return out
    return []


def expected_group(spec, ppl, n_agents=None):
    """ the uids the parameter denotes on the recorded population `ppl` = dict(au, age (by uid), female (by uid)) """
    au = np.asarray(ppl['au']).astype(int)
    if spec in (None, 'all'):
        return au
    if is_age(spec):
        lo, hi = spec['age']
        a = ppl['age'][au]
        m = a >= lo
        if hi is not None:
            m = m & (a < hi)
        return au[m]
    if spec in ('male', 'b_male'): return au[~ppl['female'][au]]
    if spec in ('female', 'b_female'): return au[ppl['female'][au]]
    if spec in ('under30', 'b_under30'): return au[ppl['age'][au] < 30]
    if spec in ('over30', 'b_over30'): return au[ppl['age'][au] >= 30]
    if spec in ('nobody', 'b_nobody'): return au[ppl['age'][au] >= 500]
    if spec == 'b_infants': return au[ppl['age'][au] < 1]
    if isinstance(spec, str) and spec.startswith('uids_'):
        decl = declared_uids(spec, n_agents)
        return decl[np.isin(decl, au)]
    raise ValueError(f'unknown group spec {spec!r}')


def group_token(spec, ppl, n_agents, slot):
    """ the group as the driver's `poolg` takes it """
    nl = lambda a: ','.join(str(int(x)) for x in a) if len(a) else '-'
    if spec in (None, 'all'): return 'all'
    if is_age(spec): return f'age:{slot}'
    if spec in LAMBDAS: return 'fn:' + nl(expected_group(spec, ppl, n_agents))
    return 'uids:' + nl(expected_group(spec, ppl, n_agents))


# ---------------------------------------------------------------------------
# real AgeGroup objects called directly

GROUP_ROWS = [(0, 15, None), (0, 15, False), (15, None, True), (15, 40, False), (5, 5, False), (0, None, False), (30, 65, None),
              (60, None, False)]


def agegroup_trace(seed, nops=40):
    """ A real sim with births, deaths and ageing; real ss.AgeGroup objects (default / do_cache=True / do_cache=False) called
        at arbitrary moments: after steps, repeatedly within a step, and after ages were edited within a step.
        Returns the list of calls: dict(slot, low, high, do_cache, ti, au, age (au order), out, changed) where `changed`
        says the population was edited since this object's first call in the same step (when a caching group took its cache). """
    import starsim as ss
    rs = np.random.RandomState(int(seed) % (2 ** 31))
    sim = ss.Sim(n_agents=70, dt=1.0, start=2000, dur=200, rand_seed=int(seed) % 10000,
                 demographics=[ss.Births(birth_rate=45), ss.Deaths(death_rate=35)], verbose=0)
    sim.init()
    groups = []
    for lo, hi, dc in GROUP_ROWS:
        kw = {} if dc is None else dict(do_cache=dc)
        groups.append(ss.AgeGroup(lo, hi, **kw))
    last = {}
    edits = 0
    calls = []
    for _ in range(nops):
        op = rs.choice(['step', 'call', 'call', 'call', 'edit'])
        if op == 'step':
            for _ in range(rs.choice([1, 1, 3])):
                sim.run_one_step()
            edits += 1
        elif op == 'edit':      # e.g. a module that corrects / shifts ages inside a step
            au = np.asarray(sim.people.auids)
            pick = au[rs.random(len(au)) < 0.4]
            if len(pick):
                new = np.clip(np.asarray(sim.people.age[ss.uids(pick)]) + rs.choice([-20.0, -3.0, 4.0, 25.0], size=len(pick)), 0, None)
                sim.people.age[ss.uids(pick)] = new.astype(np.float32)
            edits += 1
        else:
            for slot in rs.choice(len(groups), size=rs.randint(1, 4), replace=False):
                slot = int(slot)
                g = groups[slot]
                lo, hi, dc = GROUP_ROWS[slot]
                au = np.asarray(sim.people.auids).astype(int)
                age = np.asarray(sim.people.age[sim.people.auids], dtype=np.float64)
                out = np.asarray(g(sim)).astype(int)
                ti = int(sim.ti)
                prev = last.get(slot)     # (step, edit counter) of this object's FIRST call in the step = when a cache was taken
                if prev is None or prev[0] != ti:
                    prev = last[slot] = (ti, edits)
                changed = prev[1] != edits
                calls.append(dict(slot=slot, low=lo, high=hi, do_cache=dc, ti=ti, au=au, age=age, out=out, changed=changed))
    return calls


def oracle_agegroup(seed, nops=40):
    """ the statement re-derived: an age group IS the set of active agents whose age is in [low, high) now.
        do_cache=False: on every call.  Caching groups: on every call not preceded, within the same step, by a change of the
        population after their previous call (that case is the documented meaning of the cache: counted, not judged). """
    fails = []; n = 0; skipped = 0
    for c in agegroup_trace(seed, nops):
        m = c['age'] >= c['low']
        if c['high'] is not None:
            m = m & (c['age'] < c['high'])
        want = c['au'][m]
        caching = c['do_cache'] is not False
        if caching and c['changed']:
            skipped += 1
            continue
        n += 1
        if not np.array_equal(np.sort(want), np.sort(c['out'])):
            extra = sorted(set(c['out'].tolist()) - set(want.tolist()))[:4]
            missing = sorted(set(want.tolist()) - set(c['out'].tolist()))[:4]
            agemap = dict(zip(c['au'].tolist(), c['age'].tolist()))
            def show(us): return [(u, round(agemap[u], 2) if u in agemap else 'not active') for u in us]
            fails.append(dict(signature=dict(oracle='agegroup-membership', cache='on' if caching else 'off'),
                              what=f"{describe(dict(age=[c['low'], c['high']], do_cache=c['do_cache']))} called at ti={c['ti']} returns {len(c['out'])} agents, "
                                   f"but {len(want)} active agents have an age in the band now: wrongly included (uid, age) {show(extra)}, missing {show(missing)}"))
            break
    return fails, n, skipped


# ---------------------------------------------------------------------------
# scenario family: age-band pools over a population whose band membership changes every step

def ageband_cfg(seed, variant=0):
    """ MixingPool / MixingPools whose groups are AgeGroup objects of every cache setting (default, True, False; separate
        and shared objects) in a population with births, deaths and fast ageing (dt of several years), SIS (keeps its flags
        on death) and SIR.  Every pool infection must hit an active member of the band as it is on that step. """
    s = int(seed) + int(variant)
    dc = [None, True, False]
    r = lambda k: dc[(s + k) % 3]
    nets = [dict(type='pool', src=dict(age=[15, None], do_cache=False), dst=dict(age=[0, 15], do_cache=False), beta=0.8, timepar=False,
                 contacts=3, n_agents=160),
            dict(type='pools', beta=0.5, share=(s % 2 == 0), contacts=[[1.5, 1.0, 0.2], [2.0, 0.8, 0.5], [0.3, 0.6, 1.0]],
                 groups=[['kids', 0, 15, r(0)], ['adults', 15, 60, r(1)], ['old', 60, None, r(2)]]),
            dict(type='pool', name='midpool', src=dict(age=[20, 50], do_cache=r(1), ref='mid'), dst=dict(age=[20, 50], do_cache=r(1), ref='mid'),
                 beta=0.6, timepar=True, contacts=2, n_agents=160),
            dict(type='pool', name='infantpool', src='all', dst=dict(age=[0, 5], do_cache=r(2)), beta=0.9, timepar=False, contacts=2, n_agents=160)]
    if variant % 2:
        nets = nets[::-1]
    return dict(family='agebands', n_agents=160, rand_seed=2600 + s, dt=[2.0, 5.0, 1.0][s % 3], npts=7,
                networks=nets,
                demographics=[dict(type='births', birth_rate=45), dict(type='deaths', death_rate=35)],
                diseases=[dict(type='sis', init_prev=0.35, log=True, beta=dict(kind='scalar', v=0.0, tp=False)),
                          dict(type='sir', init_prev=0.2, beta=dict(kind='scalar', v=0.0, tp=False))],
                rel=dict(seed=71 + s, p_zero=0.1, edge_beta=False))
