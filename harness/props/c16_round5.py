"""
C16 round 5: the path from a USER-SUPPLIED value to a module parameter whose default is a time parameter.

`ss.SIR(beta=0.02)`, `ss.SIS(waning=0.1)`, `ss.SIS(waning=[0.1, 'day'])`, `dict(type='sis', beta=0.07)`, `ss.Births(birth_rate=30)` …:
`Pars.update` dispatches to `Pars._update_timepar`, which sets a plain number / a list INSIDE the default (class and unit kept) and takes
a time parameter as is.  Every check of rounds 1-4 started either from the default declaration or from an explicit `ss.beta()/ss.rate()`
object; a number that loses its wrapper is a bare float that `Module.init_time` never sees and is applied per STEP.

Always-exercised families (every quick run, every built-in class of the regenerated declaration table that has a plain time-parameter
default), each with a reference that is derived from what the user WROTE plus the default's declaration in the source (never read back
from the object):

  override   parameter level, exact: `Cls(par=<form>)` for form in number / [number] / [number, unit] / time parameter with a unit / the
             dict spelling of `ss.Sim(diseases=dict(type=..., par=number))` on module timelines with step != 1 unit: the amount the module
             applies per step (the object's per-step value — or the bare number itself when the wrapper was lost) = the number converted from
             the default's (or the given) unit to the module's step with the default's conversion law (rate / duration / probability)
  waning     consumption level, exact: one real `SIS.update_immunity()` on agents with immunity 1: the immunity lost in one step is the
             waning rate x the step length, for the default and for every override form
  kernel     consumption level, exact: the per-edge beta that reaches `Infection.compute_transmission` in one real `infect()` call on a random
             network = edge beta x (beta converted to the disease's step), for every override form of `beta` (SIR and SIS)
  dt_pair    metamorphic, exact: the same override on steps dt and dt/2 — the amounts applied per step compound to the same amount per unit time
             (rate: a(dt) = 2 a(dt/2); probability: 1-a(dt) = (1-a(dt/2))^2)
Correspondence: the `override` driver op (Model/Hazard.lean `overrideInit` with the regenerated `_update_timepar` branch table) against the
real object (unit, parent, factor, per-step value; or "bare number").
"""
import math
from fractions import Fraction as Fr
import numpy as np

U = 2.0 ** -53
F32 = 2.0 ** -20


def F(sig, what):
    return dict(signature=sig, what=what)


FORMS = ['number', 'list', 'listunit', 'timepar', 'simdict']
LINES = [('year', 0.25, {}), ('day', 7, {}), ('week', 2, {}), ('year', 0.5, dict(unit='day', dt=2)), ('month', 1, dict(unit='week', dt=1)), ('year', 2.0, {})]
XS = dict(beta=[0.02, 0.3, 0.004], rate=[0.1, 0.4, 3.0], dur=[3.5, 0.6, 12], time_prob=[0.05, 0.3], rate_prob=[0.1, 0.7])
XUNITS = ['day', 'week', 'month', 'year']


def plain_rows():
    from harness.props import c16_round3 as r3
    seen = set(); out = []
    for d in r3.builtin_decls():
        if d['form'] != 'plain' or (d['cls'], d['par']) in seen: continue
        seen.add((d['cls'], d['par'])); out.append(d)
    return out


def row_of(cls, par):
    return next((d for d in plain_rows() if d['cls'] == cls and d['par'] == par), None)


def user_value(form, kind, x, xunit):
    import starsim as ss
    if form in ('number', 'simdict'): return x
    if form == 'list': return [x]
    if form == 'listunit': return [x, xunit]
    if form == 'timepar': return getattr(ss, kind)(x, unit=xunit)
    raise ValueError(form)


def written(cls, par, form, x, xunit, kind):
    if form == 'number': return f'ss.{cls}({par}={x})'
    if form == 'list': return f'ss.{cls}({par}=[{x}])'
    if form == 'listunit': return f'ss.{cls}({par}=[{x}, {xunit!r}])'
    if form == 'timepar': return f'ss.{cls}({par}=ss.{kind}({x}, unit={xunit!r}))'
    return f"dict(type={cls.lower()!r}, {par}={x})"


def build(cls, par, form, x, xunit, kind, su, sdt, mkw, n_agents=30, network=None, extra=None, seed=1):
    """ the real module constructed the way the user would, as the only time-aware module of the sim (plus an optional random network) """
    import starsim as ss
    C = getattr(ss, cls)
    kw = dict(mkw); kw.update(extra or {}); kw[par] = user_value(form, kind, x, xunit)
    skw = dict(n_agents=n_agents, unit=su, dt=sdt, dur=3 * sdt, verbose=0, rand_seed=seed)
    if issubclass(C, ss.Disease):
        mod = dict(type=cls.lower(), **kw) if form == 'simdict' else C(**kw)
        sim = ss.Sim(diseases=mod, networks=network, **skw); sim.init()
        return sim, sim.diseases[0]
    if issubclass(C, ss.Demographics):
        mod = dict(type=cls.lower(), **kw) if form == 'simdict' else C(**kw)
        sim = ss.Sim(demographics=mod, **skw); sim.init()
        return sim, sim.demographics[0]
    if cls == 'MixingPool':
        if form == 'simdict': return None, None
        sim = ss.Sim(networks=C(**kw), **skw); sim.init()
        return sim, sim.networks[0]
    return None, None


def held(m, par):
    """ what the module holds for the parameter after initialisation (Deaths moves its rate to death_rate_data) """
    import starsim as ss
    obj = m.pars.get(par) if hasattr(m.pars, 'get') else None
    if isinstance(m, ss.Deaths) and par == 'death_rate' and not isinstance(obj, ss.TimePar) and hasattr(m, 'death_rate_data'):
        obj = m.death_rate_data
    return obj


def applied(obj):
    """ ('tp' | 'raw' | None, the amount applied in one step) """
    import starsim as ss
    if isinstance(obj, ss.TimePar):
        if not obj.initialized or obj.values is None or np.ndim(obj.values) > 0: return None, None
        return 'tp', float(obj.values)
    if isinstance(obj, (int, float, np.integer, np.floating)) and not isinstance(obj, bool):
        return 'raw', float(obj)
    return None, None


def expected_unit(form, row, xunit):
    return xunit if form in ('listunit', 'timepar') else row['unit']


def o_override(a, c16):
    import starsim as ss
    from harness.props import c16_round3 as r3
    c06 = c16.c06
    row = row_of(a['cls'], a['par'])
    if row is None: return []
    su, sdt = a['sim']; kind = row['kind']; form = a['form']; x = a['x']; xunit = a.get('xunit')
    sim, m = build(a['cls'], a['par'], form, x, xunit, kind, su, sdt, a['mod'])
    if m is None: return []
    mu, mdt = m.t.unit, m.t.dt
    obj = held(m, a['par'])
    how, amount = applied(obj)
    wr = written(a['cls'], a['par'], form, x, xunit, kind)
    where = f"{wr} (default `{row['src']}`) in a module stepping {mdt} {mu}"
    if how is None:
        return [F(dict(oracle='override', form=form, kind=kind, what='class'), f"{where}: the parameter holds a {type(obj).__name__} ({obj!r}), neither a time parameter nor a number")]
    if how == 'tp':
        if (obj.parent_unit, obj.parent_dt) != (mu, mdt): return []      # recorded first-module linkage (reported by disease_pars / the zoo)
        if type(obj).__name__ != kind:
            return [F(dict(oracle='override', form=form, kind=kind, what='class'), f"{where}: the parameter became ss.{type(obj).__name__}, the default is ss.{kind}")]
    unit = expected_unit(form, row, xunit)
    f = r3.ref_factor(c06, unit, mu, mdt)
    if r3.check_scalar(c06, kind, x, amount, f): return []
    raw = ' — the number is held WITHOUT its time-parameter wrapper and is applied as is on every step' if how == 'raw' else ''
    return [F(dict(oracle='override', form=form, kind=kind, what='value'),
              f"{where}: the amount applied per step is {amount!r}, but {x} per/for one {unit or mu} converted to a step of {mdt} {mu} "
              f"(unit / step = {float(f)!r}, law of ss.{kind}) is not that{raw}")]


def per_step_ref(c06, kind, x, unit, mu, mdt):
    """ float reference of the per-step amount (for the consumption oracles) """
    f = c06.exact_ratio(unit or mu, 1.0, mu, mdt)
    if kind == 'rate': return float(c06.fr(x) / f)
    if kind == 'dur': return float(c06.fr(x) * f)
    return float(c06.tp_ref(x, f)[0])


def o_waning(a, c16):
    """ one real SIS.update_immunity() on agents with immunity 1 """
    import starsim as ss
    c06 = c16.c06
    row = row_of('SIS', 'waning')
    if row is None: return []
    su, sdt = a['sim']; form = a['form']; x = a['x']; xunit = a.get('xunit')
    if form == 'default':
        sim = ss.Sim(n_agents=30, unit=su, dt=sdt, dur=3 * sdt, diseases=ss.SIS(**a['mod']), networks=None, verbose=0); sim.init()
        dis = sim.diseases[0]; x = row['v']; unit = row['unit']; wr = f"ss.SIS() (default `{row['src']}`)"
    else:
        sim, dis = build('SIS', 'waning', form, x, xunit, 'rate', su, sdt, a['mod'])
        unit = expected_unit(form, row, xunit); wr = written('SIS', 'waning', form, x, xunit, 'rate')
    obj = dis.pars.waning
    if isinstance(obj, ss.TimePar) and (obj.parent_unit, obj.parent_dt) != (dis.t.unit, dis.t.dt): return []
    uids = sim.people.auids
    dis.immunity[uids] = 1.0
    dis.update_immunity()
    left = np.asarray(dis.immunity[uids], dtype=float)
    want = 1 - per_step_ref(c06, 'rate', x, unit, dis.t.unit, dis.t.dt)
    if np.abs(left - want).max() <= 4 * F32:
        return []
    return [F(dict(oracle='waning-per-step', form=form),
              f"{wr} stepping {dis.t.dt} {dis.t.unit}: one update_immunity() takes immunity 1 to {float(left[0])!r}, i.e. {1 - float(left[0])!r} is lost in one step, "
              f"but a waning of {x} per {unit or dis.t.unit} x the step length is {1 - want!r}")]


def o_kernel(a, c16):
    """ the per-edge beta reaching compute_transmission in one real infect() call, for a beta supplied in the given form """
    import starsim as ss
    c06 = c16.c06
    cls = a.get('disease', 'SIS')
    row = row_of(cls, 'beta')
    if row is None: return []
    su, sdt = a['sim']; form = a['form']; x = a['x']; xunit = a.get('xunit')
    net = ss.RandomNet(n_contacts=ss.constant(3))
    sim, dis = build(cls, 'beta', form, x, xunit, 'beta', su, sdt, a['mod'], n_agents=200, network=net, extra=dict(init_prev=0.3), seed=a.get('seed', 1))
    net = sim.networks[0]
    if not len(net.edges.p1): net.step()
    if not len(net.edges.p1): return []
    obj = dis.pars.beta
    if isinstance(obj, ss.TimePar) and (obj.parent_unit, obj.parent_dt) != (dis.t.unit, dis.t.dt): return []
    cap = []
    orig = type(dis).compute_transmission

    def rec(src, trg, rel_trans, rel_sus, beta_per_dt, randvals):
        cap.append(np.array(np.asarray(beta_per_dt), dtype=float)); return orig(src, trg, rel_trans, rel_sus, beta_per_dt, randvals)
    dis.compute_transmission = rec
    try:
        dis.infect()
    finally:
        del dis.compute_transmission
    if not cap: return []
    eb = np.asarray(net.edges.beta, dtype=float)
    unit = expected_unit(form, row, xunit)
    bstep = per_step_ref(c06, 'beta', x, unit, dis.t.unit, dis.t.dt)
    wr = written(cls, 'beta', form, x, xunit, 'beta')
    for got in cap:
        if len(got) != len(eb): return []
        want = eb * bstep
        if np.abs(got - want).max() > 4 * F32 * max(float(np.abs(want).max()), 1e-300) + 1e-15:
            k = int(np.argmax(np.abs(got - want)))
            return [F(dict(oracle='network-transmission', how='exact', form=form),
                      f"{wr} stepping {dis.t.dt} {dis.t.unit} on a random network: the per-edge beta reaching compute_transmission is {got[k]!r}, but edge beta {eb[k]!r} x "
                      f"({x} per {unit or dis.t.unit} converted to the step = {bstep!r}) = {want[k]!r}")]
    return []


def o_dt_pair(a, c16):
    """ metamorphic: the same written override on steps dt and dt/2 """
    row = row_of(a['cls'], a['par'])
    if row is None: return []
    su, sdt = a['sim']; kind = row['kind']; form = a['form']; x = a['x']; xunit = a.get('xunit')
    am = []
    for dt in (sdt, sdt / 2):
        sim, m = build(a['cls'], a['par'], form, x, xunit, kind, su, dt, dict(unit=su, dt=dt))      # the MODULE steps dt (some classes default to yearly steps)
        if m is None or (m.t.unit, float(m.t.dt)) != (su, float(dt)): return []
        obj = held(m, a['par'])
        if hasattr(obj, 'parent_dt') and (obj.parent_unit, obj.parent_dt) != (m.t.unit, m.t.dt): return []
        how, amount = applied(held(m, a['par']))
        if how is None: return []
        am.append(amount)
    a1, a2 = am
    if kind == 'rate': ok = abs(a1 - 2 * a2) <= 1e-12 * max(abs(a1), 1e-300)
    elif kind == 'dur': ok = abs(2 * a1 - a2) <= 1e-12 * max(abs(a2), 1e-300)
    elif kind in ('beta', 'time_prob'): ok = abs((1 - a1) - (1 - a2) ** 2) <= 1e-12
    else: ok = abs((1 - a1) - (1 - a2) ** 2) <= 1e-12
    if ok: return []
    return [F(dict(oracle='override-dt-pair', form=form, kind=kind),
              f"{written(a['cls'], a['par'], form, x, xunit, kind)} (default `{row['src']}`): the amount applied per step is {a1!r} with dt={sdt} {su} and {a2!r} with dt={sdt / 2} {su}: "
              f"two half steps do not compound to one full step, so events per unit time depend on dt")]


ORACLES = dict(override=o_override, waning=o_waning, kernel=o_kernel, dt_pair=o_dt_pair)


def pick_x(rng, kind, default):
    xs = [v for v in XS.get(kind, [0.1]) if default is None or abs(v - default) > 1e-9]
    return rng.choice(xs)


def cases(rng, thorough=False):
    """ (oracle, args): every plain row x the number form on a fixed line with step != 1, + one seeded (form, line) per row (all in thorough) """
    out = []
    for i, row in enumerate(plain_rows()):
        base = dict(cls=row['cls'], par=row['par'])
        su, sdt, mkw = LINES[i % 3]
        mkw = mkw or dict(unit=su, dt=sdt)        # explicit: some classes (HIV, Births, Deaths, Pregnancy) default to yearly steps whatever the sim's
        out.append(('override', dict(base, form='number', x=pick_x(rng, row['kind'], row['v']), sim=[su, sdt], mod=mkw)))
        forms = FORMS[1:] if thorough else [rng.choice(FORMS[1:])]
        for form in forms:
            su, sdt, mkw = rng.choice(LINES)
            out.append(('override', dict(base, form=form, x=pick_x(rng, row['kind'], row['v']), xunit=rng.choice(XUNITS), sim=[su, sdt], mod=mkw)))
        su, sdt, _ = rng.choice(LINES[:3])
        out.append(('dt_pair', dict(base, form=rng.choice(['number', 'list', 'simdict']), x=pick_x(rng, row['kind'], row['v']), sim=[su, sdt])))
    for j, form in enumerate(['default'] + FORMS):
        su, sdt, mkw = LINES[j % 3] if not thorough else rng.choice(LINES)
        out.append(('waning', dict(form=form, x=rng.choice([0.1, 0.02, 0.3]), xunit=rng.choice(XUNITS), sim=[su, sdt], mod=mkw)))
        if form != 'default':
            su, sdt, mkw = LINES[(j + 1) % 3]
            out.append(('kernel', dict(disease=rng.choice(['SIS', 'SIR']), form=form, x=rng.choice([0.02, 0.2]), xunit=rng.choice(XUNITS), sim=[su, sdt], mod=mkw, seed=rng.randint(1, 999))))
    return out


def search(ctx, c16, run_oracle):
    for name, args in cases(ctx.rng, ctx.thorough or bool(ctx.broken)):
        run_oracle(ctx, name, args)


def correspond(ctx, c16):
    """ Model/Hazard.lean `overrideInit` (regenerated branch table) against the real object, for the number / list forms of every plain row """
    import starsim as ss
    c06 = c16.c06
    rng = ctx.rng
    tu, to_ = c06.tok_unit, c06.tok_opt
    lines = []; checks = []
    rows = plain_rows()
    for i, row in enumerate(rows):
        for form in ('number', rng.choice(['list', 'listunit'])):
            su, sdt, mkw = LINES[i % 3] if form == 'number' else rng.choice(LINES)
            x = pick_x(rng, row['kind'], row['v']); xunit = rng.choice(XUNITS)
            data = dict(kind='override', oracle='override', args=dict(cls=row['cls'], par=row['par'], form=form, x=x, xunit=xunit, sim=[su, sdt], mod=mkw))
            try:
                sim, m = build(row['cls'], row['par'], form, x, xunit, row['kind'], su, sdt, mkw)
            except Exception as e:
                ctx.count('r5_rejected_' + type(e).__name__); continue
            if m is None: continue
            obj = held(m, row['par'])
            mu, mdt = m.t.unit, m.t.dt
            if isinstance(obj, ss.TimePar) and (obj.parent_unit, obj.parent_dt) != (mu, mdt): continue
            mform = 'number' if form == 'number' else 'list'
            xu = xunit if form == 'listunit' else None
            v0 = row['v'] if row['v'] is not None else 1.0
            line = f"override {row['kind']} {c06.tok_val(v0)} {tu(row['unit'])} {mform} {c06.tok_num(x)} {tu(xu)} {tu(mu)} {to_(mdt)}"

            def chk(ml, obj=obj, kind=row['kind']):
                if not ml.startswith('ok '): return f'model {ml}, the real parameter is {obj!r}'
                p = ml[3:].split(' ')
                if p[0] == 'raw':
                    if isinstance(obj, ss.TimePar) or not isinstance(obj, (int, float)): return f'model: a bare number {p[1]}; real: {obj!r}'
                    return None if c06.close(Fr(p[1]), c06.fr(obj), 4 * U) else f'model: bare number {p[1]}; real {obj!r}'
                if p[0] != 'tp': return f'model {ml}'
                if not isinstance(obj, ss.TimePar): return f'model: a time parameter ({ml}); real: {type(obj).__name__} {obj!r}'
                o = c06.observe(obj)
                unit, pu, pdt, fac, vals = p[1:]
                if o['kind'] != kind: return f"real class ss.{o['kind']}, default ss.{kind}"
                if (unit if unit != '~' else None) != o['unit']: return f"real unit {o['unit']!r}, model {unit}"
                if (pu if pu != '~' else None) != o['punit']: return f"real parent unit {o['punit']!r}, model {pu}"
                if fac == '~' or not c06.close(Fr(fac), c06.fr(o['factor']), 8 * U): return f"real factor {o['factor']!r}, model {fac}"
                if kind in ('dur', 'rate'):
                    mv = c06.val_from_tok(vals)
                    if not c06.close(mv, c06.fr(o['values']), 16 * U): return f"real per-step value {o['values']!r}, model {vals}"
                return None
            checks.append((len(lines), chk, data)); lines.append(line)
    if not lines:
        ctx.broke('correspondence', 'C16.override', 'no override configuration could be built'); return
    out = c16.drive(ctx, lines)
    for li, fn, data in checks:
        ml = out[li]
        ctx.case(('r5', lines[li]), True, sample=dict(kind='override', line=lines[li], model=ml))
        ctx.count('cmp_r5_override')
        why = 'the model does not understand the line' if ml == 'bad-op' else fn(ml)
        if why:
            ctx.broke('correspondence', 'C16.override', f"user override of a time-parameter default: {why} [{lines[li]}]", data=data)
            return
    facts = (ctx.extracted.get('ParsUpdate') or {}).get('facts') or {}
    ctx.notes['round5_tables'] = dict(update_timepar_branches=facts.get('branches'), plain_rows=len(rows))
