"""
C16 round 4: two always-exercised families.

  * realised durations — an infection of declared duration D in a disease module stepping (unit, dt) inside a sim stepping another
    (unit, dt) (lockstep and off-lockstep pairs, finer and coarser, other units) is MEASURED from the observed state of a run
    (everybody infected at the start, no transmission; the module's own n_infected series): it lasts n module steps with
    D <= n x step < D + step — not merely "the sampled parameter was converted".  Disease = the only module of the sim, so the
    recorded first-module linkage cannot interfere.
  * timeline forms — every (unit, dt) line also with a NUMERIC time axis (start=0, start=<number>) and with a calendar-date start, for
    the oracles that read anything `Time.init` derives (ageing; the demographic hazards; routine delivery): the step length in years
    does not depend on how the axis is written.
"""
import math
from fractions import Fraction as Fr
import numpy as np

U = 2.0 ** -53


def F(sig, what):
    return dict(signature=sig, what=what)


# (sim unit, dt), (module unit, dt), D, unit of D — lockstep first, then module finer / coarser / other unit
REALISED_LINES = [
    (('day', 1), dict(), 20, 'day'),
    (('day', 2), dict(unit='day', dt=1), 20, 'day'),
    (('day', 1), dict(unit='day', dt=2), 20, 'day'),
    (('day', 1), dict(unit='week', dt=1), 70, 'day'),
    (('week', 1), dict(unit='day', dt=1), 21, 'day'),
    (('year', 0.5), dict(dt=0.25), 3, 'year'),
    (('year', 0.25), dict(dt=1.0), 6, 'year'),
    (('day', 4), dict(unit='day', dt=1), 3, 'week'),
    (('year', 1 / 52), dict(unit='week', dt=2), 56, 'day'),
]
REALISED_DISEASES = ['SIS', 'SIR']


def run_realised(a):
    """ -> (n_infected series over the module's steps, module step in days, sim step in days, D in days, module) """
    import starsim as ss
    from harness.props import c06
    (su, sdt) = a['sim']; mkw = a['mod']; D = a['D']; du = a['dunit']
    L = c06.live_units()
    mu = mkw.get('unit', su); mdt = mkw.get('dt', sdt if mu == su else 1.0)
    mstep = c06.fr(mdt) * L[mu]; sstep = c06.fr(sdt) * L[su]; Dd = c06.fr(D) * L[du]
    horizon = 8 * Dd + 4 * max(mstep, sstep)
    nsteps = int(math.ceil(horizon / sstep))
    kw = dict(init_prev=ss.bernoulli(p=1.0), beta=0, dur_inf=ss.constant(v=ss.dur(D, unit=du)))
    if a['disease'] == 'SIR': kw['p_death'] = 0
    dis = getattr(ss, a['disease'])(**kw, **mkw)
    sim = ss.Sim(n_agents=a.get('n', 25), unit=su, dt=sdt, dur=nsteps * sdt, diseases=dis, networks=None, use_aging=False, rand_seed=a.get('seed', 1), verbose=0)
    sim.run()
    d = sim.diseases[0]
    ninf = np.asarray(d.results['n_infected'], dtype=float)
    return ninf, mstep, sstep, Dd, d, sim


def o_realised(a, c16):
    ninf, mstep, sstep, Dd, d, sim = run_realised(a)
    where = (f"{a['disease']}(dur_inf=ss.constant(ss.dur({a['D']}, unit={a['dunit']!r})), {a['mod']}) stepping {d.t.dt} {d.t.unit} in a sim stepping {sim.t.dt} {sim.t.unit}, "
             f"everybody infected at the start, no transmission")
    if not ninf[0] > 0:
        return []      # nothing was infected: the scenario did not take (counted by the caller as a quiet run)
    zero = np.nonzero(ninf == 0)[0]
    k = int(zero[0]) if len(zero) else None
    if k is not None and Dd <= k * mstep * (1 + Fr(1, 10 ** 9)) and k * mstep < (Dd + mstep) * (1 + Fr(1, 10 ** 9)):
        return []
    realised = None if k is None else k * mstep
    law = 'other'
    if realised is not None:
        pred = Dd * sstep / mstep       # a duration in module steps counted down on the sim's step counter
        if abs(realised - pred) <= mstep + sstep: law = 'sim-step-counter'
    return [F(dict(oracle='realised-duration', disease=a['disease'], law=law),
              f"{where}: the infection lasts " + (f"{float(realised):g} days ({k} module steps)" if realised is not None else f"longer than the run ({len(ninf)} module steps)") +
              f", declared {float(Dd):g} days (expected D <= n x step < D + step, step = {float(mstep):g} days)" +
              (f"; that is D x sim step / module step = {float(Dd * sstep / mstep):g} days: a duration in module steps is counted on the sim's step index" if law == 'sim-step-counter' else ''))]


# ---------------------------------------------------------------------------
# timeline forms

# (unit, dt, dur, start): numeric axes in non-year units, numeric non-zero starts, calendar dates, fractional numeric years
AXES = [('day', 1, 120, 0), ('day', 7, 140, 0), ('week', 1, 30, 0), ('month', 1, 24, 0), ('day', 1, 60, 10), ('week', 2, 40, 5), ('month', 3, 24, 12),
        ('day', 1, 60, '2021-03-01'), ('week', 1, 20, '2019-12-30'), ('month', 1, 14, '2020-01-01'), ('year', 0.25, 3, 0), ('year', 0.5, 3, 1990.5), ('year', 1.0, 3, '2001-01-01')]


def o_axis_ageing(a, c16):
    """ ageing over n sim steps = n x step length in years, whatever the form of the time axis """
    import starsim as ss
    su, sdt, dur, start = a['sim']
    sim = ss.Sim(n_agents=30, unit=su, dt=sdt, dur=dur, start=start, use_aging=True, verbose=0); sim.init()
    ppl = sim.people
    a0 = np.array(ppl.age[ppl.auids], dtype=np.float64)
    n = a.get('steps', 5)
    for _ in range(n): ppl.update_post()
    a1 = np.array(ppl.age[ppl.auids], dtype=np.float64)
    want = float(n * c16.dt_year_exact(su, sdt))
    if (np.abs((a1 - a0) - want) > 2.0 ** -20 * n * (np.abs(a1) + 1)).any():
        return [F(dict(oracle='ageing'), f"sim(unit={su!r}, dt={sdt}, start={start!r}) [{'numeric' if not isinstance(start, str) else 'calendar'} time axis]: {n} steps aged the agents by "
                  f"{float((a1 - a0)[0])!r} years instead of {want!r}")]
    return []


def o_axis_run_ageing(a, c16):
    """ the same from a whole run: age gain of every survivor = elapsed time in years (sim.run, not update_post called by hand) """
    import starsim as ss
    su, sdt, dur, start = a['sim']
    sim = ss.Sim(n_agents=30, unit=su, dt=sdt, dur=dur, start=start, use_aging=True, verbose=0); sim.init()
    a0 = np.array(sim.people.age.raw[:30], dtype=np.float64)
    sim.run()
    a1 = np.array(sim.people.age.raw[:30], dtype=np.float64)
    n = sim.t.npts
    want = float(n * c16.dt_year_exact(su, sdt))
    if (np.abs((a1 - a0) - want) > 2.0 ** -18 * n * (np.abs(a1) + 1)).any():
        return [F(dict(oracle='ageing', how='run'), f"sim(unit={su!r}, dt={sdt}, start={start!r}, dur={dur}) run for {n} steps: agents aged by {float((a1 - a0)[0])!r} years, elapsed {want!r}")]
    return []


ORACLES = dict(realised=o_realised, axis_ageing=o_axis_ageing, axis_run_ageing=o_axis_run_ageing)


def realised_cases(rng, thorough=False):
    out = []
    for i, (simt, mkw, D, du) in enumerate(REALISED_LINES):
        for j, name in enumerate(REALISED_DISEASES):
            if not thorough and i >= 5 and (i + j) % 2: continue        # quick: lines 0-4 for both diseases, the rest alternating
            out.append(dict(disease=name, sim=list(simt), mod=mkw, D=D, dunit=du, seed=rng.randint(1, 999)))
    return out


def search(ctx, c16, run_oracle):
    rng = ctx.rng
    for a in realised_cases(rng, ctx.thorough or bool(ctx.broken)):
        run_oracle(ctx, 'realised', a)
    for ax in AXES:
        run_oracle(ctx, 'axis_ageing', dict(sim=list(ax), steps=rng.choice([1, 3, 7])))
    for ax in AXES[:7:2] + [AXES[8]]:
        run_oracle(ctx, 'axis_run_ageing', dict(sim=list(ax)))
    # the demographic hazards and routine delivery on numeric / dated axes (the existing oracles, sim = [unit, dt, dur, start])
    for ax in [AXES[0], AXES[2], AXES[5], AXES[9]] + ([AXES[1], AXES[3], AXES[6]] if ctx.thorough else []):
        for kind in ('births', 'deaths'):
            run_oracle(ctx, 'hazard', dict(kind=kind, form='number', sim=list(ax), mod={}, v=rng.choice([25.0, 10, 1200])))
            run_oracle(ctx, 'hazard', dict(kind=kind, form='timepar', sim=list(ax), mod={}, v=rng.choice([5, 12.5, 40]), runit=rng.choice(['year', 'month', 'day'])))
        run_oracle(ctx, 'fertility', dict(sim=list(ax), mod={}, v=rng.choice([80, 150])))


def correspond(ctx, c16):
    """ (1) ageing increment on every axis form against the model's step length in years; (2) the recovery of SIS / SIR step by step
        against `recovered` with the regenerated clocks """
    import starsim as ss
    c06 = c16.c06
    tn, to_, tu = c06.tok_num, c06.tok_opt, c06.tok_unit
    lines = []; checks = []
    for su, sdt, dur, start in AXES:
        try:
            sim = ss.Sim(n_agents=20, unit=su, dt=sdt, dur=dur, start=start, use_aging=True, verbose=0); sim.init()
        except Exception as e:
            ctx.count('r4_rejected_' + type(e).__name__); continue
        ppl = sim.people
        a0 = np.array(ppl.age[ppl.auids], dtype=np.float64); ppl.update_post(); a1 = np.array(ppl.age[ppl.auids], dtype=np.float64)
        dy = float(sim.t.dt_year)
        def chk(ml, a0=a0, a1=a1, dy=dy, su=su, sdt=sdt, start=start):
            if not ml.startswith('ok '): return f'model {ml}'
            inc = float(Fr(ml[3:]))
            if abs(dy - inc) > 8 * U * abs(inc): return f'sim.t.dt_year = {dy!r} but the model step length in years is {inc!r}'
            if (np.abs((a1 - a0) - inc) > 2.0 ** -22 * (np.abs(a1) + 1)).any(): return f'age increment {float((a1 - a0)[0])!r} but model {inc!r}'
            return None
        checks.append((len(lines), chk, dict(kind='axis-ageing', sim=[su, sdt, dur, start])))
        lines.append(f"dtyear {int(not isinstance(start, str))} {tu(su)} {to_(sdt)}")
    for i in (1, 2, 4, 6):
        simt, mkw, D, du = REALISED_LINES[i]
        for name in REALISED_DISEASES:
            a = dict(disease=name, sim=list(simt), mod=mkw, D=D, dunit=du)
            try:
                ninf, mstep, sstep, Dd, d, sim = run_realised(a)
            except Exception as e:
                ctx.count('r4_rejected_' + type(e).__name__); continue
            dsteps = Dd / mstep
            zero = np.nonzero(ninf == 0)[0]
            k0 = int(zero[0]) if len(zero) else len(ninf) - 1
            for k in sorted({max(k0 - 1, 0), k0, min(k0 + 1, len(ninf) - 1), int(dsteps), int(dsteps) + 1} & set(range(len(ninf)))):
                def chk(ml, k=k, ninf=ninf, name=name):
                    if ml not in ('ok 0', 'ok 1'): return f'model {ml}'
                    rec = ninf[k] == 0
                    return None if rec == (ml == 'ok 1') else f"after module step {k} the real {name} has {'recovered' if rec else 'not recovered'} (n_infected={ninf[k]:.0f}) but the model says recovered={ml[3:]}"
                checks.append((len(lines), chk, dict(kind='recovery-step', args=a, k=k)))
                lines.append(f"recover {name.lower()} {tn(mstep)} {tn(sstep)} {tn(dsteps)} {k}")
    out = c16.drive(ctx, lines)
    for li, fn, data in checks:
        ml = out[li]
        ctx.case(('r4', lines[li]), True, sample=dict(kind=data['kind'], line=lines[li], model=ml))
        ctx.count('cmp_r4_' + data['kind'])
        why = 'the model does not understand the line' if ml == 'bad-op' else fn(ml)
        if why:
            ctx.broke('correspondence', 'C16.' + data['kind'], f"{data['kind']}: {why} [{lines[li]}]", data=data)
            return
